import torch, kornia.core; kornia.core.Tensor = torch.Tensor
import numpy as np, sleap_io as sio
from omegaconf import OmegaConf
from sleap_nn.data.custom_datasets import BottomUpDataset
labels = sio.load_slp("/repo/tests/assets/minimal_instance.pkg.slp")
lf = labels[0]
sk = labels.skeletons[0]
pts = lf.instances[0].numpy()
try:
    pi = sio.PredictedInstance.from_numpy(pts + 3, sk, point_scores=np.ones(len(pts)), score=0.9)
except TypeError:
    pi = sio.PredictedInstance.from_numpy(points=pts + 3, skeleton=sk, point_scores=np.ones(len(pts)), instance_score=0.9)
lf.instances = [pi] + list(lf.instances)
before = [type(i).__name__ for i in labels[0].instances]
cfg = OmegaConf.create({"user_instances_only": True, "preprocessing": {"max_height": None, "max_width": None, "scale": 1.0, "is_rgb": False}, "use_augmentations_train": False, "augmentation_config": None})
ds = BottomUpDataset(labels=labels, data_config=cfg, confmap_head_config=OmegaConf.create({"sigma": 1.5, "output_stride": 2, "part_names": None}),
                     pafs_head_config=OmegaConf.create({"sigma": 4, "output_stride": 4}), max_stride=16, scale=1.0, apply_aug=False)
after = [type(i).__name__ for i in labels[0].instances]
print("before", before); print("after ", after)
