#!/venv/bin/python
"""Confirm a seeded change produced by a sub-agent and import it into /verif/seeded.

usage: tools/import_seed.py <worktree> <Cnn> <n> [tag]
Steps (all in the scratch worktree, never in /repo): clean tree -> demo passes; apply patch ->
the 112 baseline tests still pass, demo fails; undo.  On success copies patch.diff, demo.py and
meta.json (extended with what was run) to /verif/seeded/<Cnn>-<n>/.
"""
import json
import os
import shutil
import subprocess
import sys
import xml.etree.ElementTree as ET

HERE = os.path.dirname(os.path.dirname(os.path.abspath(__file__)))
wt, pid, n = sys.argv[1], sys.argv[2], sys.argv[3]
tag = sys.argv[4] if len(sys.argv) > 4 else ""  # e.g. "s2-" for the second round
sd = os.path.join(wt, "SEED", n)
patch = os.path.join(sd, "patch.diff")
demo = os.path.join(sd, "demo.py")
for f in (patch, demo):
    if not os.path.exists(f):
        sys.exit(f"missing {f}")


def sh(cmd, **kw):
    return subprocess.run(cmd, shell=True, capture_output=True, text=True, cwd=wt, **kw)


def run_demo():
    env = dict(os.environ, PYTHONPATH=wt)
    r = subprocess.run(["/venv/bin/python", demo], capture_output=True, text=True, cwd=wt, env=env, timeout=900)
    return r.returncode, (r.stdout + r.stderr)[-600:]


sh("git checkout -- sleap_nn")
rc0, out0 = run_demo()
if rc0 != 0:
    sys.exit(f"demo fails on the unchanged tree (rc={rc0}):\n{out0}")
r = sh(f"git apply {patch}")
if r.returncode != 0:
    sys.exit(f"patch does not apply: {r.stderr}")
try:
    rc1, out1 = run_demo()
    junit = f"/tmp/fx/junit_{pid}_{tag}{n}.xml"
    t = sh(f"/venv/bin/python -m pytest -q -p no:cacheprovider --timeout=900 --continue-on-collection-errors --junitxml={junit} tests", timeout=3000)
    base = set(json.load(open("/root/.vp/BASELINE.json"))["stable_pass"])
    passed = set()
    for tc in ET.parse(junit).iter("testcase"):
        if not list(tc):
            passed.add(f"{tc.get('classname')}::{tc.get('name')}")
    missing = sorted(base - passed)
finally:
    sh("git checkout -- sleap_nn")
ok = rc1 != 0 and not missing
print(json.dumps({"seed": f"{pid}-{n}", "demo_clean_rc": rc0, "demo_patched_rc": rc1, "baseline_missing": missing[:5], "confirmed": ok, "demo_tail": out1[-300:]}, indent=1))
if not ok:
    sys.exit(1)
dst = os.path.join(HERE, "seeded", f"{pid}-{tag}{n}")
os.makedirs(dst, exist_ok=True)
shutil.copy(patch, os.path.join(dst, "patch.diff"))
shutil.copy(demo, os.path.join(dst, "demo.py"))
meta = {}
try:
    meta = json.load(open(os.path.join(sd, "meta.json")))
except Exception:
    pass
meta.update({"property": pid, "confirmed_by": "tools/import_seed.py in a scratch worktree: demo exit 0 on the unchanged tree; with the patch applied demo exit "
             f"{rc1} and all 112 baseline tests pass (pytest, junit compared with BASELINE.json stable_pass)", "demo_failure_tail": out1[-300:]})
json.dump(meta, open(os.path.join(dst, "meta.json"), "w"), indent=1)
