#!/venv/bin/python
"""Regenerate sa/known_functions.json: the function names of the reference tree (/repo HEAD, clean).

Used only to decide where the helper-absorbing normalisation (sa/core/inline.py) is applied."""
import json
import os
import subprocess
import sys

HERE = os.path.dirname(os.path.dirname(os.path.abspath(__file__)))
sys.path.insert(0, HERE)
os.environ["VERIF_NO_INLINE"] = "1"
from sa.core.program import Program  # noqa: E402

st = subprocess.run(["git", "-C", "/repo", "status", "--porcelain", "--", "sleap_nn"], capture_output=True, text=True).stdout.strip()
if st:
    sys.exit("refusing: /repo/sleap_nn has uncommitted changes")
head = subprocess.run(["git", "-C", "/repo", "rev-parse", "--short", "HEAD"], capture_output=True, text=True).stdout.strip()
prog = Program("/repo")
json.dump({"_doc": "function names of the reference tree; see sa/core/inline.py", "repo_head": head, "functions": sorted(prog.functions)},
          open(os.path.join(HERE, "sa", "known_functions.json"), "w"), indent=0)
print(len(prog.functions), "functions at", head)
