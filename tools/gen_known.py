#!/venv/bin/python
"""Regenerate sa/known_functions.json: the function names of the reference tree (/repo HEAD, clean).

Used only to decide where the helper-absorbing normalisation (sa/core/inline.py) is applied."""
import json
import os
import subprocess
import sys

HERE = os.path.dirname(os.path.dirname(os.path.abspath(__file__)))
sys.path.insert(0, HERE)
os.environ["VERIF_NO_INLINE"] = "1"
from sa.core.program import Program  # noqa: E402

st = subprocess.run(["git", "-C", "/repo", "status", "--porcelain", "--", "sleap_nn"], capture_output=True, text=True).stdout.strip()
if st:
    sys.exit("refusing: /repo/sleap_nn has uncommitted changes")
head = subprocess.run(["git", "-C", "/repo", "rev-parse", "--short", "HEAD"], capture_output=True, text=True).stdout.strip()
prog = Program("/repo")
import ast, hashlib
from sa.core.program import norm, walk_function


def sig(fi):
    hs = []
    for st in walk_function(fi.node):
        if isinstance(st, ast.stmt) and not isinstance(st, (ast.FunctionDef, ast.AsyncFunctionDef, ast.ClassDef)) and st is not fi.node:
            hs.append(hashlib.sha1(norm(st).encode()).hexdigest()[:8])
    return sorted(set(hs))


json.dump({"_doc": "functions of the reference tree (name -> parameters and statement fingerprints); used by sa/core/inline.py to decide which helpers are new "
                   "and by the program model to recognise a renamed function",
           "repo_head": head, "functions": {q: {"params": fi.params, "sig": sig(fi)} for q, fi in sorted(prog.functions.items())}},
          open(os.path.join(HERE, "sa", "known_functions.json"), "w"), indent=0)
print(len(prog.functions), "functions at", head)
