#!/venv/bin/python
"""Run the repository's test suite on /repo (or --repo DIR) and compare with the pinned baseline.

usage: tools/run_baseline.py [--repo DIR]   -> exit 0 iff all 112 stable_pass tests of /root/.vp/BASELINE.json pass
"""
import json
import os
import subprocess
import sys
import tempfile
import xml.etree.ElementTree as ET

repo = sys.argv[sys.argv.index("--repo") + 1] if "--repo" in sys.argv else "/repo"
fd, junit = tempfile.mkstemp(suffix=".xml")
os.close(fd)
env = dict(os.environ, OMP_NUM_THREADS=os.environ.get("OMP_NUM_THREADS", "4"))
subprocess.run(["/venv/bin/python", "-m", "pytest", "-q", "-p", "no:cacheprovider", "--timeout=900", "--continue-on-collection-errors", f"--junitxml={junit}", "tests"],
               cwd=repo, env=env, capture_output=True, text=True)
base = set(json.load(open("/root/.vp/BASELINE.json"))["stable_pass"])
passed = {f"{tc.get('classname')}::{tc.get('name')}" for tc in ET.parse(junit).iter("testcase") if not list(tc)}
os.unlink(junit)
missing = sorted(base - passed)
print(json.dumps({"repo": repo, "baseline": len(base), "passed_of_baseline": len(base & passed), "missing": missing}, indent=1))
sys.exit(1 if missing else 0)
