#!/venv/bin/python
"""Run every behaviour-preserving refactoring in /verif/refactors against all checks (each must stay quiet).

usage: tools/ref_index.py [id ...]   writes refactors/results.json and refactors/INDEX.md
Each refactoring is applied to a scratch copy of /repo/sleap_nn (removed afterwards); the checks run with --repo on it,
12 refactorings in parallel."""
import json
import os
import re
import shutil
import subprocess
import sys
import tempfile
from concurrent.futures import ThreadPoolExecutor

HERE = os.path.dirname(os.path.dirname(os.path.abspath(__file__)))
RD = os.path.join(HERE, "refactors")
PROPS = ["C%02d" % i for i in range(1, 21) if i != 16]
only = sys.argv[1:]
res = {}
try:
    res = json.load(open(os.path.join(RD, "results.json")))
except Exception:
    pass
scratch = tempfile.mkdtemp(prefix="refrun_")


def run(d):
    p = os.path.join(RD, d, "patch.diff")
    w = os.path.join(scratch, d)
    os.makedirs(w)
    shutil.copytree("/repo/sleap_nn", os.path.join(w, "sleap_nn"))
    r = subprocess.run(["git", "apply", p], cwd=w, capture_output=True, text=True)
    if r.returncode != 0:
        return d, {"verdict": "PATCH-DOES-NOT-APPLY", "alarms": {}}, [r.stderr[-200:]]
    alarms, lines = {}, []
    for c in PROPS:
        k = subprocess.run([os.path.join(HERE, "check"), c, "--no-evidence", "--repo", w], capture_output=True, text=True, cwd=HERE)
        if k.returncode != 0:
            ls = [l for l in k.stdout.splitlines() if re.match(r"^  C\d\d-|^ANALYSIS-", l)]
            alarms[c] = {"exit": k.returncode, "first": (ls or [""])[0][:220]}
            lines += [l[:240] for l in ls[:4]]
    shutil.rmtree(w, ignore_errors=True)
    return d, {"verdict": "QUIET" if not alarms else "ALARM", "alarms": alarms}, lines


ids = [d for d in sorted(os.listdir(RD)) if os.path.exists(os.path.join(RD, d, "patch.diff")) and (not only or d in only)]
try:
    with ThreadPoolExecutor(12) as ex:
        for d, v, lines in ex.map(run, ids):
            res[d] = v
            print(d, v["verdict"], {k: a["exit"] for k, a in v["alarms"].items()}, flush=True)
            for l in lines:
                print("     ", l)
finally:
    shutil.rmtree(scratch, ignore_errors=True)
json.dump(res, open(os.path.join(RD, "results.json"), "w"), indent=1)
with open(os.path.join(RD, "INDEX.md"), "w") as f:
    f.write("# Behaviour-preserving refactorings (independent sub-agents; each kept the 112 tests green and passed its own equivalence script)\n\n"
            "Every check must stay quiet (exit 0) on every one of them.\n\n| id | kind | what was changed | verdict |\n|---|---|---|---|\n")
    for d, v in sorted(res.items()):
        meta = {}
        try:
            meta = json.load(open(os.path.join(RD, d, "meta.json")))
        except Exception:
            pass
        al = "; ".join(f"{k} exit {a['exit']}" for k, a in v["alarms"].items())
        f.write(f"| {d} | {meta.get('kind', '')} | {str(meta.get('summary', '')).replace('|', '/')[:260]} | {v['verdict']} {al} |\n")
    q = sum(1 for v in res.values() if v["verdict"] == "QUIET")
    f.write(f"\n{q} of {len(res)} refactorings leave every check quiet.\n")
print(sum(1 for v in res.values() if v["verdict"] == "QUIET"), "of", len(res), "quiet")
