#!/venv/bin/python
"""List self-test variants whose `old` text no longer occurs in /repo (they would be skipped silently by the thorough
tier).  Exit 1 if any is stale.  usage: tools/stale_variants.py [repo]"""
import importlib
import os
import sys

HERE = os.path.dirname(os.path.dirname(os.path.abspath(__file__)))
sys.path.insert(0, HERE)
repo = sys.argv[1] if len(sys.argv) > 1 else "/repo"
bad = 0
total = 0
for i in range(1, 21):
    if i == 16:
        continue
    mod = importlib.import_module(f"sa.props.c{i:02d}")
    for v in getattr(mod, "VARIANTS", []):
        total += 1
        try:
            src = open(os.path.join(repo, v.file)).read()
        except OSError:
            src = ""
        if v.old not in src:
            bad += 1
            print(f"STALE C{i:02d} {v.name} ({v.file})")
print(f"{total} variants, {bad} stale")
sys.exit(1 if bad else 0)
