#!/venv/bin/python
"""Apply a seeded change to /repo, run every quick check against it, undo the change.

usage: tools/run_seed.py <patch.diff> [Cnn ...]      (never commits anything to /repo)
Prints, per property, the exit code and the rules that reported a VIOLATION.
"""
import json
import os
import re
import subprocess
import sys

HERE = os.path.dirname(os.path.dirname(os.path.abspath(__file__)))
patch = os.path.abspath(sys.argv[1])
props = sys.argv[2:] or ["C%02d" % i for i in range(1, 21) if i != 16]
st = subprocess.run(["git", "-C", "/repo", "status", "--porcelain", "--", "sleap_nn"], capture_output=True, text=True).stdout.strip()
if st:
    sys.exit(f"/repo/sleap_nn is not clean:\n{st}")
r = subprocess.run(["git", "-C", "/repo", "apply", patch], capture_output=True, text=True)
if r.returncode != 0:
    sys.exit(f"patch does not apply: {r.stderr}")
out = {}
try:
    for p in props:
        c = subprocess.run([os.path.join(HERE, "check"), p, "--no-evidence"], capture_output=True, text=True, cwd=HERE)
        rules = sorted(set(re.findall(r"^  (C\d\d-[\w]+)", c.stdout, flags=re.M))) if c.returncode == 1 else []
        inc = [l for l in c.stdout.splitlines() if l.startswith("ANALYSIS-")]
        out[p] = {"exit": c.returncode, "rules": rules, "incomplete": inc[:2]}
finally:
    subprocess.run(["git", "-C", "/repo", "checkout", "--", "sleap_nn"], check=True)
fired = {p: v for p, v in out.items() if v["exit"] != 0}
print(json.dumps(fired, indent=1))
print("DETECTED" if any(v["exit"] == 1 for v in out.values()) else ("INCONCLUSIVE" if fired else "MISSED"))
