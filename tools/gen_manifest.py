#!/venv/bin/python
"""Regenerate MANIFEST.json from sa/registry.py and validate it against the schema."""
import json
import os
import sys

HERE = os.path.dirname(os.path.dirname(os.path.abspath(__file__)))
sys.path.insert(0, HERE)
from sa.registry import ALL, REGISTRY  # noqa

BASELINE = json.load(open("/root/.vp/BASELINE.json"))["cmd"]
checks, na = [], []
for pid in ALL:
    r = REGISTRY.get(pid)
    if r is None:
        na.append({"property_id": pid, "reason": "check not built yet in this round (see DESIGN.md section 4b build order)"})
    elif "na" in r:
        na.append({"property_id": pid, "reason": r["na"]})
    else:
        checks.append(
            {
                "property_id": pid,
                "quick_cmd": f"./check {pid} --tier quick",
                "thorough_cmd": f"./check {pid} --tier thorough",
                "evidence_file": f"evidence/{pid}.json",
                "replay_cmd_template": f"./check {pid} --replay {{path}}",
                "engine": r["engine"],
                "level_claimed": {"category": "other", "text": r["text"], "design_ref": r["ref"]},
                "level_note": r["note"],
                "technique": r["technique"],
            }
        )
engines = [
    {"name": "program model", "path": "sa/core/program.py", "serves_properties": [c["property_id"] for c in checks],
     "kind_free_text": "ast parse of every sleap_nn module of the current tree, symbol index, callee resolution"},
    {"name": "cfg", "path": "sa/core/cfg.py", "serves_properties": [c["property_id"] for c in checks],
     "kind_free_text": "statement CFG with exceptional edges and duplicated finally bodies; cut-based dominance queries"},
]
man = {
    "version": 1,
    "setup_cmd": "/venv/bin/python -m sa.selfcheck",
    "hooks": {
        "guard": "SLEAP_NN_VERIF",
        "enable": "none needed: every check is a static analysis that reads /repo's source; nothing is built or instrumented",
        "baseline_off_cmd": BASELINE.replace("<file>", "/tmp/sleapnn_baseline.junit.xml"),
        "source_commits": [],
        "add_only": True,
    },
    "engines": engines,
    "checks": checks,
    "not_applicable": na,
    "notes": "Technique family: static analysis only. Every check parses /repo/sleap_nn as it is on disk on each run "
    "(python ast; networkx for graph reachability), imports nothing from sleap_nn and runs no test. Exit 0/1/2 protocol "
    "and known-findings handling are described in DESIGN.md sections 0 and 2.3.",
}
try:
    extra = json.load(open(os.path.join(HERE, "tools", "manifest_extra.json")))
    man["hooks"]["source_commits"] = extra.get("source_commits", [])
except FileNotFoundError:
    pass
open(os.path.join(HERE, "MANIFEST.json"), "w").write(json.dumps(man, indent=1) + "\n")
import jsonschema

jsonschema.validate(man, json.load(open("/root/.vp/MANIFEST.schema.json")))
print(f"MANIFEST.json: {len(checks)} checks, {len(na)} not_applicable; valid")
