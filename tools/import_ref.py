#!/venv/bin/python
"""Confirm a behaviour-preserving refactoring produced by a sub-agent and import it into /verif/refactors.

usage: tools/import_ref.py <worktree> <Cnn> <n> [tag]
Steps (all in the scratch worktree, never in /repo): clean tree; apply patch -> the equivalence script exits 0 and the 112
baseline tests still pass; undo.  On success copies patch.diff, equiv.py and meta.json to /verif/refactors/<Cnn>-<tag><n>/.
"""
import json
import os
import shutil
import subprocess
import sys
import xml.etree.ElementTree as ET

HERE = os.path.dirname(os.path.dirname(os.path.abspath(__file__)))
wt, pid, n = sys.argv[1], sys.argv[2], sys.argv[3]
tag = sys.argv[4] if len(sys.argv) > 4 else ""
sd = os.path.join(wt, "REF", n)
patch = os.path.join(sd, "patch.diff")
equiv = os.path.join(sd, "equiv.py")
if not os.path.exists(patch):
    sys.exit(f"missing {patch}")


def sh(cmd, **kw):
    return subprocess.run(cmd, shell=True, capture_output=True, text=True, cwd=wt, **kw)


sh("git checkout -- sleap_nn")
r = sh(f"git apply {patch}")
if r.returncode != 0:
    sys.exit(f"patch does not apply: {r.stderr}")
try:
    rc, out = None, ""
    if os.path.exists(equiv):
        env = dict(os.environ, PYTHONPATH=wt)
        e = subprocess.run(["/venv/bin/python", equiv], capture_output=True, text=True, cwd=wt, env=env, timeout=1800)
        rc, out = e.returncode, (e.stdout + e.stderr)[-400:]
    junit = f"/tmp/fx/junit_ref_{pid}_{tag}{n}.xml"
    sh(f"/venv/bin/python -m pytest -q -p no:cacheprovider --timeout=900 --continue-on-collection-errors --junitxml={junit} tests", timeout=3000)
    base = set(json.load(open("/root/.vp/BASELINE.json"))["stable_pass"])
    passed = set()
    for tc in ET.parse(junit).iter("testcase"):
        if not list(tc):
            passed.add(f"{tc.get('classname')}::{tc.get('name')}")
    missing = sorted(base - passed)
finally:
    sh("git checkout -- sleap_nn")
ok = rc in (0, None) and not missing
print(json.dumps({"refactoring": f"{pid}-{tag}{n}", "equiv_rc": rc, "baseline_missing": missing[:5], "confirmed": ok, "equiv_tail": out[-300:]}, indent=1))
if not ok:
    sys.exit(1)
dst = os.path.join(HERE, "refactors", f"{pid}-{tag}{n}")
os.makedirs(dst, exist_ok=True)
shutil.copy(patch, os.path.join(dst, "patch.diff"))
if os.path.exists(equiv):
    shutil.copy(equiv, os.path.join(dst, "equiv.py"))
meta = {}
try:
    meta = json.load(open(os.path.join(sd, "meta.json")))
except Exception:
    pass
meta.update({"property": pid, "confirmed_by": f"tools/import_ref.py in a scratch worktree: with the patch applied equiv.py exit {rc} and all 112 baseline tests pass"})
json.dump(meta, open(os.path.join(dst, "meta.json"), "w"), indent=1)
