#!/venv/bin/python
"""Run every seeded change in /verif/seeded against the checks and write seeded/INDEX.md + results.json."""
import json
import os
import subprocess
import sys

HERE = os.path.dirname(os.path.dirname(os.path.abspath(__file__)))
rows = []
res = {}
only = sys.argv[1:]
prev = {}
try:
    prev = json.load(open(os.path.join(HERE, "seeded", "results.json")))
except Exception:
    pass
for d in sorted(os.listdir(os.path.join(HERE, "seeded"))):
    p = os.path.join(HERE, "seeded", d, "patch.diff")
    if not os.path.exists(p):
        continue
    if only and d not in only and d in prev:
        res[d] = prev[d]
        continue
    r = subprocess.run([os.path.join(HERE, "tools", "run_seed.py"), p], capture_output=True, text=True)
    verdict = r.stdout.strip().splitlines()[-1] if r.stdout.strip() else "ERROR " + r.stderr[-200:]
    try:
        fired = json.loads(r.stdout[: r.stdout.rindex("}") + 1])
    except Exception:
        fired = {}
    res[d] = {"verdict": verdict, "fired": {k: v["rules"] for k, v in fired.items() if v["exit"] == 1}, "inconclusive": [k for k, v in fired.items() if v["exit"] == 2]}
    print(d, res[d]["verdict"], res[d]["fired"], flush=True)
json.dump(res, open(os.path.join(HERE, "seeded", "results.json"), "w"), indent=1)
with open(os.path.join(HERE, "seeded", "INDEX.md"), "w") as f:
    f.write("# Seeded changes (produced by independent sub-agents, confirmed by hand)\n\n| seed | property | what the change does | needs | verdict | rules that reported it |\n|---|---|---|---|---|---|\n")
    for d, v in res.items():
        meta = {}
        try:
            meta = json.load(open(os.path.join(HERE, "seeded", d, "meta.json")))
        except Exception:
            pass
        rules = "; ".join(f"{k}: {', '.join(r)}" for k, r in v["fired"].items())
        f.write(f"| {d} | {meta.get('property', '')} | {str(meta.get('summary', '')).replace('|', '/')[:300]} | {str(meta.get('needs', '')).replace('|', '/')[:200]} | {v['verdict']} | {rules} |\n")
    n = len(res)
    det = sum(1 for v in res.values() if v["verdict"] == "DETECTED")
    f.write(f"\n{det} of {n} seeded changes are reported as VIOLATION by at least one check.\n")
