#!/venv/bin/python
"""Run every seeded change in /verif/seeded against all checks and write seeded/INDEX.md + results.json.

usage: tools/seed_index.py [id ...]
Each change is applied to a scratch copy of /repo/sleap_nn (removed afterwards) and the checks run with --repo on it,
12 changes in parallel.  (tools/run_seed.py applies one patch to /repo itself, as the task prescribes, for a single seed.)"""
import json
import os
import re
import shutil
import subprocess
import sys
import tempfile
from concurrent.futures import ThreadPoolExecutor

HERE = os.path.dirname(os.path.dirname(os.path.abspath(__file__)))
SD = os.path.join(HERE, "seeded")
PROPS = ["C%02d" % i for i in range(1, 21) if i != 16]
only = sys.argv[1:]
res = {}
try:
    res = json.load(open(os.path.join(SD, "results.json")))
except Exception:
    pass
st = subprocess.run(["git", "-C", "/repo", "status", "--porcelain", "--", "sleap_nn"], capture_output=True, text=True).stdout.strip()
if st:
    sys.exit(f"/repo/sleap_nn is not clean:\n{st}")
scratch = tempfile.mkdtemp(prefix="seedrun_")


def run(d):
    p = os.path.join(SD, d, "patch.diff")
    w = os.path.join(scratch, d)
    os.makedirs(w)
    shutil.copytree("/repo/sleap_nn", os.path.join(w, "sleap_nn"))
    r = subprocess.run(["git", "apply", p], cwd=w, capture_output=True, text=True)
    if r.returncode != 0:
        return d, {"verdict": "PATCH-DOES-NOT-APPLY", "fired": {}, "inconclusive": []}
    fired, inc = {}, []
    for c in PROPS:
        k = subprocess.run([os.path.join(HERE, "check"), c, "--no-evidence", "--repo", w], capture_output=True, text=True, cwd=HERE)
        if k.returncode == 1:
            fired[c] = sorted(set(re.findall(r"^  (C\d\d-[\w]+)", k.stdout, flags=re.M)))
        elif k.returncode != 0:
            inc.append(c)
    shutil.rmtree(w, ignore_errors=True)
    own = d.split("-")[0]
    verdict = "DETECTED" if fired else ("INCONCLUSIVE" if inc else "MISSED")
    return d, {"verdict": verdict, "fired": fired, "inconclusive": inc, "own_property": own in fired}


ids = [d for d in sorted(os.listdir(SD)) if os.path.exists(os.path.join(SD, d, "patch.diff")) and (not only or d in only)]
try:
    with ThreadPoolExecutor(12) as ex:
        for d, v in ex.map(run, ids):
            res[d] = v
            print(d, v["verdict"], "own" if v.get("own_property") else "other-only" if v["fired"] else "-", v["fired"], flush=True)
finally:
    shutil.rmtree(scratch, ignore_errors=True)
json.dump(res, open(os.path.join(SD, "results.json"), "w"), indent=1)
with open(os.path.join(SD, "INDEX.md"), "w") as f:
    f.write("# Seeded changes (produced by independent sub-agents, each confirmed with tools/import_seed.py)\n\n| seed | property | what the change does | needs | verdict | rules that reported it |\n|---|---|---|---|---|---|\n")
    for d, v in sorted(res.items()):
        meta = {}
        try:
            meta = json.load(open(os.path.join(SD, d, "meta.json")))
        except Exception:
            pass
        rules = "; ".join(f"{k}: {', '.join(r)}" for k, r in v["fired"].items())
        f.write(f"| {d} | {meta.get('property', '')} | {str(meta.get('summary', '')).replace('|', '/')[:300]} | {str(meta.get('needs', '')).replace('|', '/')[:200]} | {v['verdict']} | {rules} |\n")
    n = len(res)
    det = sum(1 for v in res.values() if v["verdict"] == "DETECTED")
    own = sum(1 for v in res.values() if v.get("own_property"))
    f.write(f"\n{det} of {n} seeded changes are reported as VIOLATION by at least one check; {own} by the check of the property they were written against.\n")
print(sum(1 for v in res.values() if v["verdict"] == "DETECTED"), "of", len(res), "detected;", sum(1 for v in res.values() if v.get("own_property")), "by own property")
