#!/venv/bin/python
"""Apply a behaviour-preserving refactoring to /repo, run every quick check, undo it.

usage: tools/run_ref.py <patch.diff> [Cnn ...]     Every check must exit 0: exit 1 is a false alarm, exit 2 a rule
that does not recognise an equivalent form.  Never commits anything to /repo.
"""
import json
import os
import re
import subprocess
import sys

HERE = os.path.dirname(os.path.dirname(os.path.abspath(__file__)))
patch = os.path.abspath(sys.argv[1])
props = sys.argv[2:] or ["C%02d" % i for i in range(1, 21) if i != 16]
st = subprocess.run(["git", "-C", "/repo", "status", "--porcelain", "--", "sleap_nn"], capture_output=True, text=True).stdout.strip()
if st:
    sys.exit(f"/repo/sleap_nn is not clean:\n{st}")
r = subprocess.run(["git", "-C", "/repo", "apply", patch], capture_output=True, text=True)
if r.returncode != 0:
    sys.exit(f"patch does not apply: {r.stderr}")
out = {}
try:
    for p in props:
        c = subprocess.run([os.path.join(HERE, "check"), p, "--no-evidence"], capture_output=True, text=True, cwd=HERE)
        if c.returncode != 0:
            lines = [l for l in c.stdout.splitlines() if re.match(r"^  C\d\d-|^ANALYSIS-", l)]
            out[p] = {"exit": c.returncode, "lines": [l[:260] for l in lines[:6]]}
finally:
    subprocess.run(["git", "-C", "/repo", "checkout", "--", "sleap_nn"], check=True)
print(json.dumps(out, indent=1))
print("QUIET" if not out else "ALARM")
