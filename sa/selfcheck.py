"""Engine unit tests on micro-programs (setup_cmd). No network, nothing installed, nothing executed
from sleap_nn.  Exit 0 if the engines behave as specified."""

import ast
import sys
import textwrap


def _cfg(src):
    from sa.core.cfg import CFG
    from sa.core.program import set_parents

    tree = ast.parse(textwrap.dedent(src))
    set_parents(tree)
    return CFG(tree.body[0]), tree.body[0]


def test_cfg_finally():
    cfg, fn = _cfg(
        """
        def f(q):
            try:
                for i in range(3):
                    q.put(i)
            except Exception as e:
                log(e)
            finally:
                q.put(None)
        """
    )
    sent = [n for n in ast.walk(fn) if isinstance(n, ast.Call) and ast.unparse(n) == "q.put(None)"]
    nodes = set(cfg.stmt_nodes_containing(sent[0]))
    assert len(nodes) >= 2, "finally must be duplicated (normal + exceptional copy)"
    assert cfg.must_pass([cfg.entry], [cfg.exit, cfg.raise_exit], nodes) is None


def test_cfg_no_finally():
    cfg, fn = _cfg(
        """
        def f(q):
            try:
                for i in range(3):
                    q.put(i)
            except ValueError as e:
                log(e)
            q.put(None)
        """
    )
    sent = [n for n in ast.walk(fn) if isinstance(n, ast.Call) and ast.unparse(n) == "q.put(None)"]
    nodes = set(cfg.stmt_nodes_containing(sent[0]))
    assert cfg.must_pass([cfg.entry], [cfg.raise_exit], nodes) is not None


def test_cfg_break_continue_return():
    cfg, fn = _cfg(
        """
        def f(xs):
            out = []
            for x in xs:
                if x:
                    continue
                try:
                    if x is None:
                        return out
                    out.append(x)
                finally:
                    cleanup()
            return out
        """
    )
    cl = [n for n in ast.walk(fn) if isinstance(n, ast.Call) and ast.unparse(n) == "cleanup()"]
    nodes = set(cfg.stmt_nodes_containing(cl[0]))
    app = [n for n in ast.walk(fn) if isinstance(n, ast.Call) and ast.unparse(n) == "out.append(x)"]
    # every path from the append to any exit runs cleanup
    assert cfg.must_pass(cfg.stmt_nodes_containing(app[0]), [cfg.exit, cfg.raise_exit], nodes) is None
    # the continue skips it
    assert cfg.must_pass([cfg.entry], [cfg.exit], nodes) is not None


def main():
    tests = [v for k, v in sorted(globals().items()) if k.startswith("test_")]
    # engine tests registered by engine modules
    try:
        from sa.engines import selfcheck_all

        tests += selfcheck_all()
    except ImportError:
        pass
    bad = 0
    for t in tests:
        try:
            t()
            print(f"ok   {t.__module__}.{t.__name__}")
        except Exception as e:  # noqa
            bad += 1
            print(f"FAIL {t.__module__}.{t.__name__}: {type(e).__name__}: {e}")
    print(f"{len(tests) - bad}/{len(tests)} engine self-checks passed")
    return 1 if bad else 0


if __name__ == "__main__":
    sys.exit(main())
