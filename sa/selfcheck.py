"""Engine unit tests on micro-programs (setup_cmd). No network, nothing installed, nothing executed
from sleap_nn.  Exit 0 if the engines behave as specified."""

import ast
import sys
import textwrap


def _cfg(src):
    from sa.core.cfg import CFG
    from sa.core.program import set_parents

    tree = ast.parse(textwrap.dedent(src))
    set_parents(tree)
    return CFG(tree.body[0]), tree.body[0]


def test_cfg_finally():
    cfg, fn = _cfg(
        """
        def f(q):
            try:
                for i in range(3):
                    q.put(i)
            except Exception as e:
                log(e)
            finally:
                q.put(None)
        """
    )
    sent = [n for n in ast.walk(fn) if isinstance(n, ast.Call) and ast.unparse(n) == "q.put(None)"]
    nodes = set(cfg.stmt_nodes_containing(sent[0]))
    assert len(nodes) >= 2, "finally must be duplicated (normal + exceptional copy)"
    assert cfg.must_pass([cfg.entry], [cfg.exit, cfg.raise_exit], nodes) is None


def test_cfg_no_finally():
    cfg, fn = _cfg(
        """
        def f(q):
            try:
                for i in range(3):
                    q.put(i)
            except ValueError as e:
                log(e)
            q.put(None)
        """
    )
    sent = [n for n in ast.walk(fn) if isinstance(n, ast.Call) and ast.unparse(n) == "q.put(None)"]
    nodes = set(cfg.stmt_nodes_containing(sent[0]))
    assert cfg.must_pass([cfg.entry], [cfg.raise_exit], nodes) is not None


def test_cfg_break_continue_return():
    cfg, fn = _cfg(
        """
        def f(xs):
            out = []
            for x in xs:
                if x:
                    continue
                try:
                    if x is None:
                        return out
                    out.append(x)
                finally:
                    cleanup()
            return out
        """
    )
    cl = [n for n in ast.walk(fn) if isinstance(n, ast.Call) and ast.unparse(n) == "cleanup()"]
    nodes = set(cfg.stmt_nodes_containing(cl[0]))
    app = [n for n in ast.walk(fn) if isinstance(n, ast.Call) and ast.unparse(n) == "out.append(x)"]
    # every path from the append to any exit runs cleanup
    assert cfg.must_pass(cfg.stmt_nodes_containing(app[0]), [cfg.exit, cfg.raise_exit], nodes) is None
    # the continue skips it
    assert cfg.must_pass([cfg.entry], [cfg.exit], nodes) is not None



def _fn(src, normalise=True):
    from sa.core.program import set_parents, _UnpackLiteralGen, _SplatLiterals

    tree = ast.parse(textwrap.dedent(src))
    if normalise:
        tree = _SplatLiterals().visit(_UnpackLiteralGen().visit(tree))
    set_parents(tree)
    return tree.body[0]


def test_norm_unpack_literal_gen():
    fn = _fn(
        """
        def f(w, h, s):
            xv, yv = (arange(0, n, step=s) for n in (w, h))
            return xv, yv
        """
    )
    from sa.core import astq

    assert astq.xnorm(fn, fn.body[-1].value) == "(arange(0, w, step=s), arange(0, h, step=s))", astq.xnorm(fn, fn.body[-1].value)


def test_norm_splat_literals():
    fn = _fn(
        """
        def f(a, b, cfg):
            shared = (a, b)
            kw = {"k": cfg.k}
            return g(1, *shared, **kw)
        """
    )
    assert ast.unparse(fn.body[-1].value) == "g(1, a, b, k=cfg.k)", ast.unparse(fn.body[-1].value)
    # a pack whose operand is re-bound, or that is mutated, is left alone
    fn = _fn(
        """
        def f(a, b):
            shared = (a, b)
            a = a + 1
            return g(*shared)
        """
    )
    assert ast.unparse(fn.body[-1].value) == "g(*shared)"
    fn = _fn(
        """
        def f(a):
            kw = {"k": a}
            kw.update(z=1)
            return g(**kw)
        """
    )
    assert ast.unparse(fn.body[-1].value) == "g(**kw)"


def test_expand_unrolls_literal_comprehension_and_flattens_subscripts():
    from sa.core import astq

    fn = _fn(
        """
        def f(x, y, hw, hh, b):
            left = x - hw
            top = y - hh
            table = [(left, top), (x + hw, top)]
            first = b[0]
            h = first[3][1] - first[0, 1]
            return stack([stack(e, dim=-1) for e in table], dim=-2), h
        """
    )
    rv = fn.body[-1].value
    assert astq.xnorm(fn, rv.elts[0]) == "stack([stack((x - hw, y - hh), dim=-1), stack((x + hw, y - hh), dim=-1)], dim=-2)", astq.xnorm(fn, rv.elts[0])
    assert astq.xnorm(fn, rv.elts[1]) == "b[0, 3, 1] - b[0, 0, 1]", astq.xnorm(fn, rv.elts[1])


def test_loop_elems_reshape_length():
    from sa.core import astq

    fn = _fn(
        """
        def f(pb, s, n, k):
            total = s * n
            pts = pb.reshape(total, k, 2)
            for i in range(total):
                use(pts[i : i + 1])
        """
    )
    lp = fn.body[-1]
    le = astq.loop_elems(lp, fn)
    assert le is not None and ast.unparse(le.seq) == "pts" and le.index == "i"
    assert le.is_elem(lp.body[0].value.args[0])
    # a shorter range is not the whole sequence
    fn = _fn(
        """
        def f(pb, s, n, k):
            pts = pb.reshape(s * n, k, 2)
            for i in range(s):
                use(pts[i : i + 1])
        """
    )
    assert astq.loop_elems(fn.body[-1], fn) is None


def test_unroll_for_break_else_and_dict_builds():
    from sa.core import astq

    fn = _fn(
        """
        def f(name, cfg, out):
            table = (("unet", U), ("swint", S))
            for fam, cls in table:
                if name.startswith(fam):
                    setattr(cfg, fam, cls())
                    break
            else:
                raise ValueError(name)
            return {h.name: layer(h) for h, layer in zip(out.heads, out.layers)}
        """
    )
    un = astq.unroll_literal_loops(fn)
    txt = ast.unparse(un)
    assert "cfg.unet = U()" in txt and "elif name.startswith('swint')" in txt and txt.count("raise ValueError") == 1, txt
    b = astq.dict_builds(fn, fn.body[-1].value)
    assert len(b) == 1 and ast.unparse(b[0].key) == "h.name" and ast.unparse(b[0].gen.iter) == "zip(out.heads, out.layers)"

def test_path_returns_and_reshape_axis_names():
    """core.astq.path_returns over guard clauses; props._reshape axis-name table (positive example for a rule whose expected
    number of findings on the repository is zero)."""
    from sa.core import astq
    from sa.core.program import norm
    from sa.props import _reshape

    f = _fn("""
    def f(image, pts, scale=1.0):
        if scale == 1.0:
            return image, pts
        h, w = image.shape[-2:]
        out = resize(image, size=[int(h * scale), int(w * scale)])
        return out, pts * scale
    """, normalise=False)
    pr = astq.path_returns(f)
    assert pr is not None and len(pr) == 2, pr
    (c0, v0), (c1, v1) = pr
    assert c0[0][1] is True and norm(v0) == "(image, pts)", norm(v0)
    assert c1[0][1] is False and "image.shape[-2:][0] * scale" in norm(v1) and norm(v1).endswith("pts * scale)"), norm(v1)
    g = _fn("""
    def g(points, xv, yv):
        samples, n_inst, n_nodes, _ = points.shape
        flat = points.reshape(samples, n_inst * n_nodes, 2)
        cms = make(flat, xv, yv)
        return cms.reshape(samples, n_nodes, n_inst, len(yv), len(xv)).amax(dim=2)
    """, normalise=False)
    ax = _reshape._axis_names(g)
    assert ax["n_inst"] == ("points", 1) and ax["n_nodes"] == ("points", 2), ax
    calls = [c for c in ast.walk(g) if isinstance(c, ast.Call) and _reshape._shape_args(c)]
    assert len(calls) == 2
    dims = [[norm(d) for d in _reshape._shape_args(c)] for c in calls]
    assert ["samples", "n_inst * n_nodes", "2"] in dims and any(d[1:3] == ["n_nodes", "n_inst"] for d in dims), dims


def main():
    tests = [v for k, v in sorted(globals().items()) if k.startswith("test_")]
    # engine tests registered by engine modules
    try:
        from sa.engines import selfcheck_all

        tests += selfcheck_all()
    except ImportError:
        pass
    bad = 0
    for t in tests:
        try:
            t()
            print(f"ok   {t.__module__}.{t.__name__}")
        except Exception as e:  # noqa
            bad += 1
            print(f"FAIL {t.__module__}.{t.__name__}: {type(e).__name__}: {e}")
    print(f"{len(tests) - bad}/{len(tests)} engine self-checks passed")
    return 1 if bad else 0


if __name__ == "__main__":
    sys.exit(main())
