"""C20 — config builders reflect every argument; list-valued augmentations commute;
validators and oneof unions are in place.  (E5 schema engine.)"""

from __future__ import annotations

import ast
from typing import Dict, List, Optional, Set, Tuple

from ..core import astq
from ..core.program import AnalysisError, FunctionInfo, Program, ancestors, norm, short, walk_function
from ..engines.schema import Schema
from ..report import Result
from ..runner import Variant

PROP = "C20"
EXPLANATION = (
    "Schema-directed wiring analysis of the programmatic builders in sleap_nn/train.py: (fwd) train() forwards each "
    "of its parameters, by its own name, to exactly one builder; (wire) the construction tree returned by each builder "
    "is extracted (constructor calls, locals bound to constructors, helper calls) and compared with the documented "
    "parameter->config-path table: every parameter reaches its path unmodified, no keyword is undeclared in the attrs "
    "class it is passed to, nested objects have the declared field type; (comm) in every `for name in list` dispatch of "
    "get_aug_config the branches' assignments commute pairwise and the branch for a name leaves its own fields "
    "non-neutral given the values at loop entry; (preset/key) string presets and dict keys select the attribute and "
    "class of the same name; (valid) every *_p field carries validate_proportion, whose rejecting region is exactly "
    "the complement of [0,1]; scale/model_type/optimizer/devices/min_lr validators raise; HeadConfig and "
    "BackboneConfig are wrapped by oneof, whose __init__ wrapper raises when more than one attribute is set."
)
TRUSTED = ["CPython ast", "attrs runs field validators in __init__ (library contract)", "the documented parameter->field table frozen in this module"]

TRAIN = "sleap_nn.train"

# documented place of each builder argument: path inside the object the builder returns,
# or ('call', helper, keyword) when the argument is handed to a helper builder.
DATA = {
    **{p: [p] for p in ["train_labels_path", "val_labels_path", "test_file_path", "provider", "user_instances_only",
                        "data_pipeline_fw", "np_chunks_path", "litdata_chunks_path", "use_existing_chunks", "chunk_size",
                        "delete_chunks_after_training", "use_augmentations_train"]},
    **{p: [f"preprocessing.{p}"] for p in ["is_rgb", "scale", "max_height", "max_width", "crop_hw", "min_crop_size"]},
    "intensity_aug": [("augmentation_config", "get_aug_config", "intensity_aug")],
    "geometry_aug": [("augmentation_config", "get_aug_config", "geometric_aug")],
}
MODEL = {
    "init_weight": ["init_weights"],
    "pre_trained_weights": ["pre_trained_weights"],
    "pretrained_backbone_weights": ["pretrained_backbone_weights"],
    "pretrained_head_weights": ["pretrained_head_weights"],
    "backbone_config": [("backbone_config", "get_backbone_config", "backbone_cfg")],
    "head_configs": [("head_configs", "get_head_configs", "head_cfg")],
}
TRAINER = {
    "batch_size": ["train_data_loader.batch_size", "val_data_loader.batch_size"],
    "shuffle_train": ["train_data_loader.shuffle"],
    "num_workers": ["train_data_loader.num_workers", "val_data_loader.num_workers"],
    "ckpt_save_top_k": ["model_ckpt.save_top_k"],
    "ckpt_save_last": ["model_ckpt.save_last"],
    "trainer_num_devices": ["trainer_devices"],
    **{p: [p] for p in ["trainer_accelerator", "enable_progress_bar", "steps_per_epoch", "max_epochs", "seed", "use_wandb",
                        "save_ckpt", "save_ckpt_path", "resume_ckpt_path"]},
    "wandb_entity": ["wandb.entity"],
    "wandb_project": ["wandb.project"],
    "wandb_name": ["wandb.name"],
    "wandb_api_key": ["wandb.api_key"],
    "wandb_mode": ["wandb.wandb_mode"],
    "wandb_resume_prv_runid": ["wandb.prv_runid"],
    "wandb_group_name": ["wandb.group"],
    "optimizer": ["optimizer_name"],
    "learning_rate": ["optimizer.lr"],
    "amsgrad": ["optimizer.amsgrad"],
    "lr_scheduler": ["lr_scheduler"],  # special: dispatch on the argument, see check_lr_scheduler
    "early_stopping": ["early_stopping.stop_training_on_plateau"],
    "early_stopping_min_delta": ["early_stopping.min_delta"],
    "early_stopping_patience": ["early_stopping.patience"],
}
BUILDERS = {
    "get_data_config": ("DataConfig", DATA),
    "get_model_config": ("ModelConfig", MODEL),
    "get_trainer_config": ("TrainerConfig", TRAINER),
}
# own fields of each augmentation name (what "enabled" means for that name)
AUG_OWN = {
    "uniform_noise": ["uniform_noise_p"],
    "gaussian_noise": ["gaussian_noise_p"],
    "contrast": ["contrast_p"],
    "brightness": ["brightness_p"],
    "rotation": ["affine_p", "rotation"],
    "scale": ["affine_p", "scale"],
    "translate": ["affine_p", "translate_height", "translate_width"],
    "erase_scale": ["erase_p"],
    "mixup": ["mixup_p"],
}


def _is_neutral(v: Optional[ast.AST]) -> Optional[bool]:
    """Is the constant `v` a value that disables an augmentation (0, None, (1.0, 1.0))?"""
    if v is None:
        return None
    try:
        val = ast.literal_eval(v)
    except Exception:
        return None
    if val is None or val == 0:
        return True
    if isinstance(val, (tuple, list)) and len(val) > 0 and all(x == 1 for x in val):
        return True
    return False


# ------------------------------------------------------------------ fwd
def check_fwd(prog: Program, res: Result) -> None:
    fi = prog.func(f"{TRAIN}:train")
    res.touch(fi)
    reassigned = {n for p in fi.params for n in [p] if astq.assignments_to(fi.node, p)}
    used: Dict[str, List[str]] = {}
    for bname in BUILDERS:
        callee = prog.func(f"{TRAIN}:{bname}")
        calls = [c for c, q in prog.calls_in(fi) if q == callee.qualname]
        res.ob("C20-fwd", len(calls) == 1, fi.qualname, f"one call of {bname}", f"{len(calls)} calls of {bname} in train()", fi.where)
        if len(calls) != 1:
            continue
        call = calls[0]
        if call.args:
            res.ob("C20-fwd", False, fi.qualname, f"{bname} called with keywords only",
                   f"{bname} is called with positional arguments", f"{fi.module.relpath}:{call.lineno}")
        kws = {k.arg: k.value for k in call.keywords if k.arg is not None}
        for p in callee.params:
            v = kws.get(p)
            ok = v is not None and isinstance(v, ast.Name) and v.id == p and p in fi.params and p not in reassigned
            msg = (f"argument `{p}` of train() is not forwarded to {bname} (the builder default is used instead)" if v is None
                   else f"{bname}({p}=...) receives `{short(v, 40)}` instead of train()'s own `{p}`")
            res.ob("C20-fwd", ok, fi.qualname, f"{bname}({p}={p})", msg, f"{fi.module.relpath}:{call.lineno}")
            if isinstance(v, ast.Name):
                used.setdefault(v.id, []).append(bname)
        for k in kws:
            if k not in callee.params:
                res.ob("C20-fwd", False, fi.qualname, f"{bname}({k}=...)", f"{bname} has no parameter `{k}`", f"{fi.module.relpath}:{call.lineno}")
    for p in fi.params:
        res.ob("C20-fwd", len(used.get(p, [])) == 1, fi.qualname, f"train({p}) forwarded once",
               f"parameter `{p}` of train() is forwarded to {len(used.get(p, []))} builders", fi.where)
    res.floor("C20-fwd", 100)


# ----------------------------------------------------------------- wire
class Tree:
    """Construction tree of a builder result: path -> list of leaf expressions."""

    def __init__(self, prog: Program, sch: Schema, fi: FunctionInfo, res: Result):
        self.prog, self.sch, self.fi, self.res = prog, sch, fi, res
        self.leaves: Dict[str, List[ast.AST]] = {}
        self.helper_calls: Dict[str, List[ast.Call]] = {}
        self.ctor_sites = 0

    def class_of_call(self, call: ast.Call) -> Optional[str]:
        q = self.prog.resolve_call(self.fi, call)
        name = q.split(":")[-1] if ":" in q else q.split(".")[-1]
        return name if name in self.sch.classes and q.startswith("sleap_nn.config") else None

    def values_of(self, e: ast.AST) -> List[ast.AST]:
        """Possible defining expressions of a local name (all its assignments)."""
        if isinstance(e, ast.Name):
            defs = [st for st in astq.assignments_to(self.fi.node, e.id) if isinstance(st, ast.Assign)]
            if defs:
                out = []
                for d in defs:
                    out += self.values_of(d.value) if isinstance(d.value, ast.IfExp) else [d.value]
                return out
        if isinstance(e, ast.IfExp):   # a if cond else b: either value may be stored
            return self.values_of(e.body) + self.values_of(e.orelse)
        return [e]

    def _kwargs_of(self, call: ast.Call) -> List[ast.keyword]:
        """The keyword arguments of a constructor call, with `**d` written out when d is a dict built in this builder from
        a literal and constant-key item assignments."""
        out: List[ast.keyword] = []
        for k in call.keywords:
            if k.arg is None and isinstance(k.value, ast.Name):
                lits = [st for st in astq.assignments_to(self.fi.node, k.value.id) if isinstance(st, ast.Assign)]
                items = [st for st in walk_function(self.fi.node) if isinstance(st, ast.Assign) and len(st.targets) == 1 and isinstance(st.targets[0], ast.Subscript)
                         and isinstance(st.targets[0].value, ast.Name) and st.targets[0].value.id == k.value.id]
                if len(lits) == 1 and isinstance(lits[0].value, ast.Dict) and all(isinstance(x, ast.Constant) and isinstance(x.value, str) for x in lits[0].value.keys) \
                        and all(isinstance(st.targets[0].slice, ast.Constant) and isinstance(st.targets[0].slice.value, str) for st in items):
                    out += [ast.keyword(arg=kk.value, value=vv) for kk, vv in zip(lits[0].value.keys, lits[0].value.values)]
                    out += [ast.keyword(arg=st.targets[0].slice.value, value=st.value) for st in items]
                    continue
            out.append(k)
        return out

    def expand(self, e: ast.AST, prefix: str, expect_types: Optional[List[str]], where: ast.AST) -> None:
        for v in self.values_of(e):
            if isinstance(v, ast.Call):
                cls = self.class_of_call(v)
                if cls is not None:
                    self.ctor_sites += 1
                    if expect_types is not None:
                        self.res.ob("C20-wire", cls in expect_types, self.fi.qualname, f"{prefix or '<result>'} : {cls}",
                                    f"`{prefix}` is declared as {'/'.join(expect_types)} but is built as {cls}",
                                    f"{self.fi.module.relpath}:{v.lineno}")
                    if v.args:
                        self.res.ob("C20-wire", False, self.fi.qualname, f"{cls}(...) keywords only",
                                    f"{cls} is constructed with positional arguments", f"{self.fi.module.relpath}:{v.lineno}")
                    fields = self.sch.fields_of(cls)
                    for k in self._kwargs_of(v):
                        if k.arg is None:
                            self.leaves.setdefault(prefix + ("." if prefix else "") + "**", []).append(k.value)
                            continue
                        ok = k.arg in fields
                        self.res.ob("C20-wire", ok, self.fi.qualname, f"{cls}({k.arg}=...) is a declared field",
                                    f"{cls} declares no field `{k.arg}` (TypeError at construction)", f"{self.fi.module.relpath}:{k.value.lineno}")
                        if not ok:
                            continue
                        f = fields[k.arg]
                        sub = f"{prefix}.{k.arg}" if prefix else k.arg
                        self.expand(k.value, sub, f.types or None, k.value)
                    # attributes set after construction: x = Cls(); x.attr = value
                    continue
                q = self.prog.resolve_call(self.fi, v)
                if q.startswith(TRAIN + ":"):
                    self.helper_calls.setdefault(prefix, []).append(v)
                    self.leaves.setdefault(prefix, []).append(v)
                    continue
            self.leaves.setdefault(prefix, []).append(v)


def check_wire(prog: Program, res: Result, sch: Schema) -> None:
    for bname, (root_cls, table) in BUILDERS.items():
        fi = prog.func(f"{TRAIN}:{bname}")
        res.touch(fi)
        rets = [n for n in walk_function(fi.node) if isinstance(n, ast.Return) and n.value is not None]
        if len(rets) != 1:
            res.inconclusive(f"{fi.qualname}: {len(rets)} return statements")
            continue
        t = Tree(prog, sch, fi, res)
        t.expand(rets[0].value, "", [root_cls], rets[0])
        # later attribute stores on locals (lr_scheduler_cfg.step_lr = StepLRConfig()) are handled separately
        for p in fi.params:
            want = table.get(p)
            if want is None:
                res.ob("C20-wire", False, fi.qualname, f"parameter {p} has a documented place",
                       f"builder parameter `{p}` has no entry in the documented parameter->field table (new argument: extend the table)", fi.where)
                continue
            assigned = astq.assignments_to(fi.node, p)
            for w in want:
                if isinstance(w, tuple):
                    path, helper, kw = w
                    calls = [c for c in t.helper_calls.get(path, []) if prog.resolve_call(fi, c) == f"{TRAIN}:{helper}"]
                    # a reassignment `x = helper(kw=x)` is the documented idiom for backbone/head configs
                    ok = False
                    got = "no call"
                    for c in calls:
                        v = {k.arg: k.value for k in c.keywords}.get(kw)
                        got = short(v, 40) if v is not None else "keyword missing"
                        if isinstance(v, ast.Name) and v.id == p:
                            ok = True
                    res.ob("C20-wire", ok, fi.qualname, f"{p} -> {helper}({kw}=) -> {path}",
                           f"argument `{p}` does not reach `{path}` through {helper}({kw}=...): {got}", fi.where,
                           sample={"param": p, "path": path, "via": helper})
                    continue
                if p == "lr_scheduler":
                    continue
                leaves = t.leaves.get(w, [])
                ok = len(leaves) >= 1 and all(isinstance(v, ast.Name) and v.id == p for v in leaves) and not assigned
                got = ", ".join(short(v, 40) for v in leaves) or "nothing (schema default)"
                res.ob("C20-wire", ok, fi.qualname, f"{p} -> {w}",
                       f"argument `{p}` should be stored unmodified at `{w}` but that field receives: {got}"
                       + ("; the parameter is reassigned in the builder" if assigned else ""), fi.where,
                       sample={"param": p, "path": w})
        # no parameter lands at an undocumented place
        docd: Dict[str, Set[str]] = {}
        for p, ws in table.items():
            for w in ws:
                if isinstance(w, str):
                    docd.setdefault(w, set()).add(p)
        for path, leaves in t.leaves.items():
            for v in leaves:
                if isinstance(v, ast.Name) and v.id in fi.params:
                    res.ob("C20-wire", v.id in docd.get(path, set()), fi.qualname, f"{path} <- {v.id}",
                           f"field `{path}` receives argument `{v.id}`, whose documented place is {table.get(v.id)}", fi.where)
        res.extra.setdefault("construction_trees", {})[bname] = {k: [short(v, 40) for v in vs] for k, vs in sorted(t.leaves.items())}
    res.floor("C20-wire", 110)
    check_val_loader(prog, res)
    check_lr_scheduler(prog, res, sch)
    check_aug_guard(prog, res)


def check_val_loader(prog: Program, res: Result) -> None:
    """The validation loader never shuffles."""
    fi = prog.func(f"{TRAIN}:get_trainer_config")
    for st in astq.assignments_to(fi.node, "val_dataloader_cfg"):
        if isinstance(st, ast.Assign) and isinstance(st.value, ast.Call):
            kw = {k.arg: k.value for k in st.value.keywords}
            v = kw.get("shuffle")
            res.ob("C20-wire", isinstance(v, ast.Constant) and v.value is False, fi.qualname, "val_data_loader.shuffle = False",
                   f"the validation loader's shuffle is {short(v, 30) if v is not None else 'the schema default'}, not the constant False",
                   f"{fi.module.relpath}:{st.lineno}")


def check_lr_scheduler(prog: Program, res: Result, sch: Schema) -> None:
    fi = prog.func(f"{TRAIN}:get_trainer_config")
    # every `X.attr = Cls(...)` on a config-typed local: attr is a declared field and Cls its declared type
    n = 0
    for fname in ("get_trainer_config", "get_backbone_config", "get_head_configs", "get_aug_config"):
        f2 = prog.func(f"{TRAIN}:{fname}")
        res.touch(f2)
        local_cls: Dict[str, str] = {}
        for st in walk_function(f2.node):
            if isinstance(st, ast.Assign) and len(st.targets) == 1 and isinstance(st.targets[0], ast.Name) and isinstance(st.value, ast.Call):
                q = prog.resolve_call(f2, st.value)
                cname = q.split(":")[-1]
                if q.startswith("sleap_nn.config") and cname in sch.classes:
                    local_cls[st.targets[0].id] = cname
        for st in walk_function(f2.node):
            if not (isinstance(st, ast.Assign) and len(st.targets) == 1 and isinstance(st.targets[0], ast.Attribute)):
                continue
            chain = []
            cur = st.targets[0]
            while isinstance(cur, ast.Attribute):
                chain.append(cur.attr)
                cur = cur.value
            if not (isinstance(cur, ast.Name) and cur.id in local_cls):
                continue
            chain.reverse()
            cls = local_cls[cur.id]
            status, why = sch.resolve(chain, root=cls)
            n += 1
            res.ob("C20-attr", status != "missing", f2.qualname, f"{cur.id}.{'.'.join(chain)} is a declared field of {cls}",
                   f"`{norm(st.targets[0])}` assigns a field that {cls} does not declare ({why}); attrs `define` classes use slots: AttributeError",
                   f"{f2.module.relpath}:{st.lineno}")
            if isinstance(st.value, ast.Call):
                q = prog.resolve_call(f2, st.value)
                vcls = q.split(":")[-1]
                if q.startswith("sleap_nn.config") and vcls in sch.classes and len(chain) == 1:
                    fld = sch.fields_of(cls).get(chain[0])
                    if fld is not None and fld.types:
                        exp = fld.types[0]
                        same_family = vcls == exp or (vcls.lower().replace("config", "").startswith(exp.lower().replace("config", "")))
                        res.ob("C20-attr", same_family, f2.qualname, f"{cur.id}.{chain[0]} = {vcls}(...) matches declared {exp}",
                               f"`{cur.id}.{chain[0]}` is declared as {exp} but receives a {vcls}", f"{f2.module.relpath}:{st.lineno}")
    res.floor("C20-attr", 25)
    # the lr_scheduler argument selects the scheduler of the same name
    for st in walk_function(fi.node):
        if isinstance(st, ast.If) and isinstance(st.test, ast.Compare) and len(st.test.ops) == 1 and isinstance(st.test.ops[0], ast.Eq):
            l, r = st.test.left, st.test.comparators[0]
            if isinstance(r, ast.Constant) and isinstance(r.value, str) and isinstance(l, ast.Name) and l.id in ("lr_scheduler", "k"):
                key = r.value
                for b in st.body:
                    if isinstance(b, ast.Assign) and isinstance(b.targets[0], ast.Attribute):
                        res.ob("C20-key", b.targets[0].attr == key, fi.qualname, f"'{key}' selects .{b.targets[0].attr}",
                               f"the scheduler name '{key}' configures `.{b.targets[0].attr}`", f"{fi.module.relpath}:{b.lineno}")


def check_aug_guard(prog: Program, res: Result) -> None:
    fi = prog.func(f"{TRAIN}:get_data_config")
    calls = [c for c, q in prog.calls_in(fi) if q == f"{TRAIN}:get_aug_config"]
    for c in calls:
        guards = [a for a in ancestors(c) if isinstance(a, (ast.If, ast.IfExp))]
        in_true_arm = lambda g: astq.in_body_of(c, g, "body") if isinstance(g, ast.If) else any(x is c for x in ast.walk(g.body))
        ok = len(guards) == 1 and isinstance(guards[0].test, ast.Name) and guards[0].test.id == "use_augmentations_train" and in_true_arm(guards[0])
        res.ob("C20-wire", ok, fi.qualname, "augmentation config built iff use_augmentations_train",
               "the augmentation configuration is not built under `if use_augmentations_train:`", f"{fi.module.relpath}:{c.lineno}")


# ------------------------------------------------------------ presets / keys
def check_presets(prog: Program, res: Result, sch: Schema) -> None:
    fi = prog.func(f"{TRAIN}:get_backbone_config")
    res.touch(fi)
    fnode = astq.unroll_literal_loops(fi.node)  # data-driven spellings (loops over literal tables, setattr) are unrolled first
    holder = sch.classes.get("BackboneConfig", {})
    # every `<name>.startswith('<family>')` branch stores <mapper>[<name>] in the field of that family
    fams = {}
    for st in walk_function(fnode):
        if isinstance(st, ast.If) and isinstance(st.test, ast.Call) and isinstance(st.test.func, ast.Attribute) and st.test.func.attr == "startswith":
            fam = st.test.args[0].value if st.test.args and isinstance(st.test.args[0], ast.Constant) else None
            recv = norm(st.test.func.value)
            for b in st.body:
                if isinstance(b, ast.Assign) and isinstance(b.targets[0], ast.Attribute):
                    v = b.value
                    mapper = None
                    called = isinstance(v, ast.Call) and not v.args and not v.keywords and isinstance(v.func, ast.Subscript)
                    if called:
                        v = v.func            # TABLE[name]() with a table of CLASSES builds what a table of instances holds
                    if isinstance(v, ast.Subscript) and norm(v.slice) == recv:
                        mapper = v.value if isinstance(v.value, ast.Dict) else (astq._single_defs(fnode).get(v.value.id) if isinstance(v.value, ast.Name) else None)
                    if called and isinstance(mapper, ast.Dict):
                        mapper = ast.copy_location(ast.Dict(keys=list(mapper.keys), values=[ast.copy_location(ast.Call(func=x, args=[], keywords=[]), x) for x in mapper.values]), mapper)
                    ok = b.targets[0].attr == fam and isinstance(mapper, ast.Dict)
                    res.ob("C20-preset", ok, fi.qualname, f"'{fam}*' -> backbone_config.{b.targets[0].attr} from the {fam} preset table",
                           f"names starting with '{fam}' set `.{b.targets[0].attr}` from `{short(b.value, 40)}`", f"{fi.module.relpath}:{b.lineno}")
                    if ok:
                        fams[fam] = mapper
    for fam, d in fams.items():
        declared = holder[fam].types if fam in holder else []
        for k, v in zip(d.keys, d.values):
            if not (isinstance(k, ast.Constant) and isinstance(v, ast.Call)):
                continue
            cls = norm(v.func).split(".")[-1]
            base = cls.lower().replace("config", "")
            key = k.value.replace("_", "")
            ok = base == key or base + "tiny" == key
            res.ob("C20-preset", ok and cls in sch.classes and k.value.startswith(fam), fi.qualname, f"preset '{k.value}' -> {cls}",
                   f"backbone preset '{k.value}' builds a {cls}", f"{fi.module.relpath}:{k.lineno}")
            # the preset object must be assignable to the declared type of the field it is stored in: OmegaConf.structured()
            # (TrainingJobConfig.to_sleap_nn_cfg) rejects a value whose class is not the declared class or a subclass of it
            ci = sch.class_info.get(cls)
            anc = [c.name for c in prog.mro(ci)] if ci is not None else []
            ok = any(a in declared for a in anc)
            res.ob("C20-assign", ok, fi.qualname, f"preset '{k.value}': {cls} is assignable to BackboneConfig.{fam}: {declared}",
                   f"preset '{k.value}' stores a {cls} in BackboneConfig.{fam}, declared Optional[{', '.join(declared)}]; {cls} is not that class nor a subclass of it, "
                   "so converting the built configuration to its structured form (to_sleap_nn_cfg) raises ValidationError: the builder's result is unusable for this preset",
                   f"{fi.module.relpath}:{k.lineno}", sample={"class": cls, "mro": anc, "declared": declared})
    res.ob("C20-preset", set(fams) == {"unet", "convnext", "swint"}, fi.qualname, "all three backbone families have a preset branch", f"preset branches exist for {sorted(fams)}", fi.where)
    res.floor("C20-assign", 12)
    res.floor("C20-preset", 15)
    # dict / string keys: '<key>' in cfg  /  cfg == '<key>'  ->  .<key> = <declared class>(**cfg['<key>'] ...)
    for fname, holder in (("get_backbone_config", "BackboneConfig"), ("get_head_configs", "HeadConfig")):
        f2 = prog.func(f"{TRAIN}:{fname}")
        res.touch(f2)
        fields = sch.fields_of(holder)
        for st in walk_function(astq.unroll_literal_loops(f2.node)):
            if not isinstance(st, ast.If):
                continue
            keys = {n.value for n in ast.walk(st.test) if isinstance(n, ast.Constant) and isinstance(n.value, str)}
            keys &= set(fields)
            if len(keys) != 1:
                continue
            key = next(iter(keys))
            for b in st.body:
                if not (isinstance(b, ast.Assign) and isinstance(b.targets[0], ast.Attribute)):
                    continue
                attr = b.targets[0].attr
                res.ob("C20-key", attr == key, f2.qualname, f"key '{key}' sets .{attr}",
                       f"the branch for '{key}' assigns `.{attr}`", f"{f2.module.relpath}:{b.lineno}")
                if isinstance(b.value, ast.Call) and isinstance(b.value.func, (ast.Name, ast.Attribute)):   # a class is instantiated by name (preset tables: C20-preset)
                    cls = norm(b.value.func).split(".")[-1]
                    exp = fields[key].types
                    res.ob("C20-key", cls in exp, f2.qualname, f"key '{key}' builds {cls}",
                           f"the branch for '{key}' builds a {cls}; the field is declared as {exp}", f"{f2.module.relpath}:{b.lineno}")
                    # nested: confmaps=X(**cfg[key]["confmaps"])
                    sub_fields = sch.fields_of(cls) if cls in sch.classes else {}
                    for k in b.value.keywords:
                        if k.arg is None:
                            used = {n.value for n in ast.walk(k.value) if isinstance(n, ast.Constant) and isinstance(n.value, str)}
                            res.ob("C20-key", used == {key}, f2.qualname, f"{cls}(**cfg['{key}'])",
                                   f"{cls} for '{key}' is filled from cfg{sorted(used)}", f"{f2.module.relpath}:{b.lineno}")
                            continue
                        if k.arg in sub_fields and isinstance(k.value, ast.Call):
                            scls = norm(k.value.func).split(".")[-1]
                            res.ob("C20-key", scls in sub_fields[k.arg].types, f2.qualname, f"{cls}.{k.arg} = {scls}",
                                   f"`{cls}.{k.arg}` is declared as {sub_fields[k.arg].types} but built as {scls}", f"{f2.module.relpath}:{b.lineno}")
                            for kk in k.value.keywords:
                                if kk.arg is None:
                                    from ..core.program import attr_chain
                                    used = (attr_chain(kk.value) or ["?"])[1:]
                                    res.ob("C20-key", used == [key, k.arg], f2.qualname, f"{scls}(**cfg['{key}']['{k.arg}'])",
                                           f"{scls} for {key}.{k.arg} is filled from cfg{used}", f"{f2.module.relpath}:{b.lineno}")
    res.floor("C20-key", 30)


# ------------------------------------------------------------------ comm
def _dict_literal_named(fi, name: str) -> Optional[ast.Dict]:
    """A dict literal bound once to `name` in the function or at module level."""
    for scope in (fi.node, fi.module.tree):
        defs = [s_ for s_ in (walk_function(scope) if scope is fi.node else scope.body) if isinstance(s_, ast.Assign) and len(s_.targets) == 1 and norm(s_.targets[0]) == name]
        if len(defs) == 1 and isinstance(defs[0].value, ast.Dict):
            return defs[0].value
    return None


def _table_branches(loop: ast.For, fi) -> List[Tuple[str, List[ast.stmt]]]:
    """Table dispatch:  fld = TABLE.get(name) / TABLE[name] ; setattr(obj, fld, value)   ==   if name == k: obj.<TABLE[k]> = value."""
    out = []
    var = loop.target.id if isinstance(loop.target, ast.Name) else None
    for c in ast.walk(loop):
        if isinstance(c, ast.Call) and norm(c.func) == "setattr" and len(c.args) == 3 and isinstance(c.args[1], ast.Name):
            fdefs = [s_ for s_ in ast.walk(loop) if isinstance(s_, ast.Assign) and norm(s_.targets[0]) == c.args[1].id]
            if len(fdefs) != 1:
                continue
            table = None
            for n in ast.walk(fdefs[0].value):
                if isinstance(n, ast.Call) and isinstance(n.func, ast.Attribute) and n.func.attr == "get" and n.args and norm(n.args[0]) == var:
                    table = _dict_literal_named(fi, norm(n.func.value))
                elif isinstance(n, ast.Subscript) and norm(n.slice) == var:
                    table = _dict_literal_named(fi, norm(n.value))
            if table is None:
                continue
            for k, v in zip(table.keys, table.values):
                if isinstance(k, ast.Constant) and isinstance(v, ast.Constant) and isinstance(v.value, str):
                    from ..core.inline import clone
                    from ..core.program import set_parents

                    tgt = ast.Attribute(value=clone(c.args[0]), attr=v.value, ctx=ast.Store())
                    asg = ast.Assign(targets=[tgt], value=clone(c.args[2]), lineno=c.lineno, col_offset=0)
                    ast.fix_missing_locations(asg)
                    set_parents(asg)
                    out.append((k.value, [asg]))
    return out


def _branches(loop: ast.For, fi=None) -> List[Tuple[str, List[ast.stmt]]]:
    out = []
    var = loop.target.id if isinstance(loop.target, ast.Name) else None
    if fi is not None:
        out += _table_branches(loop, fi)
    for st in loop.body:
        cur = st
        while isinstance(cur, ast.If):
            t = cur.test
            if isinstance(t, ast.Compare) and len(t.ops) == 1 and isinstance(t.ops[0], ast.Eq) and isinstance(t.left, ast.Name) \
                    and t.left.id == var and isinstance(t.comparators[0], ast.Constant):
                out.append((t.comparators[0].value, cur.body))
            if len(cur.orelse) == 1 and isinstance(cur.orelse[0], ast.If):
                cur = cur.orelse[0]
            else:
                break
    return out


def _field_assigns(stmts: List[ast.stmt]) -> Dict[str, ast.AST]:
    out: Dict[str, ast.AST] = {}
    for st in stmts:
        for n in ast.walk(st):
            if isinstance(n, ast.Assign) and len(n.targets) == 1 and isinstance(n.targets[0], ast.Attribute):
                out[norm(n.targets[0])] = n.value
    return out


def check_comm(prog: Program, res: Result, sch: Schema) -> None:
    fi = prog.func(f"{TRAIN}:get_aug_config")
    res.touch(fi)
    # `for name in NAMES: if i == name: setattr(cfg, f"{name}_p", v); break` is the if/elif chain over NAMES
    fn_u = astq.unroll_literal_loops(astq.inline_attr_aliases(fi.node), consts=astq.module_consts(fi.module.tree))
    loops = [n for n in walk_function(fn_u) if isinstance(n, ast.For)]
    res.ob("C20-comm", len(loops) == 2, fi.qualname, "two list dispatch loops", f"{len(loops)} dispatch loops in get_aug_config", fi.where)
    seen_names: Set[str] = set()
    for loop in loops:
        br = _branches(loop, fi)
        names = [b[0] for b in br]
        seen_names |= set(names)
        assigns = {name: _field_assigns(body) for name, body in br}
        # pairwise commutation
        for i, a in enumerate(names):
            for b in names[i + 1:]:
                for fld in sorted(set(assigns[a]) & set(assigns[b])):
                    va, vb = assigns[a][fld], assigns[b][fld]
                    same = ast.dump(va) == ast.dump(vb)
                    res.ob("C20-comm", same, fi.qualname, f"'{a}' and '{b}' agree on {fld}",
                           f"the branches for '{a}' and '{b}' both assign {fld} ({short(va, 20)} vs {short(vb, 20)}): the result depends "
                           "on the order of the list and one augmentation undoes the other", f"{fi.module.relpath}:{va.lineno}")
                res.count("C20-comm")
        # no branch reads a config field (order independence of effects)
        for name, body in br:
            reads = [n for st in body for n in ast.walk(st) if isinstance(n, ast.Attribute) and isinstance(n.ctx, ast.Load)
                     and norm(n).startswith("aug_config.") and not isinstance(getattr(n, "_parent", None), ast.Attribute)]
            reads = [n for n in reads if isinstance(getattr(n, "_parent", None), ast.Attribute) is False and not _is_store_base(n)]
            res.ob("C20-comm", not reads, fi.qualname, f"branch '{name}' reads no augmentation field",
                   f"the branch for '{name}' reads {short(reads[0], 40) if reads else ''}: its effect depends on earlier list elements",
                   f"{fi.module.relpath}:{loop.lineno}")
        # values at loop entry: assignments before the loop in the same block chain, else schema default
        entry: Dict[str, ast.AST] = {}
        for st in _stmts_before(loop):
            for k, v in _field_assigns([st]).items():
                entry[k] = v
        for name, body in br:
            own = AUG_OWN.get(name)
            if own is None:
                res.ob("C20-comm", False, fi.qualname, f"augmentation name '{name}' is documented",
                       f"augmentation name '{name}' has no entry in the own-field table", f"{fi.module.relpath}:{loop.lineno}")
                continue
            section = "intensity" if name in ("uniform_noise", "gaussian_noise", "contrast", "brightness") else "geometric"
            cls = "IntensityConfig" if section == "intensity" else "GeometricConfig"
            for fld in own:
                key = f"aug_config.{section}.{fld}"
                v = assigns[name].get(key)
                if v is None:
                    v = entry.get(key)
                if v is None:
                    f = sch.fields_of(cls).get(fld)
                    v = f.default if f is not None else None
                neutral = _is_neutral(v)
                res.ob("C20-comm", neutral is False, fi.qualname, f"'{name}' leaves {section}.{fld} enabled",
                       f"after the branch for '{name}' the field {section}.{fld} is {short(v, 20) if v is not None else 'unset'}: "
                       f"the augmentation named in the list is not enabled", f"{fi.module.relpath}:{loop.lineno}",
                       sample={"name": name, "field": fld, "value": short(v, 20) if v is not None else None})
    res.ob("C20-comm", seen_names == set(AUG_OWN), fi.qualname, "all nine documented augmentation names are dispatched",
           f"augmentation names without a branch: {sorted(set(AUG_OWN) - seen_names)}; undocumented: {sorted(seen_names - set(AUG_OWN))}", fi.where)
    res.floor("C20-comm", 30)


def _is_store_base(n: ast.AST) -> bool:
    p = getattr(n, "_parent", None)
    return isinstance(p, ast.Attribute) and isinstance(p.ctx, ast.Store)


def _stmts_before(loop: ast.AST) -> List[ast.stmt]:
    """Statements that precede `loop` in its enclosing blocks, up to the function."""
    out: List[ast.stmt] = []
    cur = loop
    while True:
        par = getattr(cur, "_parent", None)
        if par is None or isinstance(par, (ast.FunctionDef, ast.AsyncFunctionDef)):
            break
        for fld in ("body", "orelse"):
            blk = getattr(par, fld, None)
            if isinstance(blk, list) and cur in blk:
                out = blk[: blk.index(cur)] + out
        cur = par
    return out


# ----------------------------------------------------------------- valid
def _raises_valueerror(fn: ast.AST) -> bool:
    return any(isinstance(n, ast.Raise) and n.exc is not None and "ValueError" in norm(n.exc) for n in ast.walk(fn))


def _validator_target(prog: Program, cls: str, fld, sch: Schema) -> Optional[str]:
    v = fld.validator
    if v is None:
        return None
    if isinstance(v, ast.Lambda):
        calls = [n for n in ast.walk(v.body) if isinstance(n, ast.Call)]
        if calls:
            return norm(calls[0].func).split(".")[-1]
        return None
    if isinstance(v, ast.FunctionDef):
        # @field.validator method (self, attribute, value): the validator it hands the value to, unconditionally
        params = [a.arg for a in v.args.args]
        body = [b for b in v.body if not (isinstance(b, ast.Expr) and isinstance(b.value, ast.Constant))]
        for b in body:
            if isinstance(b, (ast.Expr, ast.Return)) and isinstance(b.value, ast.Call) and len(params) == 3 and [norm(a) for a in b.value.args] == [params[2]]:
                return norm(b.value.func).split(".")[-1]
        return v.name
    name = norm(v).split(".")[-1]
    # a module-level function that only forwards to a method of the instance: validator(instance, attribute, value) -> instance.m(value)
    ci = sch.class_info.get(cls)
    fwd = ci.module.functions.get(name) if ci is not None and isinstance(v, ast.Name) else None
    if fwd is not None and len(fwd.pos_params) == 3:
        body = [b for b in fwd.node.body if not (isinstance(b, ast.Expr) and isinstance(b.value, ast.Constant))]
        if len(body) == 1 and isinstance(body[0], (ast.Expr, ast.Return)) and isinstance(body[0].value, ast.Call):
            c = body[0].value
            if isinstance(c.func, ast.Attribute) and norm(c.func.value) == fwd.pos_params[0] and [norm(a) for a in c.args] == [fwd.pos_params[2]]:
                return c.func.attr
    return name


def check_valid(prog: Program, res: Result, sch: Schema) -> None:
    # 1. every *_p field
    n_p = 0
    for cls, fields in sch.classes.items():
        for fname, f in fields.items():
            if fname.endswith("_p"):
                n_p += 1
                tgt = _validator_target(prog, cls, f, sch)
                res.ob("C20-valid", tgt == "validate_proportion", f"sleap_nn.config:{cls}", f"{cls}.{fname} has validate_proportion",
                       f"probability field {cls}.{fname} has validator `{tgt}` instead of validate_proportion: out-of-range values are accepted",
                       f"{sch.class_info[cls].module.relpath}:{f.node.lineno}")
    vp = prog.func("sleap_nn.config.data_config:validate_proportion")
    res.touch(vp)
    ok = False
    from ..core.inline import tailify, clone as _clone
    vbody = tailify([_clone(b_) for b_ in vp.node.body]) or vp.node.body   # `if ok: return` + raise  ->  if ok: return / else: raise
    for n in [x for b_ in vbody for x in ast.walk(b_)]:
        if isinstance(n, ast.If):
            if any(isinstance(x, ast.Raise) for b in n.body for x in ast.walk(b)) and not any(isinstance(x, ast.Raise) for b in n.orelse for x in ast.walk(b)):
                ok = _rejects_outside_unit(n.test, "value")
            elif any(isinstance(x, ast.Raise) for b in n.orelse for x in ast.walk(b)) and not any(isinstance(x, ast.Raise) for b in n.body for x in ast.walk(b)):
                ok = _rejects_outside_unit(ast.UnaryOp(op=ast.Not(), operand=n.test), "value")
    res.ob("C20-valid", ok and _raises_valueerror(vp.node), vp.qualname, "rejects exactly values outside [0, 1] with ValueError",
           "validate_proportion no longer raises ValueError exactly for values outside [0.0, 1.0]", vp.where)
    # 2. named validators that must exist and raise
    wanted = [
        ("PreprocessingConfig", "scale", "validate_scale"),
        ("SwinTConfig", "model_type", "validate_model_type"),
        ("SwinTSmallConfig", "model_type", "validate_model_type"),
        ("SwinTBaseConfig", "model_type", "validate_model_type"),
        ("TrainerConfig", "optimizer_name", "validate_optimizer_name"),
        ("TrainerConfig", "trainer_devices", "validate_trainer_devices"),
        ("ReduceLROnPlateauConfig", "min_lr", "validate_min_lr"),
        ("ModelConfig", "pre_trained_weights", "validate_pre_trained_weights"),
    ]
    for cls, fld, vname in wanted:
        f = sch.fields_of(cls).get(fld)
        tgt = _validator_target(prog, cls, f, sch) if f is not None else None
        ci = sch.class_info[cls]
        m = prog.lookup_method(ci, vname)
        res.ob("C20-valid", f is not None and tgt == vname and m is not None and _raises_valueerror(m.node),
               ci.qualname, f"{cls}.{fld} validated by {vname} (raises ValueError)",
               f"{cls}.{fld} is no longer validated by a raising {vname} (validator: {tgt})",
               f"{ci.module.relpath}:{f.node.lineno if f else ci.node.lineno}")
        if m is not None:
            # the accepting paths are plain `return`s guarded by a membership / range test; the fall-through raises
            last = m.node.body[-1]
            member_guard = any(
                isinstance(n, ast.If) and any(isinstance(c, ast.Compare) and isinstance(c.ops[0], ast.NotIn) for c in ast.walk(n.test))
                and any(isinstance(x, ast.Raise) for b in n.body for x in ast.walk(b))
                for n in ast.walk(m.node)
            )
            # ... or, however the tests are arranged, a `raise` that the control flow can reach
            from ..core.cfg import CFG as _CFG
            cfg_ = _CFG(m.node)
            live_ = cfg_.live_nodes()
            reach_raise = any(n_ in live_ for r_ in ast.walk(m.node) if isinstance(r_, ast.Raise) for n_ in cfg_.nodes_of(r_))
            falls_through_to_raise = isinstance(last, ast.Raise) or member_guard or reach_raise
            res.ob("C20-valid", falls_through_to_raise, m.qualname, f"{vname} ends in a raise",
                   f"{vname} can fall off its end without raising", m.where)
    # swint sizes: the membership list is exactly tiny/small/base
    for cls in ("SwinTConfig", "SwinTSmallConfig", "SwinTBaseConfig"):
        m = sch.class_info[cls].methods.get("validate_model_type")
        if m is None:
            continue
        lists = [ast.literal_eval(n) for n in ast.walk(m.node) if isinstance(n, ast.List) and all(isinstance(e, ast.Constant) for e in n.elts)]
        tests = [n for n in ast.walk(m.node) if isinstance(n, ast.Compare) and isinstance(n.ops[0], ast.NotIn)]
        res.ob("C20-valid", ["tiny", "small", "base"] in lists and bool(tests), m.qualname, "accepted sizes are tiny/small/base",
               f"{cls}.validate_model_type accepts {lists}", m.where)
    # numeric validators from attrs
    for cls, fld, vtxt in [("OptimizerConfig", "lr", "validators.gt(0)"), ("StepLRConfig", "step_size", "validators.gt(0)"),
                           ("EarlyStoppingConfig", "min_delta", "validators.ge(0)"), ("EarlyStoppingConfig", "patience", "validators.ge(0)"),
                           ("IntensityConfig", "uniform_noise_min", "validators.ge(0)"), ("IntensityConfig", "uniform_noise_max", "validators.le(1)"),
                           ("IntensityConfig", "contrast_min", "validators.ge(0)"), ("IntensityConfig", "contrast_max", "validators.ge(0)")]:
        f = sch.fields_of(cls).get(fld)
        got = norm(f.validator) if f is not None and f.validator is not None else None
        res.ob("C20-valid", got == vtxt, f"sleap_nn.config:{cls}", f"{cls}.{fld} has {vtxt}",
               f"{cls}.{fld} has validator {got} instead of {vtxt}", f"{sch.class_info[cls].module.relpath}:{f.node.lineno if f else 0}")
    # 3. oneof
    for cls in ("HeadConfig", "BackboneConfig"):
        ci = sch.class_info[cls]
        decs = [norm(d).split("(")[0].split(".")[-1] for d in ci.node.decorator_list]
        res.ob("C20-valid", "oneof" in decs and decs.index("oneof") < len(decs) - 1, ci.qualname, f"{cls} is wrapped by oneof outside define",
               f"{cls} is not decorated with @oneof above @define (decorators: {decs})", f"{ci.module.relpath}:{ci.node.lineno}")
        for fname, f in sch.fields_of(cls).items():
            res.ob("C20-valid", f.optional and isinstance(f.default, ast.Constant) and f.default.value is None, ci.qualname,
                   f"{cls}.{fname} defaults to None", f"{cls}.{fname} does not default to None: oneof would count it as set",
                   f"{ci.module.relpath}:{f.node.lineno}")
    one = prog.func("sleap_nn.config.utils:oneof")
    res.touch(one)
    inner = prog.functions.get(one.qualname + ".<locals>.new_init_fn")
    ok = False
    calls_orig = False
    if inner is not None:
        for n in walk_function(inner.node):
            if isinstance(n, ast.If) and isinstance(n.test, ast.Compare) and norm(astq.expand_at(inner.node, n.test.left, n)).startswith("len(") \
                    and isinstance(n.test.ops[0], ast.Gt) and astq.const_value(n.test.comparators[0]) == 1 \
                    and any(isinstance(x, ast.Raise) for b in n.body for x in ast.walk(b)):
                ok = True
            if isinstance(n, ast.Call) and norm(n.func) == "init_fn":
                calls_orig = True
        counted = [n for n in walk_function(inner.node) if isinstance(n, ast.ListComp) and "is not None" in norm(n)]
        ok = ok and bool(counted)
    installs = any(isinstance(n, ast.Assign) and norm(n.targets[0]) == "attrs_cls.__init__" and norm(n.value) == "new_init_fn" for n in walk_function(one.node))
    returns = any(isinstance(n, ast.Return) and n.value is not None and norm(n.value) == "attrs_cls" for n in walk_function(one.node))
    res.ob("C20-valid", ok and calls_orig and installs and returns, one.qualname,
           "oneof installs an __init__ that raises when more than one attribute is not None",
           "the oneof wrapper no longer raises when more than one attribute is set (or is not installed / does not run the attrs __init__)", one.where)
    res.floor("C20-valid", 40)
    res.extra["proportion_fields"] = n_p


def _rejects_outside_unit(test: ast.AST, var: str) -> bool:
    """Does `test` (the raise condition) hold exactly for var outside [0, 1]?"""
    t = test
    if isinstance(t, ast.UnaryOp) and isinstance(t.op, ast.Not):
        c = t.operand
        if isinstance(c, ast.Compare) and len(c.ops) == 2 and all(isinstance(o, ast.LtE) for o in c.ops):
            lo, mid, hi = c.left, c.comparators[0], c.comparators[1]
            return astq.const_value(lo) == 0 and norm(mid) == var and astq.const_value(hi) == 1
    if isinstance(t, ast.BoolOp) and isinstance(t.op, ast.Or) and len(t.values) == 2:
        a, b = t.values
        def lt(c, v):  # var < v
            return isinstance(c, ast.Compare) and len(c.ops) == 1 and ((isinstance(c.ops[0], ast.Lt) and norm(c.left) == var and astq.const_value(c.comparators[0]) == v)
                                                                          or (isinstance(c.ops[0], ast.Gt) and norm(c.comparators[0]) == var and astq.const_value(c.left) == v))
        def gt(c, v):
            return isinstance(c, ast.Compare) and len(c.ops) == 1 and ((isinstance(c.ops[0], ast.Gt) and norm(c.left) == var and astq.const_value(c.comparators[0]) == v)
                                                                          or (isinstance(c.ops[0], ast.Lt) and norm(c.comparators[0]) == var and astq.const_value(c.left) == v))
        return (lt(a, 0) and gt(b, 1)) or (lt(b, 0) and gt(a, 1))
    return False


def _writes_arg(fi, param: str) -> List[str]:
    """Statements of `fi` that store into the object bound to `param` (attribute / item stores, also through plain
    aliases of sub-objects, update(), setattr)."""
    roots = {param}
    changed = True
    while changed:
        changed = False
        for st in walk_function(fi.node):
            if isinstance(st, ast.Assign) and len(st.targets) == 1 and isinstance(st.targets[0], ast.Name) and isinstance(st.value, (ast.Attribute, ast.Subscript, ast.Name)):
                b = astq.attr_base(st.value) if not isinstance(st.value, ast.Name) else st.value.id
                if b in roots and st.targets[0].id not in roots:
                    roots.add(st.targets[0].id)
                    changed = True
    out = []
    for st in walk_function(fi.node):
        tg = st.targets if isinstance(st, ast.Assign) else ([st.target] if isinstance(st, (ast.AugAssign, ast.AnnAssign)) else [])
        for t in tg:
            if isinstance(t, (ast.Attribute, ast.Subscript)) and astq.attr_base(t) in roots:
                out.append(short(st, 70))
        if isinstance(st, ast.Call):
            if isinstance(st.func, ast.Attribute) and st.func.attr in ("update", "pop", "setdefault", "merge_with") and astq.attr_base(st.func.value) in roots:
                out.append(short(st, 70))
            if norm(st.func) == "setattr" and st.args and (astq.attr_base(st.args[0]) if not isinstance(st.args[0], ast.Name) else st.args[0].id) in roots:
                out.append(short(st, 70))
    return out


def check_lossless(prog: Program, res: Result) -> None:
    """Normalisation (verify_training_cfg) returns the merge of the schema with the supplied configuration and nothing
    else: neither it nor anything it hands the configuration to stores into the configuration (a value rewritten during
    normalisation makes it lossy and non-idempotent on its inputs).  Builders look at EVERY entry of a dict argument:
    `next(iter(d.items()))` / `list(d.items())[0]` inspects only the first one and silently drops the rest."""
    R = "C20-lossless"
    vf = prog.func("sleap_nn.config.training_job_config:verify_training_cfg")
    res.touch(vf)
    own = [w for p_ in vf.pos_params for w in _writes_arg(vf, p_)]
    merged = [norm(s_.targets[0]) for s_ in walk_function(vf.node) if isinstance(s_, ast.Assign) and isinstance(s_.value, ast.Call) and norm(s_.value.func).endswith("OmegaConf.merge")
              and isinstance(s_.targets[0], ast.Name)]
    res.ob(R, len(merged) == 1, vf.qualname, "one merge of schema and supplied configuration", f"{len(merged)} OmegaConf.merge results", vf.where)
    for m in merged:
        own += _writes_arg(vf, m)
    res.ob(R, not own, vf.qualname, "normalisation stores nothing into the configuration", f"verify_training_cfg rewrites configuration values: {own[:3]}", vf.where)
    cfg_names = set(vf.pos_params) | set(merged)
    for c in walk_function(vf.node):
        if not isinstance(c, ast.Call):
            continue
        q = prog.resolve_call(vf, c)
        callee = prog.functions.get(q) if q else None
        if callee is None and isinstance(c.func, ast.Attribute) and isinstance(c.func.value, ast.Name):
            ci = vf.module.classes.get(c.func.value.id)
            callee = prog.lookup_method(ci, c.func.attr) if ci is not None else None
        if callee is None:
            continue
        decos = [d_.id for d_ in callee.node.decorator_list if isinstance(d_, ast.Name)]
        b = astq.bind_args(callee, c, skip_self=(callee.cls is not None and "staticmethod" not in decos))
        for prm, a in b.items():
            if isinstance(a, ast.Name) and a.id in cfg_names:
                w = _writes_arg(callee, prm)
                res.ob(R, not w, vf.qualname, f"{callee.name}() leaves the configuration untouched",
                       f"verify_training_cfg passes the configuration to {callee.qualname}, which rewrites it (`{w[0] if w else ''}`): values supplied by the caller are "
                       "changed by normalisation (not lossless, not idempotent on the input)", f"{vf.module.relpath}:{c.lineno}")
    # the other producer of a training configuration, TrainingJobConfig.to_sleap_nn_cfg, hands back OmegaConf.structured(self)
    # and passes it to nothing that stores into it
    tj = prog.cls("sleap_nn.config.training_job_config:TrainingJobConfig").methods.get("to_sleap_nn_cfg")
    if tj is None:
        raise AnalysisError("TrainingJobConfig.to_sleap_nn_cfg vanished")
    res.touch(tj)
    made = [norm(s_.targets[0]) for s_ in walk_function(tj.node) if isinstance(s_, ast.Assign) and isinstance(s_.value, ast.Call) and norm(s_.value.func).endswith("OmegaConf.structured")
            and isinstance(s_.targets[0], ast.Name)]
    direct = [r_ for r_ in walk_function(tj.node) if isinstance(r_, ast.Return) and isinstance(r_.value, ast.Call) and norm(r_.value.func).endswith("OmegaConf.structured")]
    res.ob(R, len(made) + len(direct) == 1, tj.qualname, "one structured configuration is built", f"{len(made) + len(direct)} OmegaConf.structured results", tj.where)
    w_ = [x for m_ in made for x in _writes_arg(tj, m_)]
    for c in walk_function(tj.node):
        if not isinstance(c, ast.Call):
            continue
        q = prog.resolve_call(tj, c)
        callee = prog.functions.get(q) if q else None
        if callee is None and isinstance(c.func, ast.Attribute) and norm(c.func.value) in ("self", "cls"):
            callee = prog.lookup_method(tj.cls, c.func.attr)
        if callee is None:
            continue
        decos = [d_.id for d_ in callee.node.decorator_list if isinstance(d_, ast.Name)]
        b = astq.bind_args(callee, c, skip_self=(callee.cls is not None and "staticmethod" not in decos))
        for prm, a in b.items():
            if isinstance(a, ast.Name) and a.id in made:
                w_ += [f"{callee.name}: {x}" for x in _writes_arg(callee, prm)]
    res.ob(R, not w_, tj.qualname, "to_sleap_nn_cfg stores nothing into the configuration it returns",
           f"to_sleap_nn_cfg rewrites values of the configuration it was built from (`{w_[0] if w_ else ''}`): the caller's backbone/head settings are changed on the way out", tj.where)
    rets_t = [n for n in walk_function(tj.node) if isinstance(n, ast.Return) and n.value is not None]
    res.ob(R, all((isinstance(r_.value, ast.Name) and r_.value.id in made) or r_ in direct for r_ in rets_t) and bool(rets_t), tj.qualname, "the structured configuration itself is returned",
           f"to_sleap_nn_cfg returns `{short(rets_t[0].value, 50) if rets_t else '?'}`, not the structured configuration itself", tj.where)
    rets = [n for n in walk_function(vf.node) if isinstance(n, ast.Return) and n.value is not None]
    res.ob(R, len(rets) == 1 and norm(rets[0].value) in merged, vf.qualname, "the merged configuration is what is returned",
           f"verify_training_cfg returns `{short(rets[0].value, 50) if rets else '?'}`, not the merge result itself", vf.where)
    # builders: every entry of a dict argument is considered
    n_b = 0
    for fi in prog.all_functions():
        if fi.module.name != TRAIN or not fi.name.startswith("get_"):
            continue
        n_b += 1
        for c in walk_function(fi.node):
            first_only = None
            if isinstance(c, ast.Call) and norm(c.func) == "next" and c.args and isinstance(c.args[0], ast.Call) and norm(c.args[0].func) == "iter" and c.args[0].args:
                first_only = c.args[0].args[0]
            elif isinstance(c, ast.Subscript) and astq.const_value(c.slice) == 0 and isinstance(c.value, ast.Call) and norm(c.value.func) in ("list", "tuple") and c.value.args:
                first_only = c.value.args[0]
            elif isinstance(c, ast.Call) and isinstance(c.func, ast.Attribute) and c.func.attr == "popitem":
                first_only = c.func.value
            if first_only is None:
                continue
            base = astq.peel(first_only, "items", "keys", "values")
            nm = astq.attr_base(base) if not isinstance(base, ast.Name) else base.id
            if nm in fi.pos_params:
                res.touch(fi)
                res.ob(R, False, fi.qualname, f"every entry of `{nm}` is considered",
                       f"`{short(c, 60)}` looks only at the FIRST entry of the caller's `{nm}` dict: parameters supplied under another key (e.g. a YAML-style dict whose first "
                       "key is None) are silently dropped", f"{fi.module.relpath}:{c.lineno}")
        # a loop over the entries of a dict argument leaves early only AFTER it has used an entry: a `break` reached without a
        # store on the way (e.g. on a None value) ends the scan and drops every later entry
        from ..core.cfg import CFG
        cfg = None
        for lp in walk_function(fi.node):
            if not isinstance(lp, ast.For):
                continue
            itb = astq.peel(lp.iter, "items", "keys", "values")
            nm = itb.id if isinstance(itb, ast.Name) else astq.attr_base(itb)
            if nm not in fi.pos_params:
                continue
            # an entry is skipped only when its value IS None: `if not v` / `if v` also skips {} (= "this option with its
            # defaults"), 0 and ""
            vals = astq.target_names(lp.target) if "items" in norm(lp.iter) else set()
            vnames = {e.id for e in lp.target.elts[1:] if isinstance(e, ast.Name)} if isinstance(lp.target, ast.Tuple) and "items" in norm(lp.iter) else set()
            for t_ in ast.walk(lp):
                if isinstance(t_, (ast.If, ast.IfExp)):
                    tt = t_.test.operand if isinstance(t_.test, ast.UnaryOp) and isinstance(t_.test.op, ast.Not) else t_.test
                    ops = tt.values if isinstance(tt, ast.BoolOp) else [tt]
                    for o_ in ops:
                        o_ = o_.operand if isinstance(o_, ast.UnaryOp) and isinstance(o_.op, ast.Not) else o_
                        if isinstance(o_, ast.Name) and o_.id in vnames:
                            res.touch(fi)
                            res.ob(R, False, fi.qualname, f"entries of `{nm}` are skipped only when their value is None",
                                   f"`{short(t_.test, 40)}` tests the entry's value by truthiness: an empty override dict (`{{}}` = this option with its schema defaults), 0 or '' "
                                   "is treated like a missing entry and silently dropped", f"{fi.module.relpath}:{t_.lineno}")
            brks = [b for st in lp.body for b in ast.walk(st) if isinstance(b, ast.Break) and astq.enclosing_loops(b)[0] is lp]
            if not brks:
                continue
            cfg = cfg or CFG(fi.node)
            heads = cfg.nodes_of(lp)
            enter = [m for h in heads for m in cfg.g.successors(h) if "true" in cfg.g[h][m]["labels"]]
            stores = set()
            for st in ast.walk(lp):
                if isinstance(st, ast.Assign) and any(isinstance(t, (ast.Attribute, ast.Subscript)) for t in st.targets):
                    stores |= set(cfg.nodes_of(st))
                elif isinstance(st, ast.Expr) and isinstance(st.value, ast.Call) and norm(st.value.func) == "setattr":
                    stores |= set(cfg.nodes_of(st))
            for b in brks:
                res.touch(fi)
                w = cfg.must_pass(enter, cfg.nodes_of(b), stores, drop_edge=lambda a_, b_, labels: "exc" in labels)
                res.ob(R, w is None, fi.qualname, f"the scan of `{nm}` stops only after an entry was used",
                       f"the loop over the caller's `{nm}` can `break` without having stored anything ({cfg.path_str(w) if w else ''}): an entry that is merely skipped "
                       "(e.g. a None value) ends the scan and the entries after it are silently dropped", f"{fi.module.relpath}:{b.lineno}")
    res.count(R, n_b)
    res.floor(R, 8)


def check_fresh(prog: Program, res: Result, sch: Schema) -> None:
    """Builders write into sub-configurations in place (`aug_config.intensity.contrast_p = 1.0`).  That is only sound when the
    sub-object belongs to the configuration just built: the field holding it has a per-instance default (attrs
    `field(factory=...)`) or was assigned a fresh object in the builder.  A default written as an INSTANCE in the class body
    (`intensity: IntensityConfig = IntensityConfig()`) is one object shared by every configuration, so what one builder call
    switches on leaks into all later calls of the process."""
    R = "C20-comm"
    n = 0
    for fi in prog.all_functions():
        if fi.module.name != TRAIN or not fi.name.startswith("get_"):
            continue
        fnode = astq.inline_attr_aliases(fi.node)     # `g = cfg.geometric; g.x = v` is the store `cfg.geometric.x = v`
        built = {}   # local name -> config class it was built as
        for st in walk_function(fnode):
            if isinstance(st, ast.Assign) and len(st.targets) == 1 and isinstance(st.targets[0], ast.Name) and isinstance(st.value, ast.Call):
                cls = norm(st.value.func).split(".")[-1]
                if cls in sch.classes:
                    built[st.targets[0].id] = cls
        seen = set()
        for st in walk_function(fnode):
            if isinstance(st, ast.Expr) and isinstance(st.value, ast.Call) and norm(st.value.func) == "setattr" and len(st.value.args) == 3:
                # setattr(X.sub, name, v) is the same store
                tgts = [ast.Attribute(value=st.value.args[0], attr="<dynamic>", ctx=ast.Store())]
            elif isinstance(st, (ast.Assign, ast.AugAssign)):
                tgts = astq.stmt_targets(st)
            else:
                continue
            for t in tgts:
                # X.sub.attr = v   (a store two levels below a configuration built here)
                if isinstance(t, ast.Attribute) and isinstance(t.value, ast.Attribute) and isinstance(t.value.value, ast.Name) and t.value.value.id in built:
                    cls, sub = built[t.value.value.id], t.value.attr
                    if (cls, sub) in seen:
                        continue
                    seen.add((cls, sub))
                    f = sch.fields_of(cls).get(sub)
                    fresh_here = any(isinstance(s2, ast.Assign) and norm(s2.targets[0]) == f"{t.value.value.id}.{sub}" and isinstance(s2.value, ast.Call) and s2.lineno < st.lineno
                                     and not any(isinstance(a_, ast.If) for a_ in ancestors(s2) if a_ not in list(ancestors(st))) for s2 in walk_function(fnode))
                    n += 1
                    res.touch(fi)
                    res.ob(R, f is not None and (f.factory is not None or fresh_here), fi.qualname, f"{cls}.{sub} is a per-instance object when {fi.name} writes into it",
                           f"{fi.name} stores into `{t.value.value.id}.{sub}.…` in place, but `{cls}.{sub}` defaults to "
                           f"`{short(f.default, 40) if f is not None and f.default is not None else 'nothing'}` written in the class body - one object shared by every {cls}: "
                           "settings made by one builder call persist into later calls", f"{fi.module.relpath}:{st.lineno}")
    res.ob(R, n >= 2, f"{TRAIN}", "in-place sub-configuration writes found", f"only {n} in-place writes into sub-configurations found in the builders", "")


def check(prog: Program, res: Result) -> None:
    sch = Schema(prog)
    check_fresh(prog, res, sch)
    res.extra["schema"] = sch.stats()
    check_fwd(prog, res)
    check_wire(prog, res, sch)
    check_presets(prog, res, sch)
    check_comm(prog, res, sch)
    check_valid(prog, res, sch)
    check_lossless(prog, res)
    res.assumptions += [
        "the documented place of each builder argument is the frozen table in sa/props/c20.py (same name unless listed)",
        "not decided: YAML save/load round trip and idempotence of verify_training_cfg (OmegaConf runtime semantics)",
    ]


F = "sleap_nn/train.py"
D = "sleap_nn/config/data_config.py"
VARIANTS = [
    Variant("fwd-dropped", F, "        min_crop_size=min_crop_size,\n        use_augmentations_train=use_augmentations_train,\n        intensity_aug=intensity_aug,",
            "        use_augmentations_train=use_augmentations_train,\n        intensity_aug=intensity_aug,", "C20-fwd"),
    Variant("fwd-crossed", F, "        max_height=max_height,\n        max_width=max_width,\n        crop_hw=crop_hw,\n        min_crop_size=min_crop_size,\n        use_augmentations_train=use_augmentations_train,\n        intensity_aug",
            "        max_height=max_width,\n        max_width=max_height,\n        crop_hw=crop_hw,\n        min_crop_size=min_crop_size,\n        use_augmentations_train=use_augmentations_train,\n        intensity_aug", "C20-fwd"),
    Variant("wire-crossed", F, "        max_height=max_height,\n        max_width=max_width,\n        scale=scale,", "        max_height=max_width,\n        max_width=max_height,\n        scale=scale,", "C20-wire"),
    Variant("wire-dropped", F, "            prv_runid=wandb_resume_prv_runid,\n", "", "C20-wire"),
    Variant("wire-modified", F, "optimizer=OptimizerConfig(lr=learning_rate, amsgrad=amsgrad)", "optimizer=OptimizerConfig(lr=learning_rate * 0.1, amsgrad=amsgrad)", "C20-wire"),
    Variant("wire-val-shuffle", F, "        batch_size=batch_size, shuffle=False, num_workers=num_workers", "        batch_size=batch_size, shuffle=shuffle_train, num_workers=num_workers", "C20-wire"),
    Variant("wire-loader-swapped", F, "        train_data_loader=train_dataloader_cfg,\n        val_data_loader=val_dataloader_cfg,", "        train_data_loader=val_dataloader_cfg,\n        val_data_loader=train_dataloader_cfg,", "C20-wire"),
    Variant("wire-aug-always", F, "    augmentation_config = None\n    if use_augmentations_train:\n        augmentation_config = get_aug_config(", "    augmentation_config = None\n    if intensity_aug:\n        augmentation_config = get_aug_config(", "C20-wire"),
    Variant("wire-aug-swapped", F, "            intensity_aug=intensity_aug, geometric_aug=geometry_aug", "            intensity_aug=geometry_aug, geometric_aug=intensity_aug", "C20-wire"),
    Variant("comm-conflict", F, "            elif g == \"scale\":\n                aug_config.geometric.scale = (0.9, 1.1)\n                aug_config.geometric.affine_p = 1.0\n",
            "            elif g == \"scale\":\n                aug_config.geometric.scale = (0.9, 1.1)\n                aug_config.geometric.affine_p = 1.0\n                aug_config.geometric.rotation = 0\n", "C20-comm"),
    Variant("comm-not-enabled", F, "                aug_config.geometric.affine_p = 1.0\n                aug_config.geometric.rotation = 15.0\n", "                aug_config.geometric.affine_p = 1.0\n", "C20-comm"),
    Variant("comm-wrong-field", F, "            elif i == \"contrast\":\n                aug_config.intensity.contrast_p = 1.0", "            elif i == \"contrast\":\n                aug_config.intensity.brightness_p = 1.0", "C20-comm"),
    Variant("assign-not-subclass", "sleap_nn/config/model_config.py", "class ConvNextSmallConfig(ConvNextConfig):", "class ConvNextSmallConfig:", "C20-assign"),
    Variant("assign-wrong-family", "sleap_nn/config/model_config.py", "class SwinTBaseConfig(SwinTConfig):", "class SwinTBaseConfig(ConvNextConfig):", "C20-assign"),
    Variant("preset-wrong-class", F, "        \"convnext_small\": ConvNextSmallConfig(),", "        \"convnext_small\": ConvNextBaseConfig(),", "C20-preset"),
    Variant("key-wrong-attr", F, "        elif head_cfg == \"centroid\":\n            head_configs.centroid = CentroidConfig()", "        elif head_cfg == \"centroid\":\n            head_configs.centered_instance = CentroidConfig()", "C20-key"),
    Variant("key-wrong-subdict", F, "                pafs=PAFConfig(**head_cfg[\"bottomup\"][\"pafs\"]),", "                pafs=PAFConfig(**head_cfg[\"bottomup\"][\"confmaps\"]),", "C20-key"),
    Variant("valid-dropped", D, "    erase_p: float = field(default=0.0, validator=validate_proportion)", "    erase_p: float = 0.0", "C20-valid"),
    Variant("valid-weakened", D, "    if not (0.0 <= value <= 1.0):", "    if not (0.0 <= value <= 100.0):", "C20-valid"),
    Variant("oneof-weakened", "sleap_nn/config/utils.py", "        if len(attribs_with_value) > 1:\n            # Raise error if more than one attribute is set.\n            message = \"Only one attribute of this class can be set (not None).\"\n            logger.error(message)\n            raise ValueError(message)\n\n        if len(attribs_with_value) == 0 and must_be_set:",
            "        if len(attribs_with_value) > 2:\n            # Raise error if more than one attribute is set.\n            message = \"Only one attribute of this class can be set (not None).\"\n            logger.error(message)\n            raise ValueError(message)\n\n        if len(attribs_with_value) == 0 and must_be_set:", "C20-valid"),
    Variant("oneof-removed", "sleap_nn/config/model_config.py", "@oneof\n@define\nclass BackboneConfig:", "@define\nclass BackboneConfig:", "C20-valid"),
    Variant("scale-validator-silent", D, "        message = \"PreprocessingConfig's scale must be a float or a list of floats.\"\n        logger.error(message)\n        raise ValueError(message)", "        message = \"PreprocessingConfig's scale must be a float or a list of floats.\"\n        logger.error(message)", "C20-valid"),
    # behaviour preserving
    Variant("bp-or-form", D, "    if not (0.0 <= value <= 1.0):", "    if value < 0.0 or value > 1.0:", None),
    Variant("bp-reorder-kwargs", F, "            entity=wandb_entity,\n            project=wandb_project,", "            project=wandb_project,\n            entity=wandb_entity,", None),
    Variant("bp-local-for-nested", F, "        optimizer=OptimizerConfig(lr=learning_rate, amsgrad=amsgrad),\n        lr_scheduler=lr_scheduler_cfg,",
            "        optimizer=optimizer_cfg,\n        lr_scheduler=lr_scheduler_cfg,", None),
]
# the last variant needs the local to exist: patch both places in one variant instead
VARIANTS[-1] = Variant("bp-local-for-nested", F, "    trainer_config = TrainerConfig(\n        train_data_loader=train_dataloader_cfg,",
                       "    early_cfg = EarlyStoppingConfig(\n            min_delta=early_stopping_min_delta,\n            patience=early_stopping_patience,\n            stop_training_on_plateau=early_stopping,\n        )\n    trainer_config = TrainerConfig(\n        train_data_loader=train_dataloader_cfg,", None)
