"""Shared set-up of the training-data entry points for the E2 interpretation (C04, C18)."""

from __future__ import annotations

import re
from typing import Dict, List, Optional, Tuple

from ..core.program import AnalysisError, Program
from ..engines.geom import Interp
from ..engines.geomval import Cfg, Const, Geo, HDict, Mismatch, Mono, Num, Other, Ref, Top, Tup, V

CD = "sleap_nn.data.custom_datasets"
SD = "sleap_nn.data.streaming_datasets"
GC = "sleap_nn.data.get_data_chunks"
SCALE = Num(Mono.sym("scale"))

MODEL_TYPES = {
    "bottomup": dict(ds="BottomUpDataset", chunk="bottomup_data_chunks", stream="BottomUpStreamingDataset", image="image", points="instances"),
    "centered_instance": dict(ds="CenteredInstanceDataset", chunk="centered_instance_data_chunks", stream="CenteredInstanceStreamingDataset", image="instance_image", points="instance"),
    "centroid": dict(ds="CentroidDataset", chunk="centroid_data_chunks", stream="CentroidStreamingDataset", image="image", points="centroids"),
    "single_instance": dict(ds="SingleInstanceDataset", chunk="single_instance_data_chunks", stream="SingleInstanceStreamingDataset", image="image", points="instances"),
}


def _common_attrs(I: Interp, np_chunks: bool) -> Dict[str, V]:
    return {
        "labels": I.new_obj("sio:Labels", {}), "data_config": Cfg(("data_config",)), "max_stride": Other("max_stride"), "scale": SCALE,
        "apply_aug": Const(True), "max_hw": Tup((Other("max_h"), Other("max_w"))), "np_chunks": Const(np_chunks), "np_chunks_path": Other("path"),
        "use_existing_chunks": Const(False), "cache": I.new_dict({}, None), "transform_to_pil": Other("transform"), "transform_pil_to_tensor": Other("transform"),
        "confmap_head_config": Cfg(("confmap_head",)), "pafs_head_config": Cfg(("pafs_head",)), "crop_hw": Tup((Other("crop_h"), Other("crop_w"))),
        "edge_inds": Other("edge_inds"), "lf_idx_list": I.new_list(Other("lf_idx")), "instance_idx_list": I.new_list(Tup((Other("lf_idx"), Other("inst_idx")))),
        "max_instances": Other("max_instances"), "cache_lf": I.new_list(Other("cache_lf")), "curr_idx": Other("idx"),
    }


class TrainRun:
    def __init__(self, name: str, mtype: str, framework: str, I: Interp, sample: Optional[V]):
        self.name, self.mtype, self.framework, self.I, self.sample = name, mtype, framework, I, sample

    def cells(self) -> Dict[str, V]:
        s = self.sample
        if isinstance(s, Ref):
            o = self.I.obj(s)
            if isinstance(o, HDict):
                return o.cells
            el = self.I.elem_of(s)
            if isinstance(el, Ref) and isinstance(self.I.obj(el), HDict):
                return self.I.obj(el).cells
        return {}


def run_dataset(prog: Program, mtype: str, np_chunks: bool) -> TrainRun:
    spec = MODEL_TYPES[mtype]
    I = Interp(prog)
    ci = prog.cls(f"{CD}:{spec['ds']}")
    ds = I.new_obj(ci.qualname, _common_attrs(I, np_chunks))
    fill = prog.lookup_method(ci, "_fill_cache")
    gi = prog.lookup_method(ci, "__getitem__")
    if fill is None or gi is None:
        raise AnalysisError(f"{spec['ds']}: _fill_cache/__getitem__ vanished")
    I.call_function(fill, [], {}, self_val=ds)
    sample = I.call_function(gi, [Other("index")], {}, self_val=ds)
    fw = "torch_dataset_np_chunks" if np_chunks else "torch_dataset"
    return TrainRun(f"{mtype}/{fw}", mtype, fw, I, sample)


def run_streaming(prog: Program, mtype: str) -> TrainRun:
    spec = MODEL_TYPES[mtype]
    I = Interp(prog)
    chunk = prog.func(f"{GC}:{spec['chunk']}")
    x = Tup((I.new_obj("sio:LabeledFrame", {}), Other("video_idx")))
    kwargs: Dict[str, V] = {"data_config": Cfg(("data_config",)), "max_hw": Tup((Other("max_h"), Other("max_w"))), "user_instances_only": Other("uio"), "scale": SCALE}
    if "max_instances" in chunk.params:
        kwargs["max_instances"] = Other("max_instances")
    if "crop_size" in chunk.params:
        kwargs["crop_size"] = Tup((Other("crop_h"), Other("crop_w")))
    if "anchor_ind" in chunk.params:
        kwargs["anchor_ind"] = Other("anchor")
    stored = I.call_function(chunk, [x], kwargs)
    if isinstance(stored, Ref) and not isinstance(I.obj(stored), HDict):
        stored = I.elem_of(stored)  # generator of samples
    I.leaves.storage["litdata"] = stored
    I.leaves.storage["chunk_sample"] = stored
    sci = prog.cls(f"{SD}:{spec['stream']}")
    kw: Dict[str, V] = {"confmap_head": Cfg(("confmap_head",)), "max_stride": Other("max_stride"), "apply_aug": Const(True), "augmentation_config": Cfg(("data_config", "augmentation_config"))}
    init = sci.methods.get("__init__")
    if init is not None:
        if "pafs_head" in init.params:
            kw["pafs_head"] = Cfg(("pafs_head",))
            kw["edge_inds"] = Other("edge_inds")
        if "crop_hw" in init.params:
            kw["crop_hw"] = Tup((Other("crop_h"), Other("crop_w")))
            kw["input_scale"] = SCALE
    obj = I.instantiate(sci, [], kw)
    gi = prog.lookup_method(sci, "__getitem__")
    sample = I.call_function(gi, [Other("index")], {}, self_val=obj)
    return TrainRun(f"{mtype}/litdata", mtype, "litdata", I, sample)


def canon(v: V) -> str:
    """Frame signature with allocation-site names normalised (eff@X -> eff, aug@X -> aug, box labels -> ordinals)."""
    s = repr(v)
    s = re.sub(r"eff@[\w\.]+", "eff", s)
    s = re.sub(r"aug@[\w\.]+", "aug", s)
    labels: List[str] = []
    for m in re.finditer(r"box@[\w\.]+:\d+", s):
        if m.group(0) not in labels:
            labels.append(m.group(0))
    for i, l in enumerate(labels):
        s = s.replace(l, f"box{i}")
    return s
