"""C05 — part-affinity-field targets: never NaN, instances add, weight in [0,1], direction src->dst."""

from __future__ import annotations

import ast
from typing import Dict, List, Optional

from ..core import astq
from ..core.program import AnalysisError, FunctionInfo, Program, ancestors, enclosing_stmt, norm, short, walk_function
from ..engines import sign as S
from ..engines.nantaint import NanTaint
from ..report import Result
from ..runner import Variant
from .c01 import POSITIVE

PROP = "C05"
EXPLANATION = (
    "(nan) NaN taint with edge sources/destinations tainted (missing endpoints) AND with division by the edge norm as a NaN "
    "source (zero-length edge, 0/0): the value added into the accumulator of make_multi_pafs and the value returned by "
    "make_multi_pafs / generate_pafs are untainted - the scrub paf[isnan(paf)] = 0 dominates `pafs += paf` in the loop; (sum) "
    "the accumulator starts as zeros and is updated by += only, once per instance; (range) gaussian_pdf is exp(-(x^2)/(2 sigma^2)) "
    "in [0,1] for sigma>0 and distance_to_edge clamps the projection to [0,1]; (dir) the unit vector is (destination - source) / "
    "its norm, sources are instances[:, edge_inds[:,0]] and destinations [:,1], the weight multiplies the unit vector and the "
    "layout is permuted to (edges, 2, H, W) before the (2*edges) flattening; (call) every dataset / streaming / pipeline call "
    "passes flatten_channels=True, the skeleton's edge_inds and sigma/output_stride of the PAF head. Not decided: monotonicity of "
    "the weight, channel numbering (pinned by tests)."
)
TRUSTED = ["CPython ast", "networkx reachability", "torch.clamp / exp facts used by the sign engine"]
EM = "sleap_nn.data.edge_maps"
UT = "sleap_nn.data.utils"


def _flattens_edge_major(fn: ast.AST, c: ast.Call) -> bool:
    """c reshapes its (edges, 2, H, W) receiver to (edges*2, H, W): flatten(0, 1), or reshape/view to (E*2 | -1, H, W) with
    H, W, E the grid sides / edge count however they are spelt (len(yv), yv.shape[0], the receiver's own shape, ...)."""
    recv = c.func.value.id
    if c.func.attr == "flatten":
        return [astq.const_value(a) for a in c.args] == [0, 1] and not c.keywords
    at = enclosing_stmt(c)

    def side(e, vec, axes):
        t = norm(e)
        return t in {f"len({vec})", f"{vec}.shape[0]", f"{vec}.size(0)", f"{vec}.numel()"} | {f"{recv}.shape[{k}]" for k in axes} | {f"{recv}.size({k})" for k in axes}

    def edges(e):
        t = norm(e)
        return t in {f"{recv}.shape[0]", f"{recv}.size(0)", f"{recv}.shape[-4]"} or (t.startswith("len(") and t.endswith("edge_inds)")) or t.endswith("edge_inds.shape[0]")

    args = list(c.args)
    if len(args) == 1:
        one = astq.expand_at(fn, args[0], at, keep=[recv])
        if isinstance(one, ast.IfExp):
            # reshape(<flat shape> if flatten_channels else <the shape the fields already have>): the flat arm is the reshape
            neg = isinstance(one.test, ast.UnaryOp) and isinstance(one.test.op, ast.Not)
            core = one.test.operand if neg else one.test
            if norm(core).split(".")[-1] != "flatten_channels":
                return False
            flat_arm, keep_arm = (one.orelse, one.body) if neg else (one.body, one.orelse)
            ka = [astq.expand_at(fn, a, at, keep=[recv, "xv", "yv"]) for a in keep_arm.elts] if isinstance(keep_arm, (ast.Tuple, ast.List)) else []
            if not (len(ka) == 4 and edges(ka[0]) and astq.const_value(ka[1]) == 2 and side(ka[2], "yv", (2, -2)) and side(ka[3], "xv", (3, -1))):
                return False
            one = flat_arm
        args = list(one.elts) if isinstance(one, (ast.Tuple, ast.List)) else args
    if len(args) != 3 or c.keywords:
        return False
    ex = [astq.expand_at(fn, a, at, keep=[recv, "xv", "yv"]) for a in args]

    d0 = ex[0]
    ok0 = astq.const_value(d0) == -1 or (isinstance(d0, ast.BinOp) and isinstance(d0.op, ast.Mult) and
                                         ((astq.const_value(d0.right) == 2 and edges(d0.left)) or (astq.const_value(d0.left) == 2 and edges(d0.right))))
    return ok0 and side(ex[1], "yv", (2, -2)) and side(ex[2], "xv", (3, -1))


def _grid_is_xy(g: Optional[ast.AST], xv: str, yv: str) -> bool:
    """g is  stack((X, Y), dim=-1)  where X / Y are the meshgrid components that hold the values of xv along the columns /
    of yv along the rows: meshgrid(yv, xv, indexing="ij") -> (Y, X);  meshgrid(xv, yv, indexing="xy") -> (X, Y)."""
    if isinstance(g, ast.Call) and norm(g.func).split(".")[-1] == "stack" and g.args and isinstance(g.args[0], ast.Call) and norm(g.args[0].func).split(".")[-1] == "meshgrid" \
            and len(g.args[0].args) == 2:
        # stack(meshgrid(a, b, ...)) stacks the two components in order
        m = g.args[0]
        g = ast.Call(func=g.func, args=[ast.Tuple(elts=[ast.Subscript(value=m, slice=ast.Constant(value=k), ctx=ast.Load()) for k in (0, 1)], ctx=ast.Load())] + list(g.args[1:]),
                     keywords=g.keywords)
    if not (isinstance(g, ast.Call) and norm(g.func).split(".")[-1] == "stack" and g.args and isinstance(g.args[0], (ast.Tuple, ast.List)) and len(g.args[0].elts) == 2):
        return False
    dim = astq.const_value(astq.call_arg(g, 1, "dim")) if astq.call_arg(g, 1, "dim") is not None else 0
    if dim not in (-1, 2):
        return False
    want = []
    for e in g.args[0].elts:
        if not (isinstance(e, ast.Subscript) and isinstance(e.value, ast.Call) and norm(e.value.func).split(".")[-1] == "meshgrid" and len(e.value.args) == 2):
            return False
        k = astq.const_value(e.slice)
        idx = next((astq.const_value(kw.value) for kw in e.value.keywords if kw.arg == "indexing"), "ij")
        if k not in (0, 1) or idx not in ("ij", "xy"):
            return False
        # component k holds the values of argument k; with "ij" it varies along axis k, with "xy" along axis 1 - k
        want.append((norm(e.value.args[k]), k if idx == "ij" else 1 - k))
    return want == [(xv, 1), (yv, 0)]


def check_nan(prog: Program, res: Result) -> None:
    R = "C05-nan"
    nt = NanTaint(prog, POSITIVE)
    fi = prog.func(f"{EM}:make_multi_pafs")
    res.touch(fi)
    states, sg, cfg = nt.run(fi, frozenset({"edge_sources", "edge_destinations"}))
    augs = 0
    for n, T in states.items():
        a = cfg.nodes[n].ast
        if cfg.nodes[n].kind == "stmt" and isinstance(a, ast.AugAssign) and isinstance(a.op, ast.Add):
            augs += 1
            t = nt.tainted(fi, a.value, T, sg)
            res.ob(R, not t, fi.qualname, f"value accumulated is NaN-free: {short(a, 40)}",
                   f"`{short(a, 40)}` adds a value that may be NaN (missing endpoint, or 0/0 for a zero-length edge): one bad edge poisons the whole field",
                   f"{fi.module.relpath}:{a.lineno}", sample={"tainted_in": sorted(T)})
    res.ob(R, augs >= 1, fi.qualname, "accumulation statement found", "no `+=` accumulation in make_multi_pafs", fi.where)
    for name, params in (("make_multi_pafs", {"edge_sources", "edge_destinations"}), ("generate_pafs", {"instances"})):
        f2 = prog.func(f"{EM}:{name}")
        res.touch(f2)
        t, why = nt.returns_tainted(f2, frozenset(params))
        res.ob(R, not t, f2.qualname, f"return value NaN-free with {sorted(params)} possibly NaN", f"NaN can reach the returned PAFs: {'; '.join(why[:2])}", f2.where, derivation={"why": why})
    # make_pafs alone IS expected to produce NaN (0/0): the taint engine must see that source, else the scrub obligation is vacuous
    mp = prog.func(f"{EM}:make_pafs")
    t, why = nt.returns_tainted(mp, frozenset())
    res.ob(R, t, mp.qualname, "0/0 of a zero-length edge is recognised as a NaN source (positive control)",
           "the analysis no longer sees the division by the edge norm as a NaN source: the scrub obligation would pass vacuously", mp.where,
           sample={"div_sources": nt.div_sources[:3]})
    # the scrub fills with 0
    for st in walk_function(fi.node):
        if isinstance(st, ast.Assign) and isinstance(st.targets[0], ast.Subscript) and "isnan" in norm(st.targets[0].slice):
            res.ob(R, astq.const_value(st.value) == 0, fi.qualname, "NaN entries become 0", f"NaN entries are replaced by `{short(st.value, 20)}`", f"{fi.module.relpath}:{st.lineno}")
    # PartAffinityFieldsGenerator
    it = prog.cls(f"{EM}:PartAffinityFieldsGenerator").methods.get("__iter__")
    res.touch(it)
    states, sg, cfg = nt.run(it, frozenset({"ex", "instances"}))
    for n, T in states.items():
        a = cfg.nodes[n].ast
        if cfg.nodes[n].kind == "stmt" and isinstance(a, ast.Assign) and isinstance(a.targets[0], ast.Subscript) and "part_affinity_fields" in norm(a.targets[0].slice):
            res.ob(R, not nt.tainted(it, a.value, frozenset(T - {"pafs"}) if "pafs" not in T else T, sg), it.qualname, "stored PAFs are NaN-free",
                   "the DataPipe block stores PAFs that may contain NaN", f"{it.module.relpath}:{a.lineno}")
    res.extra["nan_div_sources"] = nt.div_sources
    res.floor(R, 6)


def check_sum(prog: Program, res: Result) -> None:
    R = "C05-sum"
    fi = prog.func(f"{EM}:make_multi_pafs")
    rets = [n for n in walk_function(fi.node) if isinstance(n, ast.Return)]
    acc = norm(rets[0].value) if len(rets) == 1 and isinstance(rets[0].value, ast.Name) else None
    res.ob(R, acc is not None, fi.qualname, "returns the accumulator", "make_multi_pafs does not return its accumulator", fi.where)
    if acc is None:
        return
    defs = astq.assignments_to(fi.node, acc)
    init = [s for s in defs if isinstance(s, ast.Assign)]
    upd = [s for s in defs if isinstance(s, ast.AugAssign)]
    ok = len(init) == 1 and not astq.enclosing_loops(init[0]) and isinstance(init[0].value, ast.Call) and norm(init[0].value.func) == "torch.zeros"
    res.ob(R, ok, fi.qualname, "accumulator starts as zeros", f"the accumulator starts as `{short(init[0].value, 40) if init else '?'}`", fi.where)
    ok = len(upd) == 1 and isinstance(upd[0].op, ast.Add) and len(astq.enclosing_loops(upd[0])) == 1
    res.ob(R, ok, fi.qualname, "fields of several animals add (+=, once per instance)",
           f"the accumulator is updated by `{short(upd[0], 40) if upd else 'nothing'}`: fields of several animals no longer add", fi.where, sample=short(upd[0], 50) if upd else None)
    if ok:
        lp = astq.enclosing_loops(upd[0])[0]
        le = astq.loop_elems(lp, fi.node) if isinstance(lp, ast.For) else None
        seqs = [norm(le.seq)] + [norm(s_) for s_, _ in le.extra] if le is not None else []
        okl = le is not None and "edge_sources" in seqs
        res.ob(R, okl, fi.qualname, "one pass per instance", f"the loop iterates `{short(lp.iter, 40)}`", fi.where)
        calls = [c for c in ast.walk(lp) if isinstance(c, ast.Call) and prog.resolve_call(fi, c) == f"{EM}:make_pafs"]
        ok2 = len(calls) == 1 and le is not None
        if ok2:
            mp = prog.func(f"{EM}:make_pafs")
            b = astq.bind_args(mp, calls[0])
            keep = [n for n in [le.elem] + [nm for _, nm in le.extra] if n]
            srcd = astq.expand(fi.node, b.get("edge_source"), keep=keep)
            dstd = astq.expand(fi.node, b.get("edge_destination"), keep=keep)
            src_seq = ast.Name("edge_sources", ast.Load())
            dst_seq = ast.Name("edge_destinations", ast.Load())
            ok2 = srcd is not None and dstd is not None and le.is_elem(srcd, src_seq) and le.is_elem(dstd, dst_seq)
        res.ob(R, ok2, fi.qualname, "instance i contributes make_pafs(sources[i], destinations[i])", "the per-instance field is not built from that instance's own sources and destinations", fi.where)
    res.floor(R, 4)


def check_range(prog: Program, res: Result) -> None:
    R = "C05-range"
    fi = prog.func(f"{UT}:gaussian_pdf")
    res.touch(fi)
    sg = S.Sign(fi.node, {"sigma": S.POS})
    rets = [n for n in walk_function(fi.node) if isinstance(n, ast.Return)]
    s = sg.of(rets[0].value) if rets else S.TOP
    res.ob(R, s == S.UNIT, fi.qualname, "weight in [0,1] for sigma>0", f"the abstract range of gaussian_pdf is {s}", fi.where, sample={"expr": short(rets[0].value, 60) if rets else None})
    me = prog.func(f"{EM}:make_edge_maps")
    res.touch(me)
    calls = [c for c, q in prog.calls_in(me) if q == fi.qualname]
    ok = len(calls) == 1
    if ok:
        b = astq.bind_args(fi, calls[0])
        d = astq.deref(me.node, b.get("x"))
        ok = isinstance(d, ast.Call) and prog.resolve_call(me, d) == f"{EM}:distance_to_edge" and norm(b.get("sigma")) == "sigma"
    res.ob(R, ok, me.qualname, "weight = gaussian_pdf(distance_to_edge(grid, src, dst), sigma)", "the edge weight is not the Gaussian of the distance to the edge", me.where)
    de = prog.func(f"{EM}:distance_to_edge")
    res.touch(de)
    cl = [c for c in walk_function(de.node) if isinstance(c, ast.Call) and norm(c.func) in ("torch.clamp", "torch.clip")]
    ok = len(cl) == 1 and astq.const_value(astq.call_arg(cl[0], 1, "min")) == 0 and astq.const_value(astq.call_arg(cl[0], 2, "max")) == 1
    res.ob(R, ok, de.qualname, "projection clamped to the segment [0, 1]", "the projection onto the edge is not clamped to [0,1] (weight 1 beyond the endpoints)", de.where)
    rets = [n for n in walk_function(de.node) if isinstance(n, ast.Return)]
    sg2 = S.Sign(de.node, {})
    s2 = sg2.of(rets[0].value) if rets else S.TOP
    res.ob(R, s2 in (S.NONNEG, S.UNIT, S.PUNIT, S.POS, S.ZERO), de.qualname, "squared distance is non-negative", f"distance_to_edge returns a value of abstract sign {s2}", de.where)
    sgd = S.Sign(de.node, {})
    divs = [n for n in walk_function(de.node) if isinstance(n, ast.BinOp) and isinstance(n.op, ast.Div)]
    res.ob(R, len(divs) >= 1, de.qualname, "the projection is a quotient", "no division found in distance_to_edge", de.where)
    for dv in divs:
        sd = sgd.of(dv.right)
        res.ob(R, S.is_pos(sd), de.qualname, f"denominator `{short(dv.right, 40)}` is bounded away from 0",
               f"the denominator `{short(dv.right, 50)}` has abstract sign {sd}: the squared edge length used as a denominator can be 0 (coincident nodes give NaN/inf weights)",
               f"{de.module.relpath}:{dv.lineno}")
    res.floor(R, 5)


def check_dir(prog: Program, res: Result) -> None:
    R = "C05-dir"
    fi = prog.func(f"{EM}:make_pafs")
    res.touch(fi)
    # read the returned field after expansion: (unsqueeze(W, -1) * expand_to_rank(U, 4)).permute(2, 3, 0, 1) with
    # W = make_edge_maps(...) and U = D / norm(D, dim=-1, keepdim=True), D = edge_destination - edge_source
    rets_ = [n for n in walk_function(fi.node) if isinstance(n, ast.Return) and n.value is not None]
    full = astq.expand_at(fi.node, rets_[0].value, rets_[0]) if len(rets_) == 1 else None
    ok_layout = isinstance(full, ast.Call) and isinstance(full.func, ast.Attribute) and full.func.attr == "permute" and [astq.const_value(a) for a in full.args] == [2, 3, 0, 1]
    prod = full.func.value if ok_layout else None
    ok_prod = isinstance(prod, ast.BinOp) and isinstance(prod.op, ast.Mult)
    U = W = None
    if ok_prod:
        for side in (prod.left, prod.right):
            if "make_edge_maps(" in norm(side):
                W = side
            else:
                U = side
    ok_u = False
    if U is not None:
        u = U
        if isinstance(u, ast.Call) and norm(u.func).split(".")[-1] == "expand_to_rank" and u.args:
            u = u.args[0]
        if isinstance(u, ast.BinOp) and isinstance(u.op, ast.Div) and norm(u.left) == "edge_destination - edge_source":
            nr = u.right
            if isinstance(nr, ast.Call) and norm(nr.func).split(".")[-1] == "norm":
                arg0 = nr.args[0] if nr.args else (nr.func.value if isinstance(nr.func, ast.Attribute) else None)
                if isinstance(nr.func, ast.Attribute) and norm(nr.func.value) not in ("torch", "torch.linalg"):
                    arg0 = nr.func.value
                kw = {k.arg: astq.const_value(k.value) for k in nr.keywords}
                ok_u = arg0 is not None and norm(arg0) == "edge_destination - edge_source" and kw.get("dim") in (-1,) and kw.get("keepdim") is True
    res.ob(R, ok_u, fi.qualname, "unit vector = (destination - source) / its norm over the coordinate axis",
           "the direction is not (edge_destination - edge_source) normalised over the last axis: the field points the wrong way or is not unit length", fi.where,
           sample=short(U, 90) if U is not None else None)
    ok_w = W is not None and "unsqueeze" in norm(W)
    res.ob(R, ok_layout and ok_prod and ok_w and U is not None, fi.qualname, "field = weight * unit vector, laid out as (edges, 2, H, W)",
           "the PAF is not weight x unit-vector permuted to (edges, xy, height, width)", fi.where)
    mk = [c for c, q in prog.calls_in(fi) if q == f"{EM}:make_edge_maps"]
    ok = len(mk) == 1 and {k_: norm(v_) for k_, v_ in astq.bind_args(prog.func(f"{EM}:make_edge_maps"), mk[0]).items()} == {"xv": "xv", "yv": "yv", "edge_source": "edge_source", "edge_destination": "edge_destination", "sigma": "sigma"}
    res.ob(R, ok, fi.qualname, "weight computed for the same source/destination", "make_edge_maps is not called with the same grid, source and destination", fi.where)
    ge = prog.func(f"{EM}:get_edge_points")
    res.touch(ge)
    rets = [n for n in walk_function(ge.node) if isinstance(n, ast.Return) and isinstance(n.value, ast.Tuple) and len(n.value.elts) == 2]
    d = [norm(astq.strip_device(astq.expand_at(ge.node, e, rets[0]))) for e in rets[0].value.elts] if len(rets) == 1 else []
    import re as _re
    strip = lambda t: _re.sub(r"\.(to\(torch\.int(32|64)\)|long\(\)|int\(\))", "", t)
    ok = len(d) == 2 and strip(d[0]) == "instances[:, edge_inds[:, 0]]" and strip(d[1]) == "instances[:, edge_inds[:, 1]]"
    res.ob(R, ok, ge.qualname, "sources = column 0 of edge_inds, destinations = column 1", "get_edge_points swaps or mis-indexes sources and destinations", ge.where, sample=d)
    # edge map grid: meshgrid(yv, xv, 'ij') stacked as (xx, yy)
    me = prog.func(f"{EM}:make_edge_maps")
    res.touch(me)
    dc = [c for c, q in prog.calls_in(me) if q == f"{EM}:distance_to_edge"]
    ok = False
    if len(dc) == 1:
        g = astq.bind_args(prog.func(f"{EM}:distance_to_edge"), dc[0]).get("points")
        g = astq.expand_at(me.node, g, dc[0], unpack_calls=True) if g is not None else None
        ok = _grid_is_xy(g, me.params[0], me.params[1])
    res.ob(R, ok, me.qualname, "sampling grid is (x, y) per cell, rows = y", "the sampling grid mixes up x and y", me.where)
    # generate_pafs: flatten (edges, 2, H, W) -> (edges*2, H, W)
    for q in (f"{EM}:generate_pafs", f"{EM}:PartAffinityFieldsGenerator.__iter__"):
        g = prog.func(q)
        res.touch(g)
        rs = []
        for c in walk_function(g.node):
            if isinstance(c, ast.Call) and isinstance(c.func, ast.Attribute) and c.func.attr in ("reshape", "view", "flatten") and isinstance(c.func.value, ast.Name):
                srcx = astq.expand_at(g.node, c.func.value, enclosing_stmt(c))
                if isinstance(srcx, ast.Call) and norm(srcx.func).split(".")[-1] == "make_multi_pafs":   # what is flattened is the make_multi_pafs result itself
                    rs.append(c)
        ok = len(rs) == 1 and _flattens_edge_major(g.node, rs[0])
        res.ob(R, ok, g.qualname, "channels flattened edge-major (edge0.x, edge0.y, edge1.x, ...)", "the (edges, 2) axes are not flattened as edges*2", g.where)
        # every field handed out went through that flatten step: one place produces the result (a second store / return, e.g. a
        # shortcut for frames without animals, hands out the unflattened (edges, 2, H, W) layout when flatten_channels is on)
        outs = [s_ for s_ in walk_function(g.node) if isinstance(s_, ast.Assign) and isinstance(s_.targets[0], ast.Subscript) and astq.const_value(s_.targets[0].slice) == "part_affinity_fields"] \
            + [r_ for r_ in walk_function(g.node) if isinstance(r_, ast.Return) and r_.value is not None]
        from ..core.cfg import CFG as _CFG
        cfg_ = _CFG(g.node)
        tests_ = {n_ for t_ in walk_function(g.node) if isinstance(t_, (ast.If, ast.IfExp)) and "flatten_channels" in norm(t_.test)
                  for n_ in (cfg_.nodes_of(t_) if isinstance(t_, ast.If) else cfg_.stmt_nodes_containing(t_))}
        for o_ in outs:
            w_ = cfg_.must_pass([cfg_.entry], cfg_.nodes_of(o_), tests_)
            res.ob(R, w_ is None, g.qualname, "the fields are handed out only after the flatten_channels decision",
                   f"`{short(o_, 50)}` hands out part affinity fields on a path that never consults flatten_channels ({cfg_.path_str(w_) if w_ else ''}): with flatten_channels on, "
                   "that path returns the (edges, 2, H, W) layout", f"{g.module.relpath}:{o_.lineno}")
        mm = [c for c, qq in prog.calls_in(g) if qq == f"{EM}:make_multi_pafs"]
        gp = [c for c, qq in prog.calls_in(g) if qq == f"{EM}:get_edge_points"]
        ok = len(mm) == 1 and len(gp) == 1
        if ok:
            st = enclosing_stmt(gp[0])
            names = [norm(e) for e in st.targets[0].elts] if isinstance(st.targets[0], ast.Tuple) else []
            kw = {k.arg: norm(k.value) for k in mm[0].keywords}
            ok = len(names) == 2 and kw.get("edge_sources") == names[0] and kw.get("edge_destinations") == names[1] and "source" in names[0] and "dest" in names[1]
        res.ob(R, ok, g.qualname, "sources/destinations passed on unswapped", "edge sources and destinations are swapped between get_edge_points and make_multi_pafs", g.where)
    res.floor(R, 8)


def _strip_calls(e: ast.AST, names=("view", "reshape", "to", "float", "unsqueeze")) -> ast.AST:
    while isinstance(e, ast.Call) and isinstance(e.func, ast.Attribute) and e.func.attr in names:
        e = e.func.value
    return e


def _reduction(e: ast.AST, which: str):
    """(operand, axis) if e is `operand.<which>(dim=k)` / torch.<which>(operand, dim=k)."""
    if isinstance(e, ast.Call) and isinstance(e.func, ast.Attribute) and e.func.attr == which:
        if norm(e.func.value) in ("torch", "np"):
            opnd, rest = (e.args[0], e.args[1:]) if e.args else (None, [])
        else:
            opnd, rest = e.func.value, e.args
        ax = astq.const_value(rest[0]) if rest else None
        for k in e.keywords:
            if k.arg in ("dim", "axis"):
                ax = astq.const_value(k.value)
        return opnd, ax
    return None, None


def check_inimg(prog: Program, res: Result) -> None:
    """The in-image filter keeps an animal iff some node lies strictly inside (0, last grid x) x (0, last grid y):
    instances[M] with M = ((P > 0) & (P < stack([xv[-1], yv[-1]]))).all(over x,y).any(over nodes), however it is spelled
    (named intermediates, re-bound names, helper functions are expanded first)."""
    R = "C05-inimg"
    for q in (f"{EM}:generate_pafs", f"{EM}:PartAffinityFieldsGenerator.__iter__"):
        g = prog.func(q)
        res.touch(g)
        sels = []
        for st in walk_function(g.node):
            if isinstance(st, ast.Assign) and isinstance(st.value, ast.Subscript) and not isinstance(st.value.slice, (ast.Slice, ast.Tuple, ast.Constant)):
                base_names = [n_.id for n_ in ast.walk(st.value.value) if isinstance(n_, ast.Name)]
                m = astq.expand_at(g.node, st.value.slice, st, keep=base_names)
                if "xv[-1]" in norm(m) or "yv[-1]" in norm(m):
                    sels.append((st, m))
        res.ob(R, len(sels) == 1, g.qualname, "only in-image animals reach the edge points", f"{len(sels)} in-image selections of the instances: instances are not filtered by the in-image mask", g.where)
        for st, m in sels:
            pts = norm(st.value.value)
            where = f"{g.module.relpath}:{st.lineno}"
            # the filtered animals are the ones the edge points are taken from
            tname = norm(st.targets[0])
            gep = [c_ for c_ in walk_function(g.node) if isinstance(c_, ast.Call) and norm(c_.func).split(".")[-1] == "get_edge_points" and c_.args]
            okuse = bool(gep) and all(norm(c_.args[0]) == tname and c_.lineno > st.lineno for c_ in gep)
            res.ob(R, okuse, g.qualname, "the filtered animals are the ones whose edges are drawn", f"`{short(st, 60)}`: get_edge_points does not receive the filtered animals", where)
            inner, ax_any = _reduction(m, "any")
            inner2, ax_all = _reduction(inner, "all") if inner is not None else (None, None)
            res.ob(R, inner2 is not None and ax_any == 1 and ax_all in (-1, 2), g.qualname, "animal kept iff some node is strictly inside: all over (x, y), any over nodes",
                   f"the in-image mask is `{short(m, 90)}`: not all-over-coordinates then any-over-nodes", where)
            conj = inner2
            while isinstance(conj, ast.Call):
                conj = _strip_calls(conj)
                break
            parts = [conj.left, conj.right] if isinstance(conj, ast.BinOp) and isinstance(conj.op, ast.BitAnd) else []
            lower = upper = None
            for c in parts:
                if isinstance(c, ast.Compare) and len(c.ops) == 1:
                    l, o, r = c.left, c.ops[0], c.comparators[0]
                    if isinstance(o, ast.Lt):
                        l, r, o = r, l, ast.Gt()
                    if isinstance(o, ast.Gt):
                        if norm(l) == pts and astq.const_value(r) == 0:
                            lower = c
                        elif norm(r) == pts:
                            upper = l
            res.ob(R, lower is not None and upper is not None, g.qualname, "strictly inside: P > 0 and P < extent",
                   f"the in-image mask is `{short(m, 90)}`: not (P > 0) & (P < extent)", where)
            ext = _strip_calls(upper) if upper is not None else None
            order = [norm(e_) for e_ in ext.args[0].elts] if isinstance(ext, ast.Call) and norm(ext.func).split(".")[-1] in ("stack", "tensor", "as_tensor") and ext.args and isinstance(ext.args[0], (ast.List, ast.Tuple)) else []
            res.ob(R, order == ["xv[-1]", "yv[-1]"], g.qualname, "extent = (last grid x, last grid y), matching the (x, y) order of keypoints",
                   f"the in-image extent is built as {order}: x coordinates are compared with the grid HEIGHT (animals near the border of a non-square image are kept/dropped wrongly)",
                   where, sample={"extent": order})
    res.floor(R, 8)


def check_call(prog: Program, res: Result) -> None:
    R = "C05-call"
    n = 0
    gp = prog.func(f"{EM}:generate_pafs")
    for fi in prog.all_functions():
        for c, q in prog.calls_in(fi):
            if q == gp.qualname:
                b = astq.bind_args(gp, c)
            elif q == f"{EM}:PartAffinityFieldsGenerator":
                b = astq.bind_args(prog.cls(q).methods["__init__"], c, skip_self=True)
            else:
                continue
            n += 1
            res.touch(fi)
            fc = b.get("flatten_channels")
            res.ob(R, isinstance(fc, ast.Constant) and fc.value is True, fi.qualname, "flatten_channels=True", f"flatten_channels={short(fc, 10) if fc is not None else 'default False'}: "
                   "the target no longer has 2*edges channels like the PAF head", f"{fi.module.relpath}:{c.lineno}")
            sg, st = b.get("sigma"), b.get("output_stride")
            ok = isinstance(sg, ast.Attribute) and isinstance(st, ast.Attribute) and sg.attr == "sigma" and st.attr == "output_stride" and norm(sg.value) == norm(st.value) and "paf" in norm(sg.value).lower()
            res.ob(R, ok, fi.qualname, f"sigma/output_stride of the PAF head ({short(sg.value, 30) if isinstance(sg, ast.Attribute) else '?'})",
                   f"PAF targets are generated with sigma=`{short(sg, 40) if sg is not None else 'default'}`, output_stride=`{short(st, 40) if st is not None else 'default'}`: not the PAF head's own values",
                   f"{fi.module.relpath}:{c.lineno}")
            ei = b.get("edge_inds")
            res.ob(R, ei is not None and "edge_inds" in norm(ei) and norm(ei).startswith("torch.Tensor("), fi.qualname, "edge_inds of the skeleton", f"edge_inds=`{short(ei, 40) if ei is not None else 'default None'}`",
                   f"{fi.module.relpath}:{c.lineno}")
    res.ob(R, n >= 3, f"{EM}", "dataset/streaming/pipeline call sites found", f"only {n} call sites of generate_pafs/PartAffinityFieldsGenerator", "")
    res.floor(R, 9)


def check(prog: Program, res: Result) -> None:
    from . import _batch
    _batch.check_every_iteration_accumulates(prog, res, "C05-sum", ["sleap_nn.data.edge_maps:make_multi_pafs"])
    from . import _edges
    _edges.check_edge_order(prog, res, "C05-edges")
    check_nan(prog, res)
    check_sum(prog, res)
    check_range(prog, res)
    check_dir(prog, res)
    check_inimg(prog, res)
    check_call(prog, res)
    from . import c01
    res.borrow(c01.check_grid, "C05-grid", prog)
    res.assumptions += ["sigma > 0", "monotonicity of the weight, the channel numbering is not decided"]


F = "sleap_nn/data/edge_maps.py"
VARIANTS = [
    Variant("scrub-removed", F, "        paf[torch.isnan(paf)] = 0.0\n\n", "", "C05-nan"),
    Variant("scrub-after-sum", F, "        paf[torch.isnan(paf)] = 0.0\n\n        pafs += paf\n", "        pafs += paf\n        paf[torch.isnan(paf)] = 0.0\n", "C05-nan"),
    Variant("scrub-wrong-array", F, "        paf[torch.isnan(paf)] = 0.0\n", "        paf[torch.isnan(pafs)] = 0.0\n", "C05-nan"),
    Variant("sum-to-max", F, "        pafs += paf\n", "        pafs = torch.maximum(pafs, paf)\n", "C05-sum"),
    Variant("bp-sum-enumerate", F, "    for i in range(n_instances):\n        edge_source = edge_sources[i, :]", "    for i, edge_source in enumerate(edge_sources):", None),
    Variant("bp-sum-zip", F, "    for i in range(n_instances):\n        edge_source = edge_sources[i, :]\n        edge_destination = edge_destinations[i, :]", "    for edge_source, edge_destination in zip(edge_sources, edge_destinations):", None),
    Variant("sum-wrong-destination", F, "        edge_destination = edge_destinations[i, :]", "        edge_destination = edge_destinations[0, :]", "C05-sum"),
    Variant("range-no-square", "sleap_nn/data/utils.py", "    return torch.exp(-(x**2) / (2 * sigma**2))", "    return torch.exp(-(x) / (2 * sigma**2))", "C05-range"),
    Variant("dir-reversed", F, "    unit_vectors = edge_destination - edge_source\n", "    unit_vectors = edge_source - edge_destination\n", "C05-dir"),
    Variant("dir-src-dst-cols", F, "    source_inds = edge_inds[:, 0].to(torch.int32)\n    destination_inds = edge_inds[:, 1].to(torch.int32)", "    source_inds = edge_inds[:, 1].to(torch.int32)\n    destination_inds = edge_inds[:, 0].to(torch.int32)", "C05-dir"),
    Variant("dir-no-clamp", F, "    line_projections = torch.clamp(line_projections, min=0, max=1)\n", "", "C05-range"),
    Variant("call-confmap-sigma", "sleap_nn/data/streaming_datasets.py", "            sigma=self.pafs_head.sigma,", "            sigma=self.confmap_head.sigma,", "C05-call"),
    Variant("call-no-flatten", "sleap_nn/data/custom_datasets.py", "            edge_inds=torch.Tensor(self.edge_inds),\n            flatten_channels=True,", "            edge_inds=torch.Tensor(self.edge_inds),\n            flatten_channels=False,", "C05-call"),
    Variant("inimg-extent-swapped", F, "    in_img = (instances > 0) & (instances < torch.stack([xv[-1], yv[-1]]).view(1, 1, 2))", "    in_img = (instances > 0) & (instances < torch.stack([yv[-1], xv[-1]]).view(1, 1, 2))", "C05-inimg"),
    Variant("bp-nan-to-num", F, "        paf[torch.isnan(paf)] = 0.0\n", "        paf = torch.nan_to_num(paf)\n", None),
]
