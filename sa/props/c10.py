"""C10 — identity continuity: only the structural clause 'a newcomer receives an identity no
other animal has held, and the score matrix is addressed by that identity' is decided."""

from __future__ import annotations

import ast

from ..core import astq
from ..core.program import AnalysisError, Program, norm, short, walk_function
from ..report import Result
from ..runner import Variant
from . import c09

PROP = "C10"
EXPLANATION = (
    "Only one clause of C10 is structural and is decided: a newcomer's identity is fresh and the association scores "
    "are addressed by identity. (alloc) as in C09: new id = 0 or max(current_tracks)+1, registered in the same "
    "iteration, current_tracks never shrinks - hence ids are exactly 0..n-1 and never reused; (col) get_scores "
    "allocates len(current_instances) x len(self.candidate.current_tracks) scores, fills scores[i][track_id] for "
    "track_id ranging over self.candidate.current_tracks, the cost matrix is its negation, and update_tracks stores "
    "the matched COLUMN index as the track id - which is the identity only because ids are exactly the column "
    "numbers. Continuity of identity across frames depends on numerical scores and on the matcher and is NOT decided."
)
TRUSTED = ["CPython ast", "networkx reachability"]
TRK = c09.TRK


def check_col(prog: Program, res: Result) -> None:
    ci = prog.cls(TRK)
    gs = ci.methods.get("get_scores")
    if gs is None:
        raise AnalysisError("Tracker.get_scores vanished")
    res.touch(gs)
    allocs = [st for st in walk_function(gs.node) if isinstance(st, ast.Assign) and isinstance(st.value, ast.Call)
              and norm(st.value.func) in ("np.zeros", "np.full", "np.empty", "numpy.zeros") and isinstance(st.targets[0], ast.Name)]
    res.ob("C10-col", len(allocs) == 1, gs.qualname, "one score matrix allocation", f"{len(allocs)} score matrix allocations", gs.where)
    if len(allocs) != 1:
        return
    mat = allocs[0].targets[0].id
    shape = allocs[0].value.args[0] if allocs[0].value.args else None
    ok = isinstance(shape, ast.Tuple) and len(shape.elts) == 2 and astq.xnorm(gs.node, shape.elts[1]) == "len(self.candidate.current_tracks)"
    res.ob("C10-col", ok, gs.qualname, "one column per registered track id",
           f"the score matrix has shape {short(shape, 60) if shape is not None else '?'}: its columns are not the registered track ids",
           f"{gs.module.relpath}:{allocs[0].lineno}", sample={"shape": short(shape, 80) if shape is not None else None})
    rows_ok = isinstance(shape, ast.Tuple) and len(shape.elts) == 2 and norm(shape.elts[0]).startswith("len(")
    res.ob("C10-col", rows_ok, gs.qualname, "one row per current detection", "rows of the score matrix are not the current detections", gs.where)
    stores = []
    for st in walk_function(gs.node):
        if isinstance(st, ast.Assign) and isinstance(st.targets[0], ast.Subscript):
            # the stored-into object, seen through row views:  row = scores[i]; row[j] = v  is  scores[i][j] = v
            tx = ast.Subscript(value=astq.expand_at(gs.node, st.targets[0].value, st, keep=[mat]), slice=st.targets[0].slice, ctx=ast.Load())
            if mat in astq.names_in(tx) and astq.attr_base(tx) == mat:
                stores.append((st, tx))
    res.ob("C10-col", len(stores) >= 1, gs.qualname, "scores are stored", "no store into the score matrix", gs.where)
    for st, t in stores:
        idx = []
        cur = t
        while isinstance(cur, ast.Subscript):
            s = cur.slice
            idx = ([*s.elts] if isinstance(s, ast.Tuple) else [s]) + idx
            cur = cur.value
        col = idx[-1] if idx else None
        loops = astq.enclosing_loops(st)
        vloops = astq.virtual_loops(st)
        col_loop = [(t_, it_) for t_, it_, _ in vloops if col is not None and norm(t_) == norm(col)]
        ok = bool(col_loop) and astq.xnorm(gs.node, col_loop[0][1]) == "self.candidate.current_tracks"
        res.ob("C10-col", ok, gs.qualname, f"column index `{short(col, 20) if col is not None else '?'}` ranges over the track ids",
               f"the column index of `{short(t, 40)}` does not range over self.candidate.current_tracks", f"{gs.module.relpath}:{st.lineno}")
        row = idx[0] if len(idx) == 2 else None
        row_loop = [(t_, it_) for t_, it_, _ in vloops if isinstance(row, ast.Name) and row.id in astq.target_names(t_)]
        res.ob("C10-col", bool(row_loop) and norm(row_loop[0][1]).startswith("enumerate(") and isinstance(row_loop[0][0], ast.Tuple) and norm(row_loop[0][0].elts[0]) == norm(row),
               gs.qualname, "row index enumerates the detections",
               "the row index does not enumerate the current detections", f"{gs.module.relpath}:{st.lineno}")
        # the features scored against are those of that very track
        reads = [n for n in ast.walk(loops[0]) if isinstance(n, ast.Subscript) and norm(n.value) == "candidates_feature_dict"] if loops else []
        res.ob("C10-col", bool(reads) and all(col is not None and norm(r.slice) == norm(col) for r in reads), gs.qualname,
               "scores of column j come from the features of track j", "the features compared are not those of the column's track id",
               f"{gs.module.relpath}:{st.lineno}")
    # cost matrix is the negated scores
    sc = ci.methods.get("scores_to_cost_matrix")
    if sc is not None:
        neg = [st for st in walk_function(sc.node) if isinstance(st, ast.Assign) and isinstance(st.value, ast.UnaryOp) and isinstance(st.value.op, ast.USub)
               and norm(st.value.operand) == "scores"]
        res.ob("C10-col", len(neg) == 1, sc.qualname, "cost = -scores (best score = least cost)", "the cost matrix is not the negated score matrix", sc.where)
    # matched column index is stored as the track id
    for cq in c09.CANDS:
        u = prog.cls(cq).methods.get("update_tracks")
        if u is None:
            raise AnalysisError(f"{cq}.update_tracks vanished")
        res.touch(u)
        zips = [n for n in walk_function(u.node) if isinstance(n, ast.For) and "zip(row_inds, col_inds)" in norm(n.iter)]
        ok = False
        for z in zips:
            names = [e.id for e in ast.walk(z.target) if isinstance(e, ast.Name)]
            if len(names) >= 2:
                rown, coln = names[-2], names[-1]
                for st in ast.walk(z):
                    if isinstance(st, ast.Assign) and isinstance(st.targets[0], ast.Attribute) and st.targets[0].attr == "track_id" and norm(st.value) == coln:
                        # the object written: current_instances[row], possibly through a named intermediate
                        obj = astq.expand_at(u.node, st.targets[0].value, st, keep=[rown, coln])
                        if isinstance(obj, ast.Subscript) and norm(obj.slice) == rown:
                            ok = True
                    # ... or the track-id list of the frame's instances, at the matched row: instances.track_ids[row] = col
                    if isinstance(st, ast.Assign) and isinstance(st.targets[0], ast.Subscript) and norm(st.value) == coln and norm(st.targets[0].slice) == rown:
                        arr = astq.expand_at(u.node, st.targets[0].value, st, keep=[rown, coln])
                        if isinstance(arr, ast.Attribute) and arr.attr == "track_ids":
                            ok = True
        res.ob("C10-col", ok, u.qualname, "matched (row, col) -> instance[row].track_id = col",
               "the matched column index is not stored as the track id of the matched row's instance", u.where)
    res.floor("C10-col", 9)


def _pair_eval(e: ast.AST, env: dict):
    """Abstract value of an expression in hungarian_matching:
    ('mat', transposed) the cost matrix | ('idx', axis, perms) assignment indices along `axis` re-ordered by `perms`
    | ('perm', text) an index permutation | ('pairs', a0, a1) result tuple of the solver | None unknown."""
    if isinstance(e, ast.Name):
        return env.get(e.id)
    if isinstance(e, ast.Attribute) and e.attr == "T":
        v = _pair_eval(e.value, env)
        return ("mat", not v[1]) if v and v[0] == "mat" else None
    if isinstance(e, ast.Call):
        f = norm(e.func)
        last = f.split(".")[-1]
        if last in ("asarray", "array", "list", "tuple", "ascontiguousarray", "copy") and e.args:
            return _pair_eval(e.args[0], env)
        if isinstance(e.func, ast.Attribute) and e.func.attr in ("tolist", "copy", "astype"):
            return _pair_eval(e.func.value, env)
        if last == "transpose" and e.args:
            v = _pair_eval(e.args[0], env)
            return ("mat", not v[1]) if v and v[0] == "mat" else None
        if isinstance(e.func, ast.Attribute) and e.func.attr == "transpose" and not e.args:
            v = _pair_eval(e.func.value, env)
            return ("mat", not v[1]) if v and v[0] == "mat" else None
        if last == "linear_sum_assignment" and e.args:
            v = _pair_eval(e.args[0], env)
            if v and v[0] == "mat" and not any(k.arg == "maximize" and astq.const_value(k.value) is not False for k in e.keywords):
                a0, a1 = (1, 0) if v[1] else (0, 1)
                return ("pairs", ("idx", a0, ()), ("idx", a1, ()))
            return None
        if last == "argsort" and e.args:
            return ("perm", norm(e))
        return None
    if isinstance(e, ast.Subscript):
        v = _pair_eval(e.value, env)
        if v and v[0] == "pairs" and isinstance(astq.const_value(e.slice), int):
            return v[1 + astq.const_value(e.slice)] if astq.const_value(e.slice) in (0, 1) else None
        s = _pair_eval(e.slice, env)
        if v and v[0] == "idx" and s and s[0] == "perm":
            return ("idx", v[1], v[2] + (s[1],))
        return None
    if isinstance(e, ast.Tuple) and len(e.elts) == 2:
        a, b = _pair_eval(e.elts[0], env), _pair_eval(e.elts[1], env)
        if a and b and a[0] == "idx" and b[0] == "idx":
            return ("pairs", a, b)
    return None


def check_pair(prog: Program, res: Result) -> None:
    """hungarian_matching returns (row indices, column indices) of ONE solution, element k of the first paired with
    element k of the second: rows index axis 0 (detections) and columns axis 1 (track ids) of the matrix it was given."""
    from ..core.cfg import CFG
    R = "C10-pair"
    fi = prog.func("sleap_nn.tracking.utils:hungarian_matching")
    res.touch(fi)
    params = [a.arg for a in fi.node.args.args]
    cfg = CFG(fi.node)
    init = {params[0]: ("mat", False)} if params else {}

    def transfer(node, env):
        st = node.ast
        if node.kind != "stmt" or not isinstance(st, (ast.Assign, ast.AnnAssign, ast.AugAssign)):
            return env
        env = dict(env)
        if isinstance(st, ast.AugAssign):
            for n in astq.target_names(st.target):
                env[n] = None
            return env
        val = _pair_eval(st.value, env) if st.value is not None else None
        for t in (st.targets if isinstance(st, ast.Assign) else [st.target]):
            if isinstance(t, ast.Name):
                env[t.id] = val
            elif isinstance(t, (ast.Tuple, ast.List)) and len(t.elts) == 2 and val and val[0] == "pairs" and all(isinstance(x, ast.Name) for x in t.elts):
                env[t.elts[0].id], env[t.elts[1].id] = val[1], val[2]
            else:
                for n in astq.target_names(t):
                    env[n] = None
        return env

    def join(a, b):
        return {k: (a.get(k) if a.get(k) == b.get(k) else None) for k in set(a) | set(b)}

    IN = cfg.forward(init, transfer, join)
    rets = [n for n in cfg.nodes.values() if n.kind == "stmt" and isinstance(n.ast, ast.Return) and n.id in IN]
    res.ob(R, len(rets) >= 1, fi.qualname, "hungarian_matching returns", "no reachable return", fi.where)
    for n in rets:
        v = _pair_eval(n.ast.value, IN[n.id]) if n.ast.value is not None else None
        where = f"{fi.module.relpath}:{n.ast.lineno}"
        if v is None or v[0] != "pairs":
            raise AnalysisError(f"hungarian_matching: `{short(n.ast, 60)}` is not recognised as (rows, cols) of a linear_sum_assignment solution ({where})")
        a, b = v[1], v[2]
        res.ob(R, a[1] == 0 and b[1] == 1, fi.qualname, "first result indexes rows (detections), second columns (track ids)",
               f"`{short(n.ast, 60)}` returns indices of axis {a[1]} then axis {b[1]} of the cost matrix: callers read (detection, track id)", where)
        res.ob(R, a[2] == b[2], fi.qualname, "both index arrays are in the same order (element k pairs with element k)",
               f"`{short(n.ast, 60)}` re-orders its two index arrays differently ({list(a[2]) or 'as solved'} vs {list(b[2]) or 'as solved'}): "
               "the k-th row index is no longer matched to the k-th column index", where)
    res.floor(R, 3)


def check(prog: Program, res: Result) -> None:
    from . import _state as _st2
    _st2.check_no_stale_loop_var(prog, res, "C10-state", ["sleap_nn.tracking"])
    from . import _state
    _state.check_no_cross_call_state(prog, res, "C10-state", ["sleap_nn.tracking.tracker:Tracker.get_features", "sleap_nn.tracking.tracker:Tracker.update_candidates", "sleap_nn.tracking.tracker:Tracker.get_scores", "sleap_nn.tracking.tracker:Tracker.scores_to_cost_matrix", "sleap_nn.tracking.tracker:Tracker.assign_tracks", "sleap_nn.tracking.tracker:FlowShiftTracker.update_candidates", "sleap_nn.tracking.tracker:FlowShiftTracker.get_shifted_instances_from_prv_frames"], floor=7)
    from . import _parallel
    _parallel.check_parallel_index(prog, res, "C10-index")
    from . import _iou
    _iou.check_iou(prog, res, "C10-iou")
    c09.check_alloc(prog, res, rule="C10-alloc")
    check_col(prog, res)
    check_pair(prog, res)
    res.borrow(c09.check_truth, "C10-truth", prog)
    # a matched detection keeps the id it was matched to (only the UNMATCHED detections get a new one), the feature list is
    # aligned with the instances it was computed from, and the matched matrix is read at (row, col): each of these breaks
    # the continuity of an identity without breaking the count
    res.borrow(c09.check_unmatched, "C10-unmatched", prog)
    res.borrow(c09.check_features_aligned, "C10-align", prog)
    res.borrow(c09.check_matcher_axes, "C10-axes", prog)
    res.borrow(c09.check_pass, "C10-pass", prog)     # a frame enters the queue only with the tracks that were created for it
    from . import _nanred
    _nanred.check_nan_reductions(prog, res, "C10-nan", ["sleap_nn.tracking.utils:get_bbox", "sleap_nn.tracking.utils:get_centroid"], floor=3)
    from . import _match
    _match.check_greedy(prog, res, "C10-match")
    res.assumptions.append("identity continuity over histories (numerical scores, matcher optimality) is not decided")


TRF = c09.TRF
VARIANTS = [
    Variant("col-by-position", TRF, "                scores[f_idx][track_id] = oks", "                scores[f_idx][len(candidates_feature_dict[track_id])] = oks", "C10-col"),
    Variant("cols-active-only", TRF, "            (len(current_instances_features), len(self.candidate.current_tracks))\n        )",
            "            (len(current_instances_features), len(candidates_feature_dict))\n        )", "C10-col"),
    Variant("row-col-swapped", c09.FWF, "                current_instances.track_ids[row] = col\n", "                current_instances.track_ids[col] = row\n", "C10-col"),
    Variant("cost-not-negated", TRF, "        cost_matrix = -scores\n", "        cost_matrix = scores.copy()\n", "C10-col"),
    Variant("alloc-reuse", c09.LQF, "            new_track_id = max(self.current_tracks) + 1", "            new_track_id = len(self.tracker_queue)", "C10-alloc"),
    Variant("pair-transposed", "sleap_nn/tracking/utils.py", "    row_ids, col_ids = linear_sum_assignment(cost_matrix)\n    return row_ids, col_ids",
            "    col_ids, row_ids = linear_sum_assignment(cost_matrix.T)\n    order = np.argsort(row_ids)\n    return row_ids[order], col_ids", "C10-pair"),
    Variant("pair-swapped", "sleap_nn/tracking/utils.py", "    return row_ids, col_ids", "    return col_ids, row_ids", "C10-pair"),
    Variant("bp-pair-transposed-ok", "sleap_nn/tracking/utils.py", "    row_ids, col_ids = linear_sum_assignment(cost_matrix)\n    return row_ids, col_ids",
            "    col_ids, row_ids = linear_sum_assignment(np.asarray(cost_matrix).T)\n    order = np.argsort(row_ids)\n    return row_ids[order], col_ids[order]", None),
    Variant("bp-pair-direct", "sleap_nn/tracking/utils.py", "    row_ids, col_ids = linear_sum_assignment(cost_matrix)\n    return row_ids, col_ids",
            "    return linear_sum_assignment(cost_matrix)", None),
    Variant("bp-rename", TRF, "            for track_id in self.candidate.current_tracks:\n                oks = [", "            for track_id in self.candidate.current_tracks:\n                # scores of this track\n                oks = [", None),
]
