"""C19 — trainer artifacts never contain the API key; final config always saved.

Typestate (UNMASKED/MASKED) of the trainer's configuration object over the lifecycle
ModelTrainer.__init__ ; train, checked at every persistence sink; must-reach of the final
save; schema conformance of every configuration path the trainer touches.
"""

from __future__ import annotations

import ast
from typing import Dict, FrozenSet, List, Optional, Set, Tuple

from ..core import astq
from ..core.inline import clone
from ..core.cfg import CFG, Node
from ..core.program import enclosing_stmt, AnalysisError, FunctionInfo, Program, ancestors, norm, short, walk_function
from ..engines.schema import Schema, path_of
from ..report import Result
from ..runner import Variant

PROP = "C19"
EXPLANATION = (
    "Typestate analysis of the trainer's configuration object along ModelTrainer.__init__ ; train "
    "(callees on self inlined): states UNMASKED/MASKED, MASKED on a constant assignment to "
    "trainer_config.wandb.api_key (or on the None-branch of a guard on the stashed key), every "
    "persistence sink (OmegaConf.save/to_container/to_yaml of the config, the checkpoint written by "
    "trainer.fit through TrainingModel.on_save_checkpoint) must be reached in state MASKED only - a "
    "dominance fact, so it holds at every crash point between two writes. Plus: the stashed key is "
    "read only by wandb.login and its guard; the final save of training_config.yaml cuts every exit "
    "of train() after fit (exceptional edges of the finally prefix excluded, its config writes checked "
    "against the schema instead); chunk deletion sits in that finally; every self.config path read or "
    "written by the trainer and the Lightning module resolves in the attrs schema tree."
)
TRUSTED = [
    "CPython ast",
    "networkx reachability",
    "OmegaConf.save/to_container/to_yaml are the only ways the config object is serialised (enumerated sinks)",
    "Lightning calls on_save_checkpoint only from within trainer.fit",
]

TRAINER = "sleap_nn.training.model_trainer:ModelTrainer"
LMOD = "sleap_nn.training.lightning_modules:TrainingModel"
KEYPATH = ["trainer_config", "wandb", "api_key"]
U, M = "U", "M"
SER = {
    "omegaconf.OmegaConf.save": "file",
    "omegaconf.OmegaConf.to_container": "container",
    "omegaconf.OmegaConf.to_yaml": "yaml text",
    "omegaconf.OmegaConf.to_object": "container",
    "yaml.dump": "yaml",
    "yaml.safe_dump": "yaml",
    "json.dump": "json",
    "json.dumps": "json",
    "pickle.dump": "pickle",
    "torch.save": "torch.save",
}


def local_aliases(fn: ast.AST, roots: Dict[str, List[str]]) -> Dict[str, List[str]]:
    """name -> config path, for locals assigned exactly once from a pure config chain."""
    out: Dict[str, List[str]] = {}
    counts: Dict[str, int] = {}
    cands: Dict[str, List[str]] = {}
    for n in walk_function(fn):
        if isinstance(n, ast.stmt):
            for t in astq.stmt_targets(n):
                for nm in astq.target_names(t):
                    counts[nm] = counts.get(nm, 0) + 1
            if isinstance(n, ast.Assign) and len(n.targets) == 1 and isinstance(n.targets[0], ast.Name):
                r = path_of(n.value, roots)
                if r is not None and isinstance(n.value, (ast.Attribute, ast.Subscript)):
                    cands[n.targets[0].id] = r[1]
    for k, v in cands.items():
        if counts.get(k) == 1:
            out[k] = v
    return out


class KeyFlow:
    """Interprocedural typestate of the config w.r.t. the API key."""

    def __init__(self, prog: Program, res: Result):
        self.prog = prog
        self.res = res
        self.ci = prog.cls(TRAINER)
        self.memo: Dict[Tuple[str, FrozenSet[str]], FrozenSet[str]] = {}
        self.sinks_seen: Set[Tuple[str, str]] = set()
        self.ckpt_premise = self._checkpoint_premise()
        self.mask_sites = 0

    # -- premises for the checkpoint sink ---------------------------------
    def _checkpoint_premise(self) -> bool:
        prog = self.prog
        lm = prog.cls(LMOD)
        stores = False
        if "on_save_checkpoint" in lm.methods:
            for n in walk_function(lm.methods["on_save_checkpoint"].node):
                if isinstance(n, ast.Assign) and "self.config" in norm(n.value):
                    stores = True
        holds = False
        if "__init__" in lm.methods:
            for n in walk_function(lm.methods["__init__"].node):
                if isinstance(n, ast.Assign) and norm(n.targets[0]) == "self.config" and norm(n.value) == "config":
                    holds = True
        passes = False
        im = self.ci.methods.get("_initialize_model")
        if im is not None:
            for n in walk_function(im.node):
                if isinstance(n, ast.Call):
                    for k in n.keywords:
                        if k.arg == "config" and norm(k.value) == "self.config":
                            passes = True
        self.res.notes.append(
            f"checkpoint sink premises: on_save_checkpoint stores self.config={stores}, "
            f"TrainingModel holds the trainer's object={holds}, _initialize_model passes self.config={passes}"
        )
        return stores and holds and passes

    # -- event classification ---------------------------------------------
    def roots(self, fi: FunctionInfo) -> Dict[str, List[str]]:
        r = {"self.config": []}
        r.update(local_aliases(fi.node, r))
        return r

    def key_stashes(self) -> Set[str]:
        """Attributes / names that receive the key read from the config (e.g. self._wandb_api_key), directly, by copying
        another stash, or from a method of the class that returns it.  Attributes are listed as `self.x`, locals as
        `<function>::name` (a local of that name in another method is something else)."""
        if getattr(self, "_stashes", None) is not None:
            return self._stashes
        out: Set[str] = set()
        self._stashes = out
        self.returners: Set[str] = set()
        changed = True
        while changed:
            changed = False
            for fi in self.ci.methods.values():
                roots = self.roots(fi)
                for n in walk_function(fi.node):
                    if isinstance(n, ast.Assign) and len(n.targets) == 1 and isinstance(n.targets[0], (ast.Name, ast.Attribute)) and self.yields_key(fi, n.value, roots):
                        k = self.stash_key(fi, n.targets[0])
                        if k not in out:
                            out.add(k)
                            changed = True
                    if isinstance(n, ast.Return) and n.value is not None and self.yields_key(fi, n.value, roots) and fi.qualname not in self.returners:
                        self.returners.add(fi.qualname)
                        changed = True
        return out

    @staticmethod
    def stash_key(fi: FunctionInfo, t: ast.AST) -> str:
        return f"{fi.qualname}::{t.id}" if isinstance(t, ast.Name) else norm(t)

    def is_stash(self, fi: FunctionInfo, e: ast.AST) -> bool:
        return isinstance(e, (ast.Name, ast.Attribute)) and self.stash_key(fi, e) in self.key_stashes()

    def yields_key(self, fi: FunctionInfo, e: ast.AST, roots) -> bool:
        """`e` is exactly the key: a read of it from the config, a stash, or a call of a method that returns it."""
        if self.reads_key(fi, e, roots, top=True) or (isinstance(e, (ast.Name, ast.Attribute)) and self.stash_key(fi, e) in self._stashes):
            return True
        return isinstance(e, ast.Call) and self.prog.resolve_call(fi, e) in self.returners

    def reads_key(self, fi: FunctionInfo, e: ast.AST, roots, top: bool = False) -> bool:
        """Is `e` (exactly, if top) an expression that yields the API key?"""
        if isinstance(e, ast.Call) and self.prog.resolve_call(fi, e) == "omegaconf.OmegaConf.select":
            args = e.args
            if len(args) >= 2 and isinstance(args[1], ast.Constant) and str(args[1].value).split(".") == KEYPATH \
                    and norm(args[0]) in roots and roots[norm(args[0])] == []:
                return True
        if isinstance(e, (ast.Attribute, ast.Subscript)):
            r = path_of(e, roots)
            if r is not None and r[1] == KEYPATH:
                return True
        return False

    def transfer_stmt(self, fi: FunctionInfo, roots, st: ast.AST, state: FrozenSet[str], cfgnode: Node) -> FrozenSet[str]:
        res = self.res
        # sinks and calls first (evaluated before the assignment takes effect)
        for n in ([st] if not isinstance(st, ast.stmt) else list(ast.walk(st))):
            if isinstance(n, (ast.FunctionDef, ast.AsyncFunctionDef, ast.Lambda)) and n is not st:
                continue
            if isinstance(n, ast.Call):
                q = self.prog.resolve_call(fi, n)
                if q in SER:
                    cfg_arg = astq.call_arg(n, 0, "config") or (n.args[0] if n.args else None)
                    if cfg_arg is None:
                        continue
                    txt = norm(cfg_arg)
                    r = path_of(cfg_arg, roots) if isinstance(cfg_arg, (ast.Attribute, ast.Subscript, ast.Name)) else None
                    if isinstance(cfg_arg, ast.Name) and txt in roots:
                        r = (txt, roots[txt], False)
                    if r is not None and KEYPATH[: len(r[1])] == r[1][: len(KEYPATH)]:
                        self._sink(fi, n, f"{q.split('.')[-1]}({txt})", state)
                    elif txt == "config" and "config" in fi.params:
                        res.ob("C19-mask", False, fi.qualname, f"sink {short(n, 70)}",
                               "the raw, unverified `config` argument (which still holds the API key) is serialised",
                               f"{fi.module.relpath}:{n.lineno}")
                elif norm(n.func) == "self.trainer.fit" and self.ckpt_premise:
                    self._sink(fi, n, "checkpoint written by trainer.fit (on_save_checkpoint stores self.config)", state)
                elif q.startswith(TRAINER + "."):
                    callee = self.prog.functions.get(q)
                    if callee is not None and callee.cls is self.ci:
                        state = self.analyse(callee, state)
        # state changes
        if isinstance(st, (ast.Assign, ast.AnnAssign, ast.AugAssign)):
            targets = astq.stmt_targets(st)
            value = getattr(st, "value", None)
            for t in targets:
                if norm(t) == "self.config":
                    state = frozenset({U})
                    continue
                r = path_of(t, roots) if isinstance(t, (ast.Attribute, ast.Subscript)) else None
                if r is None:
                    continue
                p = r[1]
                if p == KEYPATH:
                    if isinstance(value, ast.Constant) and value.value in ("", None):
                        state = frozenset({M})
                        self.mask_sites += 1
                    else:
                        state = frozenset({U})
                elif p == KEYPATH[: len(p)] and len(p) < len(KEYPATH):
                    state = frozenset({U})  # a whole sub-tree holding the key is replaced
        if isinstance(st, ast.stmt):
            for n in ast.walk(st):
                if isinstance(n, ast.Call) and self.prog.resolve_call(fi, n) == "omegaconf.OmegaConf.update":
                    if len(n.args) >= 3 and norm(n.args[0]) == "self.config" and isinstance(n.args[1], ast.Constant) \
                            and str(n.args[1].value).split(".") == KEYPATH:
                        state = frozenset({M}) if isinstance(n.args[2], ast.Constant) and n.args[2].value in ("", None) else frozenset({U})
        return state

    def _sink(self, fi: FunctionInfo, call: ast.Call, what: str, state: FrozenSet[str]) -> None:
        if not state:
            return  # no config object yet
        self.sinks_seen.add((fi.qualname, what))
        f = astq.call_arg(call, 1, "f") if norm(call.func) != "self.trainer.fit" else None
        target = f" -> {short(f, 50)}" if f is not None else ""
        self.res.ob(
            "C19-mask", U not in state, fi.qualname, f"sink {what}{target}",
            f"the configuration is persisted ({what}{target}) on a path where trainer_config.wandb.api_key has not been blanked",
            f"{fi.module.relpath}:{call.lineno}", sample={"state": sorted(state)},
        )

    def analyse(self, fi: FunctionInfo, state: FrozenSet[str]) -> FrozenSet[str]:
        key = (fi.qualname, state)
        if key in self.memo:
            return self.memo[key]
        self.memo[key] = state  # recursion guard
        self.res.touch(fi)
        cfg = CFG(fi.node)
        roots = self.roots(fi)
        stashes = self.key_stashes()

        def transfer(node: Node, s):
            if node.ast is None or node.kind in ("entry", "exit", "raise", "join", "except"):
                return s
            if node.kind == "test":
                a = node.ast
                expr = a.test if isinstance(a, (ast.If, ast.While)) else (a.iter if isinstance(a, (ast.For, ast.AsyncFor)) else None)
                if expr is None:
                    return s
                return self.transfer_stmt(fi, roots, expr, s, node)
            return self.transfer_stmt(fi, roots, node.ast, s, node)

        def edge(src: Node, dst: Node, labels, s):
            if src.kind == "test" and isinstance(src.ast, ast.If):
                t = src.ast.test
                x = astq.is_none_test(t)
                neg = False
                if isinstance(t, ast.Compare) and len(t.ops) == 1 and isinstance(t.ops[0], (ast.IsNot, ast.NotEq)) \
                        and isinstance(t.comparators[0], ast.Constant) and t.comparators[0].value is None:
                    x, neg = t.left, True
                if x is None and isinstance(t, (ast.Attribute, ast.Name)):
                    x, neg = t, True  # truthiness: false edge = None or ''
                if x is not None and (self.is_stash(fi, x) or self.reads_key(fi, x, roots, top=True)):
                    none_edge = "false" if neg else "true"
                    if none_edge in labels and "exc" not in labels:
                        return frozenset({M}) if s else s  # no key present: nothing to leak
            return s

        IN = cfg.forward(state, transfer, lambda a, b: a | b, edge_transfer=edge)
        out = IN.get(cfg.exit, frozenset())
        # the OUT of exit is IN (exit has no statement)
        self.memo[key] = out
        return out


def check_mask(prog: Program, res: Result) -> None:
    ci = prog.cls(TRAINER)
    for m in ("__init__", "train"):
        if m not in ci.methods:
            raise AnalysisError(f"{TRAINER}.{m} vanished")
    kf = KeyFlow(prog, res)
    s1 = kf.analyse(ci.methods["__init__"], frozenset())
    res.notes.append(f"state of the config after __init__: {sorted(s1)}")
    if not s1:
        res.inconclusive("ModelTrainer.__init__ never assigns self.config (config source not recognised)")
    kf.analyse(ci.methods["train"], s1)
    res.extra["sinks"] = sorted(f"{a}: {b}" for a, b in kf.sinks_seen)
    res.floor("C19-mask", 6)
    # C19-private: who may read the key
    stashes = kf.key_stashes()
    n_reads = 0
    live = {f.qualname for f in prog.all_functions()}
    for fi in ci.methods.values():
        if fi.qualname not in live:
            continue   # an absorbed helper is judged inside its caller
        roots = kf.roots(fi)
        for n in walk_function(fi.node):
            is_stash_load = isinstance(n, (ast.Attribute, ast.Name)) and isinstance(n.ctx, ast.Load) and kf.is_stash(fi, n)
            is_key_read = kf.reads_key(fi, n, roots, top=True) and not (isinstance(n, (ast.Attribute, ast.Subscript)) and isinstance(n.ctx, ast.Store))
            is_key_call = isinstance(n, ast.Call) and prog.resolve_call(fi, n) in kf.returners
            if not (is_stash_load or is_key_read or is_key_call):
                continue
            par = getattr(n, "_parent", None)
            ok = False
            why = ""
            if isinstance(par, ast.keyword) and par.arg == "key":
                call = par._parent
                ok = isinstance(call, ast.Call) and prog.resolve_call(fi, call) == "wandb.login"
            elif isinstance(par, ast.Assign) and par.value is n and len(par.targets) == 1 and kf.is_stash(fi, par.targets[0]):
                ok = True  # the stash itself / a copy into another stash (whose reads are judged the same way)
            elif isinstance(par, ast.Return) and par.value is n and fi.cls is ci and fi.name.startswith("_"):
                ok = True  # a private method handing the key to its caller, where the call is judged as a read of the key
            elif isinstance(par, ast.Compare) or isinstance(par, (ast.If, ast.BoolOp, ast.UnaryOp)):
                ok = True  # guard
            n_reads += 1
            res.ob("C19-private", ok, fi.qualname, f"read of the API key: {short(astq_stmt(n), 80)}",
                   "the API key (or its stashed copy) flows somewhere other than wandb.login(key=...) or a None-guard",
                   f"{fi.module.relpath}:{n.lineno}")
    res.floor("C19-private", 1)


def astq_stmt(n):
    from ..core.program import enclosing_stmt

    return enclosing_stmt(n)


def check_final(prog: Program, res: Result) -> None:
    ci = prog.cls(TRAINER)
    fi = ci.methods["train"]
    fn = fi.node
    cfg = CFG(fn)
    fits = [n for n in walk_function(fn) if isinstance(n, ast.Call) and norm(n.func) == "self.trainer.fit"]
    res.ob("C19-final", len(fits) == 1, fi.qualname, "one trainer.fit call", f"{len(fits)} trainer.fit call sites", fi.where)
    if len(fits) != 1:
        return
    fit = fits[0]
    tries = [a for a in ancestors(fit) if isinstance(a, ast.Try)]
    tr = tries[0] if tries else None
    fin_ids: Set[int] = set()
    if tr is not None:
        for st in tr.finalbody:
            for n in ast.walk(st):
                fin_ids.add(id(n))
    saves = []
    for c, q in prog.calls_in(fi):
        if q == "omegaconf.OmegaConf.save":
            f = astq.deref(fn, astq.call_arg(c, 1, "f"))
            cfg_arg = astq.call_arg(c, 0, "config")
            if f is not None and "training_config.yaml" in norm(f) and cfg_arg is not None and norm(cfg_arg) == "self.config":
                saves.append(c)
    save_nodes = {n for c in saves for n in cfg.stmt_nodes_containing(c)}
    fit_nodes = cfg.stmt_nodes_containing(fit)

    def drop(a, b, labels):
        na = cfg.nodes[a]
        return "exc" in labels and na.ast is not None and id(na.ast) in fin_ids and a not in save_nodes

    for ex, label in ((cfg.exit, "normal exit"), (cfg.raise_exit, "exceptional exit")):
        w = cfg.must_pass(fit_nodes, [ex], save_nodes, drop_edge=drop)
        res.ob("C19-final", w is None, fi.qualname, f"final training_config.yaml saved before the {label}",
               f"after trainer.fit a path reaches the {label} without saving the final training_config.yaml: "
               f"{cfg.path_str(w) if w else ''}", f"{fi.module.relpath}:{fit.lineno}",
               derivation={"path": cfg.path_str(w)} if w else None, sample={"cfg": cfg.stats(), "save_sites": len(saves)})
    # chunk deletion is attempted in the same finally: for either chunk framework, with deletion requested, a walk of the
    # finally block (tests on the framework / the flag decided by the scenario, `.exists()` taken as true, loops over
    # literal sequences unrolled, locals substituted) removes the train AND the val directory of that framework.
    rms = [c for c, q in prog.calls_in(fi) if q == "shutil.rmtree"]
    res.ob("C19-delete", bool(rms) and all(id(c) in fin_ids for c in rms), fi.qualname, "chunk directories are removed in the finally of train()",
           "chunk deletion is not inside the finally of train()", fi.where)
    DIRS = {"torch_dataset_np_chunks": {"self.train_np_chunks_path", "self.val_np_chunks_path"},
            "litdata": {"self.train_litdata_chunks_path", "self.val_litdata_chunks_path"}}
    allw = set().union(*DIRS.values())

    def _walk(stmts, fw, flag):
        must: Set[str] = set()
        may: Set[str] = set()

        def sub(e, env):
            from ..core.astq import _SubstNames
            for _ in range(4):
                e = _SubstNames(env).visit(clone(e))
            return e

        def truth(t, env):
            t = sub(t, env)
            if isinstance(t, ast.BoolOp):
                vs = [truth(v, env) for v in t.values]
                if isinstance(t.op, ast.And):
                    return False if any(v is False for v in vs) else (True if all(v is True for v in vs) else None)
                return True if any(v is True for v in vs) else (False if all(v is False for v in vs) else None)
            if isinstance(t, ast.UnaryOp) and isinstance(t.op, ast.Not):
                v = truth(t.operand, env)
                return None if v is None else (not v)
            txt = norm(t)
            if txt.endswith("delete_chunks_after_training"):
                return flag
            if isinstance(t, ast.Call) and isinstance(t.func, ast.Attribute) and t.func.attr in ("exists", "is_dir") and not t.args:
                return True
            if isinstance(t, ast.Compare) and len(t.ops) == 1 and norm(t.left) == "self.data_pipeline_fw":
                op, r = t.ops[0], t.comparators[0]
                if isinstance(op, (ast.Eq, ast.NotEq)) and isinstance(r, ast.Constant):
                    return (fw == r.value) if isinstance(op, ast.Eq) else (fw != r.value)
                if isinstance(op, (ast.In, ast.NotIn)) and isinstance(r, (ast.Tuple, ast.List, ast.Set)) and all(isinstance(x, ast.Constant) for x in r.elts):
                    v = fw in [x.value for x in r.elts]
                    return v if isinstance(op, ast.In) else (not v)
            return None

        def run(block, env, sure):
            """returns False when the block certainly returned."""
            for st in block:
                if isinstance(st, ast.If):
                    v = truth(st.test, env)
                    if v is True:
                        if run(st.body, env, sure) is False:
                            return False
                    elif v is False:
                        if run(st.orelse, env, sure) is False:
                            return False
                    else:
                        e1, e2 = dict(env), dict(env)
                        run(st.body, e1, False)
                        run(st.orelse, e2, False)
                        for k_ in set(e1) | set(e2):
                            if k_ in e1 and k_ in e2 and norm(e1[k_]) == norm(e2[k_]):
                                env[k_] = e1[k_]
                            else:
                                env.pop(k_, None)
                elif isinstance(st, ast.For):
                    it = sub(st.iter, env)
                    if isinstance(it, (ast.Tuple, ast.List)) and isinstance(st.target, ast.Name):
                        for el in it.elts:
                            e2 = dict(env)
                            e2[st.target.id] = el
                            run(st.body, e2, sure)
                    else:
                        run(st.body, dict(env), False)
                elif isinstance(st, (ast.With, ast.Try)):
                    run(st.body, env, sure if isinstance(st, ast.With) else False)
                    if isinstance(st, ast.Try):
                        run(st.finalbody, env, sure)
                elif isinstance(st, ast.Return):
                    return False
                else:
                    if isinstance(st, ast.Assign) and len(st.targets) == 1 and isinstance(st.targets[0], ast.Name):
                        env[st.targets[0].id] = sub(st.value, env)
                    for c in ast.walk(st):
                        if isinstance(c, ast.Call) and norm(c.func).split(".")[-1] == "rmtree":
                            arg = astq.call_arg(c, 0, "path")
                            txt = norm(sub(arg, env)) if arg is not None else ""
                            hit = {w for w in allw if w in txt}
                            may.update(hit)
                            if sure:
                                must.update(hit)
            return True

        run(stmts, {}, True)
        return must, may

    fin = tr.finalbody if tr is not None else []
    for fw, dirs in DIRS.items():
        must, may = _walk(fin, fw, True)
        res.ob("C19-delete", dirs <= must, fi.qualname, f"{fw} + delete_chunks_after_training: train and val chunk dirs are removed",
               f"with data_pipeline_fw={fw!r} and delete_chunks_after_training set, the finally block does not remove {sorted(dirs - must)} "
               f"(removed for sure: {sorted(must)}; possibly: {sorted(may - must)})", fi.where, sample={"framework": fw, "removed": sorted(must)})
        other = allw - dirs
        res.ob("C19-delete", not (must & other), fi.qualname, f"{fw}: only its own chunk dirs are removed",
               f"with data_pipeline_fw={fw!r} the finally block removes the other framework's directories {sorted(must & other)}", fi.where)
    # ... and chunk files are only ever written INTO those directories: every dataset built by the trainer gets one of the
    # removed directories as its np_chunks_path (a dataset pointed at the chunk root leaves its files behind)
    n_paths = 0
    for m in ci.methods.values():
        for c in walk_function(m.node):
            if isinstance(c, ast.Call):
                for k in c.keywords:
                    if k.arg == "np_chunks_path":
                        n_paths += 1
                        res.touch(m)
                        got = norm(astq.expand_at(m.node, k.value, astq_stmt(c)))
                        res.ob("C19-delete", got in DIRS["torch_dataset_np_chunks"], m.qualname, f"{norm(c.func)}(np_chunks_path={got})",
                               f"`{short(c, 40)}` writes its .npz chunks to `{got}`, which the finally block of train() does not remove (it removes "
                               f"{sorted(DIRS['torch_dataset_np_chunks'])}): chunk files survive although their deletion was requested", f"{m.module.relpath}:{c.lineno}")
    # vacuity guard: at least a train and a validation construction (8 on the pinned tree: one pair per model type)
    res.ob("C19-delete", n_paths >= 2, ci.qualname, "dataset constructions with a chunk directory found", f"only {n_paths} dataset constructions pass np_chunks_path", "")
    res.floor("C19-delete", 3)


def check_initial(prog: Program, res: Result) -> None:
    ci = prog.cls(TRAINER)
    fi = ci.methods["__init__"]
    cfg = CFG(fi.node)
    roots = {"self.config": []}
    init_saves = []
    for c, q in prog.calls_in(fi):
        if q == "omegaconf.OmegaConf.save":
            f = astq.deref(fi.node, astq.call_arg(c, 1, "f"))
            if f is not None and "initial_config.yaml" in norm(f):
                init_saves.append(c)
    res.ob("C19-initial", len(init_saves) == 1, fi.qualname, "one save of initial_config.yaml",
           f"{len(init_saves)} saves of initial_config.yaml in __init__", fi.where)
    if len(init_saves) != 1:
        return
    sn = set(cfg.stmt_nodes_containing(init_saves[0]))
    for n in walk_function(fi.node):
        if isinstance(n, (ast.Assign, ast.AugAssign)):
            for t in astq.stmt_targets(n):
                if isinstance(t, (ast.Attribute, ast.Subscript)):
                    r = path_of(t, roots)
                    if r is None or not r[1]:
                        continue
                    if r[1] == KEYPATH and isinstance(n.value, ast.Constant):
                        continue  # masking
                    wn = cfg.stmt_nodes_containing(n)
                    reach = cfg.reachable_from(wn)
                    res.ob("C19-initial", not (reach & sn), fi.qualname, f"config write not before the initial save: {short(n, 70)}",
                           "the configuration is modified before initial_config.yaml is written (the file is no longer the configuration supplied)",
                           f"{fi.module.relpath}:{n.lineno}")
    res.floor("C19-initial", 4)


def schema_roots(prog: Program, fi: FunctionInfo) -> Dict[str, List[str]]:
    roots: Dict[str, List[str]] = {}
    if fi.cls is None:
        return roots
    mro = [c.qualname for c in prog.mro(fi.cls)]
    if TRAINER in mro:
        roots["self.config"] = []
    if LMOD in mro:
        roots["self.config"] = []
        init = prog.cls(LMOD).methods.get("__init__")
        if init is not None:
            for n in walk_function(init.node):
                if isinstance(n, ast.Assign) and len(n.targets) == 1 and isinstance(n.targets[0], ast.Attribute) \
                        and norm(n.targets[0].value) == "self":
                    r = path_of(n.value, {"self.config": []}) if isinstance(n.value, (ast.Attribute, ast.Subscript)) else None
                    if r is not None and r[1] and norm(n.targets[0]) != "self.config":
                        roots[norm(n.targets[0])] = r[1]
    return roots


_METHODS = {"items", "keys", "values", "get", "copy", "pop", "update"}


def check_schema(prog: Program, res: Result) -> None:
    sch = Schema(prog)
    res.extra["schema"] = sch.stats()
    n_paths = 0
    for fi in prog.all_functions():
        roots = schema_roots(prog, fi)
        if not roots:
            continue
        res.touch(fi)
        roots = dict(roots)
        roots.update(local_aliases(fi.node, roots))
        guarded: Set[str] = set()
        for n in walk_function(fi.node):
            if isinstance(n, ast.Compare) and len(n.ops) == 1 and isinstance(n.ops[0], (ast.In, ast.NotIn)) \
                    and isinstance(n.left, ast.Constant) and isinstance(n.left.value, str):
                guarded.add(n.left.value)
        for n in walk_function(fi.node):
            if not isinstance(n, (ast.Attribute, ast.Subscript)):
                continue
            par = getattr(n, "_parent", None)
            if isinstance(par, (ast.Attribute, ast.Subscript)) and par.value is n:
                continue  # not outermost
            r = path_of(n, roots)
            if r is None or not r[1]:
                continue
            root, path, dyn = r
            if isinstance(par, ast.Call) and par.func is n and path and path[-1] in _METHODS:
                path = path[:-1]
            if isinstance(par, ast.Call) and par.func is n and isinstance(n, ast.Attribute) and path and path[-1] == n.attr and n.attr not in sch.classes.get("", {}):
                # a method call on a config leaf value (e.g. .endswith): drop the method name
                st, _ = sch.resolve(path)
                if st == "missing":
                    path = path[:-1]
            if not path:
                continue
            is_store = isinstance(n.ctx, ast.Store)
            status, why = sch.resolve(path)
            n_paths += 1
            if status == "missing" and not is_store and path[-1] in guarded:
                res.count("C19-schema")
                continue
            rule = "C19-schema"
            res.ob(rule, status != "missing", fi.qualname,
                   f"{'write' if is_store else 'read'} {'.'.join(path)}",
                   f"configuration path `{'.'.join(path)}` is {'written' if is_store else 'read'} but is not declared by the "
                   f"config schema ({why}); a structured (builder-made) configuration raises ConfigAttributeError here",
                   f"{fi.module.relpath}:{n.lineno}", sample={"path": ".".join(path), "status": status} if is_store else None)
    res.floor("C19-schema", 60)


MT = "sleap_nn.training.model_trainer:ModelTrainer"


def check_chunk_state(prog: Program, res: Result) -> None:
    """Chunk files (.npz) are written whenever the datasets are built with np_chunks=self.np_chunks true; train() deletes
    them under `data_pipeline_fw == "torch_dataset_np_chunks"`.  So wherever self.np_chunks becomes true, the framework
    attribute the deletion is keyed on has to say so too (or the deletion has to be keyed on self.np_chunks)."""
    R = "C19-delete"
    ci = prog.cls(MT)
    sites = []
    for fi in ci.methods.values():
        for st in walk_function(fi.node):
            if isinstance(st, ast.Assign) and norm(st.targets[0]) == "self.np_chunks":
                sites.append((fi, st))
    res.ob(R, len(sites) >= 2, ci.qualname, "self.np_chunks is set at construction and by the low-memory fallback", f"{len(sites)} assignments of self.np_chunks", "")
    tr = ci.methods.get("train")
    del_on_flag = any(isinstance(n, ast.If) and "self.np_chunks" in norm(n.test) and any(isinstance(c, ast.Call) and norm(c.func).endswith("rmtree") for c in ast.walk(n)) for n in walk_function(tr.node))
    for fi, st in sites:
        res.touch(fi)
        v = st.value
        if astq.const_value(v) is False:
            continue
        derived = "data_pipeline_fw" in norm(v)  # e.g. `True if "np_chunks" in self.data_pipeline_fw else False`
        blk = getattr(st, "_parent", None)
        body = [b for fld in ("body", "orelse") for b in getattr(blk, fld, []) if isinstance(getattr(blk, fld, None), list)] if blk is not None else []
        sets_fw = any(isinstance(b, ast.Assign) and norm(b.targets[0]) == "self.data_pipeline_fw" and astq.const_value(b.value) == "torch_dataset_np_chunks" for b in body)
        guards = [a for a in ancestors(st) if isinstance(a, ast.If)]
        guarded = any("torch_dataset_np_chunks" in norm(g.test) and "==" in norm(g.test) for g in guards)
        ok = derived or sets_fw or guarded or del_on_flag
        res.ob(R, ok, fi.qualname, f"np_chunks on <=> framework recorded as torch_dataset_np_chunks: {short(st, 50)}",
               f"`{short(st, 50)}` switches chunk caching on without recording it in self.data_pipeline_fw: train() deletes chunk files only under "
               "`data_pipeline_fw == 'torch_dataset_np_chunks'`, so these chunks are never deleted although deletion was requested", f"{fi.module.relpath}:{st.lineno}")


def check_model_config_alias(prog: Program, res: Result) -> None:
    """The final training_config.yaml is ModelTrainer.config.  The Lightning module adjusts the configuration it was given
    (e.g. in_channels for pre-trained weights) and stores it in the checkpoint; both are 'the configuration actually used'
    only if the module holds the trainer's OBJECT, not a copy."""
    R = "C19-final"
    ci = prog.classes.get("sleap_nn.training.lightning_modules:TrainingModel")
    if ci is None:
        raise AnalysisError("TrainingModel vanished")
    init = ci.methods.get("__init__")
    res.touch(init)
    sts = [s_ for s_ in walk_function(init.node) if isinstance(s_, ast.Assign) and norm(s_.targets[0]) == "self.config"]
    writes = []
    for c2 in [ci] + prog.subclasses(ci):
        for m in c2.methods.values():
            for s_ in walk_function(m.node):
                tg = s_.targets if isinstance(s_, ast.Assign) else ([s_.target] if isinstance(s_, ast.AugAssign) else [])
                for t in tg:
                    if isinstance(t, (ast.Attribute, ast.Subscript)) and norm(t).startswith("self.config.") or (isinstance(t, ast.Subscript) and norm(t).startswith("self.config[")):
                        writes.append(short(s_, 60))
    # aliases of sub-configurations (self.model_config = self.config.model_config) and OmegaConf.update(...) on them
    aliases = {"self.config"}
    for s_ in walk_function(init.node):
        if isinstance(s_, ast.Assign) and isinstance(s_.targets[0], ast.Attribute) and norm(s_.value).startswith("self.config."):
            aliases.add(norm(s_.targets[0]))
    for c2 in [ci] + prog.subclasses(ci):
        for m in c2.methods.values():
            for c_ in walk_function(m.node):
                if isinstance(c_, ast.Call) and norm(c_.func).endswith("OmegaConf.update") and c_.args and any(norm(c_.args[0]) == a or norm(c_.args[0]).startswith(a + ".") or norm(c_.args[0]).startswith(a + "[") for a in aliases):
                    writes.append(short(c_, 60))
    prm = [p_ for p_ in init.pos_params if p_ == "config"]
    ok = len(sts) == 1 and prm and norm(astq.expand_at(init.node, sts[0].value, sts[0])) == "config"
    res.ob(R, ok or not writes, init.qualname, "the module keeps the trainer's configuration object (no copy)",
           f"`{short(sts[0], 50) if sts else 'self.config'}` detaches the module's configuration from the trainer's while the module rewrites it ({writes[:1]}): the final "
           "training_config.yaml no longer equals the configuration the model was built with", init.where, sample={"writes": writes[:3]})


def check_runs(prog: Program, res: Result) -> None:
    """Training actually runs and can be check-pointed for every valid configuration - three necessary conditions that are
    visible in the code:
    (steps) the number of batches per epoch handed to the Trainer (limit_train_batches) is never 0: a value derived by an
      integer division (len(dataset) // batch_size) is clamped to at least 1 where it is stored, otherwise fit() runs zero
      steps and no checkpoint is written although checkpointing is on;
    (weights) a per-head loss weight is Optional in the schema (None = default): it is read through an explicit
      `is None` / `is not None` test - DictConfig.get(key, default) returns None for a key that is present with value None,
      and None * loss raises in the first step of every builder-made bottom-up configuration;
    (chunks) the directory the datasets write their chunks into is the path they were given (wrapped in Path at most): the
      trainer deletes `<np_chunks_path>/...` literally, so a dataset that expands/resolves the path writes where nobody
      deletes."""
    R = "C19-run"
    ci = prog.cls(TRAINER)
    n = 0
    for fi in ci.methods.values():
        for st in walk_function(fi.node):
            if not (isinstance(st, ast.Assign) and len(st.targets) == 1 and norm(st.targets[0]) == "self.steps_per_epoch"):
                continue
            vx = astq.expand_at(fi.node, st.value, st)
            if not any(isinstance(x, ast.BinOp) and isinstance(x.op, ast.FloorDiv) for x in ast.walk(vx)):
                continue
            n += 1
            res.touch(fi)
            v = st.value
            clamped = isinstance(v, ast.Call) and norm(v.func) == "max" and any(isinstance(astq.const_value(a), (int, float)) and astq.const_value(a) >= 1 for a in v.args)
            if isinstance(v, ast.IfExp) and isinstance(v.test, ast.Compare) and len(v.test.ops) == 1 and astq.const_value(v.test.comparators[0]) == 0:
                # x if x != 0 else 1   /   1 if x == 0 else x   /   x if x > 0 else 1
                zero_arm = v.orelse if isinstance(v.test.ops[0], (ast.NotEq, ast.Gt)) else (v.body if isinstance(v.test.ops[0], (ast.Eq, ast.LtE)) else None)
                other_arm = v.body if zero_arm is v.orelse else v.orelse
                if zero_arm is not None and isinstance(astq.const_value(zero_arm), (int, float)) and astq.const_value(zero_arm) >= 1 and norm(other_arm) == norm(v.test.left):
                    clamped = True
            if isinstance(v, ast.BoolOp) and isinstance(v.op, ast.Or) and isinstance(astq.const_value(v.values[-1]), (int, float)) and astq.const_value(v.values[-1]) >= 1:
                clamped = True   # n // b or 1
            par = getattr(st, "_parent", None)
            blk = next((getattr(par, f) for f in ("body", "orelse", "finalbody") if isinstance(getattr(par, f, None), list) and st in getattr(par, f)), [])
            for nx in blk[blk.index(st) + 1:] if st in blk else []:
                if isinstance(nx, ast.If) and "self.steps_per_epoch" in norm(nx.test) and any(
                        isinstance(b, ast.Assign) and norm(b.targets[0]) == "self.steps_per_epoch" and isinstance(astq.const_value(b.value), int) and astq.const_value(b.value) >= 1 for b in nx.body):
                    t = nx.test
                    if (isinstance(t, ast.Compare) and len(t.ops) == 1 and ((isinstance(t.ops[0], ast.Eq) and astq.const_value(t.comparators[0]) == 0)
                                                                          or (isinstance(t.ops[0], ast.Lt) and astq.const_value(t.comparators[0]) == 1)
                                                                          or (isinstance(t.ops[0], ast.LtE) and astq.const_value(t.comparators[0]) == 0))) \
                            or (isinstance(t, ast.UnaryOp) and isinstance(t.op, ast.Not)):
                        clamped = True
                if any(isinstance(x, ast.Attribute) and norm(x) == "self.steps_per_epoch" and isinstance(x.ctx, ast.Load) for x in ast.walk(nx)) and not clamped:
                    break
            res.ob(R, clamped, fi.qualname, "an integer-division step count is clamped to >= 1 where it is stored",
                   f"`{short(st, 70)}` can be 0 (fewer samples than the batch size) and is not clamped before it is used: Trainer(limit_train_batches=0) runs no step and writes no "
                   "checkpoint", f"{fi.module.relpath}:{st.lineno}")
    tr = ci.methods["train"]
    lim = [k.value for c in walk_function(tr.node) if isinstance(c, ast.Call) for k in c.keywords if k.arg == "limit_train_batches"]
    res.ob(R, len(lim) == 1 and norm(lim[0]) == "self.steps_per_epoch", tr.qualname, "limit_train_batches = self.steps_per_epoch", f"limit_train_batches is {[short(x, 30) for x in lim]}", tr.where)
    res.ob(R, n >= 1, ci.qualname, "derived step counts found", "no integer-division step count found", f"{ci.module.relpath}:{ci.node.lineno}")
    # (weights)
    tm = prog.cls("sleap_nn.training.lightning_modules:TrainingModel").methods["__init__"]
    res.touch(tm)
    lw = [st for st in walk_function(tm.node) if isinstance(st, ast.Assign) and norm(st.targets[0]) == "self.loss_weights"]
    res.ob(R, len(lw) >= 1, tm.qualname, "loss weights are collected", "self.loss_weights is no longer built in TrainingModel.__init__", tm.where)
    for st in lw:
        if isinstance(st.value, (ast.List, ast.Tuple)) and all(isinstance(e, ast.Constant) for e in st.value.elts):
            continue
        txt = norm(astq.expand_at(tm.node, st.value, st))
        reads = "loss_weight" in txt
        guarded = reads and ("is not None" in txt or "is None" in txt)
        res.ob(R, guarded or not reads, tm.qualname, "an unset (None) loss weight falls back to a number",
               f"`{short(st, 70)}` reads the Optional `loss_weight` without an `is None` test (`.get(key, default)` / `or` do not replace a key that is present with value None "
               "correctly): the None of every builder-made multi-head configuration reaches `None * loss`", f"{tm.module.relpath}:{st.lineno}")
    # (chunks)
    bd = prog.cls("sleap_nn.data.custom_datasets:BaseDataset").methods["__init__"]
    res.touch(bd)
    for st in walk_function(bd.node):
        if isinstance(st, ast.Assign) and any(norm(t) in ("self.np_chunks_path", "path") for t in st.targets) and "np_chunks_path" in norm(st.value):
            bad = [norm(c.func) for c in ast.walk(st.value) if isinstance(c, ast.Call) and norm(c.func).split(".")[-1] not in ("Path", "str", "isinstance")]
            res.ob(R, not bad, bd.qualname, "chunks are written under the path that was given", f"`{short(st, 70)}` transforms the chunk directory ({bad}): the datasets write "
                   "their chunks somewhere else than the literal path the trainer later deletes", f"{bd.module.relpath}:{st.lineno}")
    # (crop) the automatically derived crop size is written into the OmegaConf configuration (preprocessing.crop_hw), which
    # accepts Python primitives only: find_instance_crop_size returns a built-in int (int(...)), never a NumPy scalar -
    # `np.ceil(x).astype(int) * stride` is numpy.int64 and OmegaConf raises UnsupportedValueType / ValidationError in __init__
    fc = prog.func("sleap_nn.data.instance_cropping:find_instance_crop_size")
    res.touch(fc)
    rets = [r_ for r_ in walk_function(fc.node) if isinstance(r_, ast.Return) and r_.value is not None]

    def _py_int(e_, at_, depth_=0) -> bool:
        if depth_ > 6:
            return False
        x_ = astq.expand_at(fc.node, e_, at_) if depth_ == 0 else e_
        if isinstance(x_, ast.Call) and norm(x_.func) in ("int", "math.ceil", "math.floor", "round", "len"):
            return True
        if isinstance(x_, ast.Constant) and isinstance(x_.value, int):
            return True
        if isinstance(x_, ast.BinOp) and isinstance(x_.op, (ast.Mult, ast.Add, ast.Sub, ast.FloorDiv)):
            return _py_int(x_.left, at_, depth_ + 1) and _py_int(x_.right, at_, depth_ + 1)
        if isinstance(x_, ast.Name) and x_.id in fc.params:
            return True
        if isinstance(x_, ast.IfExp):
            return _py_int(x_.body, at_, depth_ + 1) and _py_int(x_.orelse, at_, depth_ + 1)
        return False

    res.ob(R, bool(rets) and all(_py_int(r_.value, r_) for r_ in rets), fc.qualname, "returns a built-in int",
           f"find_instance_crop_size returns `{short(rets[0].value, 50) if rets else '?'}`, which is not a built-in int (a NumPy scalar cannot be stored in the OmegaConf "
           "configuration: constructing the trainer fails for centered-instance models without an explicit crop size)", fc.where)
    res.floor(R, 5)


def check_rank(prog: Program, res: Result) -> None:
    """The artifact writes (initial / final configuration, chunk config, cache fill) are gated by `rank is None or rank == 0`
    with rank = get_dist_rank().  The gate is only right while get_dist_rank returns the INTEGER rank of an initialised
    process group or None: a rank read from the environment is a string, "0" == 0 is False, and a run launched with
    LOCAL_RANK exported writes none of its artifacts."""
    R = "C19-rank"
    fi = prog.func("sleap_nn.training.utils:get_dist_rank")
    res.touch(fi)
    pr = astq.path_returns(fi.node)
    res.ob(R, pr is not None and len(pr) >= 1, fi.qualname, "get_dist_rank is a loop-free function", "get_dist_rank is no longer a loop-free function of the process-group state", fi.where)
    for conds, v in pr or []:
        alts = [v.body, v.orelse] if isinstance(v, ast.IfExp) else [v]
        for a in alts:
            is_none = a is None or astq.const_value(a) is None
            is_rank = isinstance(a, ast.Call) and norm(a.func).split(".")[-1] == "get_rank"
            is_int = (isinstance(a, ast.Call) and norm(a.func) == "int") or (isinstance(astq.const_value(a), int) and not isinstance(astq.const_value(a), bool))
            res.ob(R, is_none or is_rank or is_int, fi.qualname, f"returns an integer rank or None: {short(a, 40) if a is not None else 'None'}",
                   f"get_dist_rank can return `{short(a, 50) if a is not None else ''}`, which is not the integer rank of the process group (nor None): the "
                   "`rank is None or rank == 0` gates of the artifact writes are False for it and the run leaves no configuration files", fi.where)
    n = 0
    for g in prog.all_functions():
        if not g.module.name.startswith(("sleap_nn.training", "sleap_nn.data.custom_datasets")):
            continue
        for st in walk_function(g.node):
            if isinstance(st, ast.Assign) and isinstance(st.value, ast.Call) and prog.resolve_call(g, st.value) == fi.qualname and isinstance(st.targets[0], ast.Name):
                n += 1
    res.ob(R, n >= 4, fi.qualname, "rank-gated sites found", f"only {n} sites read get_dist_rank()", fi.where)
    res.floor(R, 3)


def check(prog: Program, res: Result) -> None:
    check_runs(prog, res)
    check_mask(prog, res)
    check_final(prog, res)
    check_initial(prog, res)
    check_schema(prog, res)
    check_chunk_state(prog, res)
    check_model_config_alias(prog, res)
    check_rank(prog, res)
    # "an initial configuration file equal to the configuration supplied": what the trainer verifies and saves is the supplied
    # configuration plus schema defaults - verify_training_cfg / to_sleap_nn_cfg rewrite nothing (shared with C20-lossless)
    from . import c20 as _c20
    res.borrow(_c20.check_lossless, "C19-initial", prog)
    res.floor("C19-final", 3)
    res.assumptions += [
        "wandb's own files under save_dir are outside the analysis (the key reaches wandb only through wandb.login)",
        "a None or empty key needs no masking (the None-branch of the guard on the stashed key counts as MASKED)",
    ]


T = "sleap_nn/training/model_trainer.py"
VARIANTS = [
    Variant("final-model-config-copied", "sleap_nn/training/lightning_modules.py", "        self.config = config\n", "        self.config = config.copy()\n", "C19-final"),
    Variant("delete-fallback-not-recorded", T, "                self.data_pipeline_fw = \"torch_dataset_np_chunks\"\n", "", "C19-delete"),
    Variant("mask-removed", T, "        if self._wandb_api_key is not None:\n            self.config.trainer_config.wandb.api_key = \"\"\n", "", "C19-mask"),
    Variant("mask-only-when-wandb", T, "        if self._wandb_api_key is not None:\n            self.config.trainer_config.wandb.api_key = \"\"\n",
            "        if self.config.trainer_config.use_wandb:\n            self.config.trainer_config.wandb.api_key = \"\"\n", "C19-mask"),
    Variant("mask-after-initial-save", T,
            "        if self._wandb_api_key is not None:\n            self.config.trainer_config.wandb.api_key = \"\"\n        self.data_pipeline_fw",
            "        self.data_pipeline_fw", "C19-mask"),
    Variant("key-restored-before-fit", T, "        try:\n\n            self.trainer.fit(",
            "        self.config.trainer_config.wandb.api_key = self._wandb_api_key\n        try:\n\n            self.trainer.fit(", "C19-mask"),
    Variant("key-logged", T, "        wandb.login(key=self._wandb_api_key)\n",
            "        wandb.login(key=self._wandb_api_key)\n        logger.info(f\"logged in with {self._wandb_api_key}\")\n", "C19-private"),
    Variant("final-save-only-with-wandb", T,
            "            # save the config with wandb runid\n            OmegaConf.save(\n                config=self.config, f=f\"{self.dir_path}/training_config.yaml\"\n            )\n",
            "            # save the config with wandb runid\n            if self.config.trainer_config.use_wandb:\n                OmegaConf.save(\n                    config=self.config, f=f\"{self.dir_path}/training_config.yaml\"\n                )\n",
            "C19-final"),
    Variant("finally-to-else", T, "        finally:\n            if self.config.trainer_config.use_wandb:\n                self.config.trainer_config.wandb.run_id",
            "        else:\n            if self.config.trainer_config.use_wandb:\n                self.config.trainer_config.wandb.run_id", "C19-final"),
    Variant("undeclared-key-write", T, "self.config.trainer_config.wandb.run_id = wandb.run.id", "self.config.trainer_config.wandb.last_run_id = wandb.run.id", "C19-schema"),
    Variant("undeclared-key-read", T, "self.config.trainer_config.early_stopping.patience", "self.config.trainer_config.early_stopping.max_patience", "C19-schema"),
    Variant("write-before-initial-save", T, "        rank = get_dist_rank()\n        if (\n            rank is None or rank == 0\n        ):  # save cfg if",
            "        self.config.data_config.preprocessing.scale = 1.0\n        rank = get_dist_rank()\n        if (\n            rank is None or rank == 0\n        ):  # save cfg if", "C19-initial"),
    Variant("delete-wrong-dir", T, "                if (self.val_np_chunks_path).exists():\n                    shutil.rmtree(\n                        (self.val_np_chunks_path).as_posix(),",
            "                if (self.val_np_chunks_path).exists():\n                    shutil.rmtree(\n                        (self.train_np_chunks_path).as_posix(),", "C19-delete"),
    Variant("raw-config-saved", T, "            OmegaConf.save(config=self.config, f=f\"{self.dir_path}/initial_config.yaml\")",
            "            OmegaConf.save(config=config, f=f\"{self.dir_path}/initial_config.yaml\")", "C19-mask"),
    # behaviour preserving
    Variant("bp-mask-with-none", T, "            self.config.trainer_config.wandb.api_key = \"\"\n        self.data_pipeline_fw",
            "            self.config.trainer_config.wandb.api_key = None\n        self.data_pipeline_fw", None),
    Variant("bp-extra-mask", T, "        self._initialize_model()\n        total_params", "        if self._wandb_api_key is not None:\n            self.config.trainer_config.wandb.api_key = \"\"\n        self._initialize_model()\n        total_params", None),
    Variant("bp-alias-save", T, "            OmegaConf.save(config=self.config, f=f\"{self.dir_path}/initial_config.yaml\")",
            "            initial_path = f\"{self.dir_path}/initial_config.yaml\"\n            OmegaConf.save(config=self.config, f=initial_path)", None),
    Variant("bp-steps-max", T, "            self.steps_per_epoch = (\n                len(self.train_dataset)\n                // self.config.trainer_config.train_data_loader.batch_size\n            )\n            if self.steps_per_epoch == 0:\n                self.steps_per_epoch = 1\n\n        pin_memory = (",
            "            self.steps_per_epoch = max(\n                1,\n                len(self.train_dataset)\n                // self.config.trainer_config.train_data_loader.batch_size,\n            )\n\n        pin_memory = (", None),
    Variant("steps-guard-dropped", T, "            if self.steps_per_epoch == 0:\n                self.steps_per_epoch = 1\n\n        pin_memory = (", "\n        pin_memory = (", "C19-run"),
]
