"""Hand-over chain of the peak-finding parameters (threshold, refinement, patch size):

    predictor attribute -> layer constructor -> layer attribute -> find_*_peaks(...) -> find_*_peaks_rough(...)

Every link forwards the value unchanged.  A link that drops an argument (the callee's default is used instead), re-binds
it (`threshold = threshold or 0.2`: 0 is a valid threshold) or reads the wrong element of the [centroid, instance]
threshold pair makes the detector run with other settings than the configured ones.  Shared by C06 and C07."""

from __future__ import annotations

import ast
from typing import Dict

from ..core import astq
from ..core.program import AnalysisError, Program, enclosing_stmt, norm, short, walk_function
from ..report import Result

PF = "sleap_nn.inference.peak_finding"
PARAMS = {"threshold": "self.peak_threshold", "refinement": "self.refinement", "integral_patch_size": "self.integral_patch_size"}
LAYERS = {
    "sleap_nn.inference.topdown:CentroidCrop": "centroid",
    "sleap_nn.inference.topdown:FindInstancePeaks": "instance",
    "sleap_nn.inference.single_instance:SingleInstanceInferenceModel": "single",
    "sleap_nn.inference.bottomup:BottomUpInferenceModel": "single",
}


def check_peak_wiring(prog: Program, res: Result, R: str) -> None:
    finders = {f"{PF}:find_global_peaks": f"{PF}:find_global_peaks_rough", f"{PF}:find_local_peaks": f"{PF}:find_local_peaks_rough"}
    # 1. layer -> finder
    n_calls = 0
    for fi in prog.all_functions():
        if not fi.module.name.startswith("sleap_nn.inference.") or fi.module.name == PF:
            continue
        for c, q in prog.calls_in(fi):
            if q not in finders:
                continue
            n_calls += 1
            res.touch(fi)
            b = astq.bind_args(prog.func(q), c)
            st = enclosing_stmt(c)
            # the maps the finder searches are the network's output itself (detached at most): a dtype / value conversion in
            # between (half precision, clamping, smoothing) changes which cell is the maximum and what value is reported
            first = prog.func(q).pos_params[0]
            mv = b.get(first)
            me = astq.expand_at(fi.node, mv, st) if mv is not None else None
            core = astq.peel(me, "detach") if me is not None else None
            is_param = isinstance(core, ast.Name) and core.id in fi.params   # a helper that receives the maps (checked at its caller)
            is_net = core is not None and any(isinstance(x, ast.Call) and norm(x.func) == "self.torch_model" for x in ast.walk(core)) and (
                (isinstance(core, ast.Call) and norm(core.func) == "self.torch_model")
                or (isinstance(core, ast.Subscript) and isinstance(core.value, ast.Call) and norm(core.value.func) == "self.torch_model"))
            res.ob(R, is_param or is_net, fi.qualname, f"{q.split(':')[1]} searches the network output itself",
                   f"`{short(c, 40)}` searches `{short(me, 70) if me is not None else '?'}`: the confidence maps are converted between the network and the peak finder, "
                   "so the reported value / cell is not the maximum of the map the network produced", f"{fi.module.relpath}:{c.lineno}")
            if is_param:
                # ... and the caller hands that helper the network output
                for f2 in prog.all_functions():
                    for c2, q2 in prog.calls_in(f2):
                        if q2 != fi.qualname:
                            continue
                        b2 = astq.bind_args(fi, c2, skip_self=True)
                        e2 = astq.expand_at(f2.node, b2.get(core.id), enclosing_stmt(c2)) if b2.get(core.id) is not None else None
                        k2 = astq.peel(e2, "detach") if e2 is not None else None
                        ok2 = (isinstance(k2, ast.Call) and norm(k2.func) == "self.torch_model") or (isinstance(k2, ast.Subscript) and isinstance(k2.value, ast.Call) and norm(k2.value.func) == "self.torch_model")
                        res.ob(R, ok2, f2.qualname, f"{fi.name} receives the network output itself",
                               f"`{short(c2, 40)}` hands `{short(e2, 70) if e2 is not None else '?'}` to {fi.name}: the maps are converted before peak finding", f"{f2.module.relpath}:{c2.lineno}")
            for p, want in PARAMS.items():
                v = b.get(p)
                got = norm(astq.expand_at(fi.node, v, st)) if v is not None else None
                res.ob(R, got == want, fi.qualname, f"{q.split(':')[1]}({p}={want})",
                       f"`{short(c, 50)}` passes {got if got is not None else 'nothing (the default of ' + q.split(':')[1] + ' is used)'} as `{p}`; the layer is configured with {want}",
                       f"{fi.module.relpath}:{c.lineno}")
    res.ob(R, n_calls >= 4, "sleap_nn.inference", "the four inference layers call the peak finders", f"only {n_calls} peak-finder calls found in the inference layers", "")
    # 2. finder -> rough detector
    for q, rq in finders.items():
        f = prog.func(q)
        res.touch(f)
        calls = [c for c, qq in prog.calls_in(f) if qq == rq]
        ok = len(calls) == 1
        got = None
        if ok:
            b = astq.bind_args(prog.func(rq), calls[0])
            v = b.get("threshold")
            got = norm(astq.expand_at(f.node, v, enclosing_stmt(calls[0]))) if v is not None else None
            ok = got == "threshold" and not astq.assignments_to(f.node, "threshold")
        res.ob(R, ok, f.qualname, "the caller's threshold reaches the rough detector unchanged",
               f"{q.split(':')[1]} hands `{got}` to {rq.split(':')[1]} (or re-binds `threshold`): the detector does not run with the threshold it was given "
               "(e.g. `threshold or 0.2` replaces the valid threshold 0)", f.where)
    # 3. layer constructor -> attribute
    for cq in LAYERS:
        init = prog.cls(cq).methods.get("__init__")
        if init is None:
            raise AnalysisError(f"{cq}.__init__ vanished")
        res.touch(init)
        for attr, prm in (("peak_threshold", "peak_threshold"), ("refinement", "refinement"), ("integral_patch_size", "integral_patch_size")):
            sts = [s_ for s_ in walk_function(init.node) if isinstance(s_, ast.Assign) and norm(s_.targets[0]) == f"self.{attr}"]
            ok = len(sts) == 1 and norm(astq.expand_at(init.node, sts[0].value, sts[0])) == prm and not astq.assignments_to(init.node, prm)
            res.ob(R, ok, init.qualname, f"self.{attr} = {prm}", f"`self.{attr}` is not the constructor argument `{prm}` unchanged", init.where)
    # 4. predictor -> layer constructor
    pm = prog.modules["sleap_nn.inference.predictors"]
    n_ctor = 0
    for fi in prog.all_functions():
        if fi.module is not pm:
            continue
        for c in walk_function(fi.node):
            if not isinstance(c, ast.Call):
                continue
            q = prog.resolve_call(fi, c)
            if q not in LAYERS:
                continue
            init = prog.cls(q).methods["__init__"]
            b = astq.bind_args(init, c, skip_self=True)
            if astq.const_value(b.get("use_gt_centroids")) is True:
                continue  # ground-truth centroids: no peak finding in this layer
            n_ctor += 1
            res.touch(fi)
            st = enclosing_stmt(c)
            role = LAYERS[q]
            v = b.get("peak_threshold")
            alts = sorted({norm(e) for _, e in astq.cases(astq.expand_phi(fi.node, v))}) if v is not None else []
            if role == "single":
                ok = alts == ["self.peak_threshold"]
            else:
                k = 0 if role == "centroid" else 1
                ok = alts == sorted(["self.peak_threshold", f"self.peak_threshold[{k}]"]) or alts == ["self.peak_threshold"]
            res.ob(R, ok, fi.qualname, f"{q.split(':')[1]}(peak_threshold = the {role} threshold)",
                   f"`{q.split(':')[1]}` is built with peak_threshold in {alts}: not the {role} element of the predictor's threshold", f"{fi.module.relpath}:{c.lineno}")
            for p, wants in (("refinement", ("self.integral_refinement", "self.refinement")), ("integral_patch_size", ("self.integral_patch_size",))):
                v = b.get(p)
                got = norm(astq.expand_at(fi.node, v, st)) if v is not None else None
                res.ob(R, got in wants, fi.qualname, f"{q.split(':')[1]}({p}={wants[0]})",
                       f"`{q.split(':')[1]}` is built with {p} = {got if got is not None else 'the constructor default'}", f"{fi.module.relpath}:{c.lineno}")
    res.ob(R, n_ctor >= 4, "sleap_nn.inference.predictors", "the predictors build the four layers", f"only {n_ctor} layer constructions found", "")
    res.floor(R, 30)


def check_numeric_hygiene(prog: Program, res: Result, R: str) -> None:
    """Three conversions in peak_finding.py that decide WHAT is found, independent of the formulas:
    (coords) peak coordinates come from integer subscripts and are converted to a fixed floating type; converting them to
      the MAPS' dtype rounds x = 257 to 256 for bfloat16 maps (x = 2049 to 2048 for float16);
    (fold) (samples, channels) are folded into one axis with reshape - `.view` raises for the channels-last / permuted /
      sliced batches a network may return, so whether a peak is refined depends on the memory layout;
    (patch) refinement patches are cut with kornia's default bilinear sampling; `mode="nearest"` turns the half-cell sampling
      positions of even patch sizes into lopsided patches and biases every refined peak."""
    pf = prog.modules[PF]
    n = 0
    for fi in prog.all_functions():
        if fi.module is not pf:
            continue
        params = set(fi.params)
        for c in walk_function(fi.node):
            if not isinstance(c, ast.Call):
                continue
            if isinstance(c.func, ast.Attribute) and c.func.attr == "to" and c.args and isinstance(c.args[0], ast.Attribute) and c.args[0].attr == "dtype":
                recv = astq.expand_at(fi.node, c.func.value, enclosing_stmt(c))
                from_subs = any(isinstance(x, ast.Call) and norm(x.func).split(".")[-1] in ("where", "nonzero", "argwhere", "argmax", "unravel_index") for x in ast.walk(recv))
                n += 1
                res.touch(fi)
                res.ob(R, not from_subs, fi.qualname, f"`{short(c, 40)}` does not cast subscripts to a tensor's dtype",
                       f"`{short(c, 50)}` converts peak subscripts to the dtype of `{norm(c.args[0].value)}`: for reduced-precision confidence maps the coordinates are rounded to what "
                       "that dtype can represent (257 -> 256 in bfloat16)", f"{fi.module.relpath}:{c.lineno}")
            if isinstance(c.func, ast.Attribute) and c.func.attr == "view":
                recv = astq.expand_at(fi.node, c.func.value, enclosing_stmt(c))
                core = astq.peel(recv, "detach", "float", "to")
                is_input = isinstance(core, ast.Name) and core.id in params and "cms" in core.id
                n += 1
                res.touch(fi)
                res.ob(R, not is_input, fi.qualname, f"`{short(c, 40)}` is not a view of the caller's maps", f"`{short(c, 50)}` takes a `.view` of the confidence maps it was given: "
                       "non-contiguous batches (channels-last, permuted, sliced) raise RuntimeError where reshape copies", f"{fi.module.relpath}:{c.lineno}")
            if prog.resolve_call(fi, c) == "kornia.geometry.transform.crop_and_resize":
                mode = next((k.value for k in c.keywords if k.arg == "mode"), None)
                n += 1
                res.touch(fi)
                res.ob(R, mode is None or astq.const_value(mode) == "bilinear", fi.qualname, "patches are cut with bilinear sampling",
                       f"crop_and_resize is called with mode={short(mode, 20) if mode is not None else ''}: refinement patches are no longer bilinear samples of the map", f"{fi.module.relpath}:{c.lineno}")
    # (squeeze) an argument-less squeeze() drops EVERY unit axis: with exactly one peak / one box / one sample the batch axis
    # goes too, and the code downstream indexes a tensor of lower rank (IndexError, or a crop of the wrong map)
    for fi in prog.all_functions():
        if not (fi.module is pf or (fi.module.name == "sleap_nn.data.instance_cropping" and fi.name == "make_centered_bboxes")):
            continue
        for c in walk_function(fi.node):
            bare = isinstance(c, ast.Call) and ((isinstance(c.func, ast.Attribute) and c.func.attr == "squeeze" and not c.args and not c.keywords and norm(c.func.value) not in ("torch", "np"))
                                                or (norm(c.func) in ("torch.squeeze", "np.squeeze") and len(c.args) == 1 and not c.keywords))
            if bare:
                res.touch(fi)
                res.ob(R, False, fi.qualname, f"{short(c, 40)} names the axis it removes",
                       f"`{short(c, 50)}` squeezes without naming an axis: for a batch that happens to contain exactly one element the batch axis is removed as well and the "
                       "peak path fails (or crops from the wrong map) only for that batch", f"{fi.module.relpath}:{c.lineno}")
    res.ob(R, n >= 2, PF, "conversion sites found", f"only {n} conversion sites found in peak_finding.py", "")
