"""C18 — interchangeable data-pipeline implementations deliver the same frames to the same generators."""

from __future__ import annotations

import ast
import re
from typing import Dict, List, Optional

from ..core import astq
from ..core.program import AnalysisError, Program, ancestors, enclosing_stmt, norm, short, walk_function
from ..engines.geom import Interp
from ..engines.geomval import Cfg, Const, Geo, HDict, Mismatch, Mono, Num, Other, Ref, Top, Tup
from ..report import Result
from ..runner import Variant
from . import _train

PROP = "C18"
EXPLANATION = (
    "(frame) for each model type the coordinate-frame abstract interpretation of the in-memory dataset, the .npz branch and the "
    "chunk function + streaming __getitem__ yields an abstract sample signature - frame (monomial + crop origins) of the image "
    "and of the keypoints/centroids, and for every target-generator call the generator, the frames of its points and grid image "
    "and the sources of sigma/output_stride - and the signatures of the three frameworks must be equal (allocation-site names "
    "normalised); (npz) the np_chunks writer and reader branches are inverse: ToPILImage(image.squeeze(0)) <-> ToTensor(fromarray)"
    ".unsqueeze(0), every other tensor numpy() <-> from_numpy, and the key excluded by the writer is the key special-cased by the "
    "reader; (wiring) get_bin_files and _create_data_loaders_* pair each model type with its own chunk function, streaming class "
    "and Dataset class and hand them the same scale / crop size / max stride / head configs of that model type; (block) each "
    "legacy DataPipe block has, on an abstract example, the same frame effect as its functional counterpart. Not decided: pixel "
    "equality up to 8-bit quantisation."
)
TRUSTED = ["CPython ast", "leaf transfer table of sa/engines/geomleaf.py", "np.savez/np.load and litdata return what was stored (storage contract)"]
CD, SD, GC = _train.CD, _train.SD, _train.GC
MT = "sleap_nn.training.model_trainer:ModelTrainer"


def signature(run: "_train.TrainRun") -> Dict[str, object]:
    spec = _train.MODEL_TYPES[run.mtype]
    cells = run.cells()
    calls = []
    for t in run.I.leaves.target_calls:
        def cn(x):
            x = _train.canon(x) if not isinstance(x, str) else re.sub(r"box@[\w\.]+:\d+", "box", re.sub(r"aug@[\w\.]+", "aug", re.sub(r"eff@[\w\.]+", "eff", x)))
            return x
        rec = (t["generator"], cn(t["points"]), cn(t["image"]), t["sigma"], t["output_stride"])
        if rec not in calls:
            calls.append(rec)
    return {
        "image": _train.canon(cells.get(spec["image"])) if cells.get(spec["image"]) is not None else None,
        "points": _train.canon(cells.get(spec["points"])) if cells.get(spec["points"]) is not None else None,
        "targets": sorted(calls),
        "keys": sorted(k for k in cells if k in ("image", "instances", "centroids", "instance", "instance_image", "centroid", "instance_bbox", "confidence_maps",
                                                 "centroids_confidence_maps", "part_affinity_fields", "num_instances", "frame_idx", "video_idx", "orig_size")),
    }


def check_frame(prog: Program, res: Result) -> None:
    R = "C18-frame"
    for mtype in _train.MODEL_TYPES:
        runs = [_train.run_dataset(prog, mtype, False), _train.run_dataset(prog, mtype, True), _train.run_streaming(prog, mtype)]
        sigs = []
        for r in runs:
            for q in r.I.calls_interpreted:
                if q in prog.functions:
                    res.touch(prog.functions[q])
            for ob in r.I.obligations:
                if ob.ok is None:
                    res.inconclusive(f"[{r.name}] {ob.rule}: {ob.message}")
            sg = signature(r)
            if sg["image"] is None or sg["points"] is None or "TOP" in str(sg):
                res.inconclusive(f"[{r.name}] abstract sample signature incomplete: {sg}")
            sigs.append(sg)
        ref = sigs[0]
        for r, sg in zip(runs[1:], sigs[1:]):
            for part in ("image", "points", "targets", "keys"):
                ok = sg[part] == ref[part]
                res.ob(R, ok, f"model type {mtype}", f"{part}: {runs[0].framework} == {r.framework}",
                       f"for {mtype} the {r.framework} framework delivers {part} = {sg[part]} but {runs[0].framework} delivers {ref[part]}: the frameworks are no longer interchangeable",
                       "", sample={"model_type": mtype, "part": part, "value": ref[part]} if part != "keys" else None)
        res.extra.setdefault("signatures", {})[mtype] = ref
    res.floor(R, 32)


def _key_dispatch(body):
    """The per-key conversion of a loaded chunk, in either spelling:
         for k, v in D.items(): if k != K: out[k] = OTHER else: out[k] = ON_KEY        (or == with the arms swapped)
         out = {k: (ON_KEY if k == K else OTHER) for k, v in D.items()}
       -> (K, key var, value var, D, ON_KEY expr, OTHER expr) or None."""
    def split(test, a, o):
        if isinstance(test, ast.Compare) and len(test.ops) == 1 and isinstance(test.ops[0], (ast.Eq, ast.NotEq)) and isinstance(test.left, ast.Name):
            K = astq.const_value(test.comparators[0])
            if isinstance(K, str):
                return (K, test.left.id, a, o) if isinstance(test.ops[0], ast.Eq) else (K, test.left.id, o, a)
        return None

    def arm_value(arm, kv):
        """the value an arm stores under out[k] (its last statement), with the arm's own named intermediates written out"""
        if not arm or not isinstance(arm[-1], ast.Assign) or not isinstance(arm[-1].targets[0], ast.Subscript) or norm(arm[-1].targets[0].slice) != kv:
            return None, None
        v = arm[-1].value
        local = {norm(x.targets[0]): x.value for x in arm[:-1] if isinstance(x, ast.Assign) and len(x.targets) == 1 and isinstance(x.targets[0], ast.Name)}
        if len(local) != len(arm) - 1:
            return None, None
        from ..core.inline import _Subst, clone
        for _ in range(3):
            v = _Subst(local).visit(clone(v))
        return arm[-1], v

    for st in body:
        for n in ast.walk(st):
            kv = vv = D = None
            if isinstance(n, ast.For) and isinstance(n.iter, ast.Call) and isinstance(n.iter.func, ast.Attribute) and n.iter.func.attr == "items" \
                    and isinstance(n.target, ast.Tuple) and len(n.target.elts) == 2:
                kv, vv = [norm(e) for e in n.target.elts]
                D = norm(n.iter.func.value)
            elif isinstance(n, ast.For) and isinstance(n.target, ast.Name) and ((isinstance(n.iter, ast.Call) and isinstance(n.iter.func, ast.Attribute) and n.iter.func.attr == "keys" and not n.iter.args)
                                                                                or isinstance(n.iter, ast.Name)):
                kv = n.target.id       # for k in D / D.keys(): the value is D[k]
                D = norm(n.iter.func.value) if isinstance(n.iter, ast.Call) else n.iter.id
                vv = f"{D}[{kv}]"
            if kv is not None:
                g = [x for x in n.body if isinstance(x, ast.If)]
                if len(g) == 1 and len(n.body) == 1 and g[0].body and len(g[0].orelse) >= 1:
                    a, av = arm_value(g[0].body, kv)
                    o, ov = arm_value(g[0].orelse, kv)
                    if a is not None and o is not None and norm(a.targets[0].value) == norm(o.targets[0].value):
                        r = split(g[0].test, av, ov)
                        if r and r[1] == kv:
                            return r[0], kv, vv, D, r[2], r[3]
            if isinstance(n, ast.DictComp) and len(n.generators) == 1 and not n.generators[0].ifs:
                g = n.generators[0]
                if isinstance(g.iter, ast.Call) and isinstance(g.iter.func, ast.Attribute) and g.iter.func.attr == "items" and isinstance(g.target, ast.Tuple) and len(g.target.elts) == 2:
                    kv, vv = [norm(e) for e in g.target.elts]
                    if norm(n.key) == kv and isinstance(n.value, ast.IfExp):
                        r = split(n.value.test, n.value.body, n.value.orelse)
                        if r and r[1] == kv:
                            return r[0], kv, vv, norm(g.iter.func.value), r[2], r[3]
    return None


def _writer_conversion(branch: ast.AST, saved: str):
    """How the mapping saved by the chunk writer (`**saved`) is derived from the sample dict, in either spelling:
         for k, v in D.items(): if k != K and isinstance(v, torch.Tensor): D[k] = v.numpy()          (saved is D)
         saved = {k: (v.numpy() if k != K and isinstance(v, torch.Tensor) else v) for k, v in D.items()}
       -> (D, K) or None."""
    def excluded(test, kv, vv):
        if isinstance(test, ast.BoolOp) and isinstance(test.op, ast.And) and len(test.values) == 2:
            ks = [astq.const_value(v.comparators[0]) for v in test.values if isinstance(v, ast.Compare) and len(v.ops) == 1 and isinstance(v.ops[0], ast.NotEq) and norm(v.left) == kv]
            ts = [v for v in test.values if isinstance(v, ast.Call) and norm(v.func) == "isinstance" and len(v.args) == 2 and norm(v.args[0]) == vv and norm(v.args[1]).endswith("Tensor")]
            if len(ks) == 1 and len(ts) == 1 and isinstance(ks[0], str):
                return ks[0]
        return None

    for n in ast.walk(branch):
        if isinstance(n, ast.For) and isinstance(n.iter, ast.Call) and isinstance(n.iter.func, ast.Attribute) and n.iter.func.attr == "items" and norm(n.iter.func.value) == saved \
                and isinstance(n.target, ast.Tuple) and len(n.target.elts) == 2:
            kv, vv = [norm(e) for e in n.target.elts]
            g = [x for x in n.body if isinstance(x, ast.If)]
            if len(g) == 1 and len(n.body) == 1 and not g[0].orelse and len(g[0].body) == 1 and isinstance(g[0].body[0], ast.Assign):
                st = g[0].body[0]
                K = excluded(g[0].test, kv, vv)
                if K is not None and norm(st.targets[0]) == f"{saved}[{kv}]" and norm(st.value) == f"{vv}.numpy()":
                    return saved, K
        if isinstance(n, ast.Assign) and len(n.targets) == 1 and norm(n.targets[0]) == saved and isinstance(n.value, ast.DictComp) and len(n.value.generators) == 1:
            c, g = n.value, n.value.generators[0]
            if not g.ifs and isinstance(g.iter, ast.Call) and isinstance(g.iter.func, ast.Attribute) and g.iter.func.attr == "items" and isinstance(g.target, ast.Tuple) and len(g.target.elts) == 2:
                kv, vv = [norm(e) for e in g.target.elts]
                if norm(c.key) == kv and isinstance(c.value, ast.IfExp) and norm(c.value.body) == f"{vv}.numpy()" and norm(c.value.orelse) == vv:
                    K = excluded(c.value.test, kv, vv)
                    if K is not None:
                        return norm(g.iter.func.value), K
        # a fresh dict filled key by key:  for k, v in D.items(): if k == K: M[k] = <image>  elif isinstance(v, Tensor): M[k] = v.numpy()  else: M[k] = v
        if isinstance(n, ast.For) and isinstance(n.iter, ast.Call) and isinstance(n.iter.func, ast.Attribute) and n.iter.func.attr == "items" and norm(n.iter.func.value) != saved \
                and isinstance(n.target, ast.Tuple) and len(n.target.elts) == 2 and len(n.body) == 1 and isinstance(n.body[0], ast.If):
            kv, vv = [norm(e) for e in n.target.elts]
            D = norm(n.iter.func.value)
            i1 = n.body[0]
            i2 = i1.orelse[0] if len(i1.orelse) == 1 and isinstance(i1.orelse[0], ast.If) else None
            t1 = i1.test
            isK = isinstance(t1, ast.Compare) and len(t1.ops) == 1 and isinstance(t1.ops[0], ast.Eq) and norm(t1.left) == kv and isinstance(astq.const_value(t1.comparators[0]), str)
            if isK and i2 is not None and len(i1.body) == 1 and len(i2.body) == 1 and len(i2.orelse) == 1 \
                    and isinstance(i2.test, ast.Call) and norm(i2.test.func) == "isinstance" and len(i2.test.args) == 2 and norm(i2.test.args[0]) == vv and norm(i2.test.args[1]).endswith("Tensor"):
                a1, a2, a3 = i1.body[0], i2.body[0], i2.orelse[0]
                tgt = f"{saved}[{kv}]"
                if all(isinstance(a_, ast.Assign) and norm(a_.targets[0]) == tgt for a_ in (a1, a2, a3)) and norm(a2.value) == f"{vv}.numpy()" and norm(a3.value) == vv:
                    K = astq.const_value(t1.comparators[0])
                    fn_ = n
                    while fn_ is not None and not isinstance(fn_, (ast.FunctionDef, ast.AsyncFunctionDef)):
                        fn_ = getattr(fn_, "_parent", None)
                    img = astq.expand_at(fn_, a1.value, a1, keep=[D, vv, kv]) if fn_ is not None else a1.value
                    # inside the K arm the loop value IS D[K]
                    img_txt = norm(img).replace(f"{vv}.squeeze", f"{D}['{K}'].squeeze") if img is not None else ""
                    try:
                        img = ast.parse(img_txt, mode="eval").body
                    except SyntaxError:
                        pass
                    return D, K, img
    return None


def check_npz(prog: Program, res: Result) -> None:
    import re as _re18
    R = "C18-npz"
    writer_path: Dict[str, Optional[str]] = {}
    for cname, key in (("BaseDataset", "image"), ("CenteredInstanceDataset", "instance_image"), ("CentroidDataset", "image")):
        fi = prog.cls(f"{CD}:{cname}").methods.get("_fill_cache")
        res.touch(fi)
        branch = [n for n in walk_function(fi.node) if isinstance(n, ast.If) and norm(n.test) == "self.np_chunks"]
        if not branch:
            # guard-clause form:  if not self.np_chunks: <in-memory entry>; continue   - the writer is the rest of the loop body
            for g in walk_function(fi.node):
                if isinstance(g, ast.If) and norm(g.test) == "not self.np_chunks" and not g.orelse and g.body and isinstance(g.body[-1], ast.Continue):
                    par = getattr(g, "_parent", None)
                    blk = getattr(par, "body", [])
                    if any(g is x for x in blk):
                        rest = blk[[i for i, x in enumerate(blk) if x is g][0] + 1:]
                        region = ast.If(test=ast.Attribute(value=ast.Name(id="self", ctx=ast.Load()), attr="np_chunks", ctx=ast.Load()), body=rest, orelse=[])
                        ast.copy_location(region, g)
                        region._parent = par  # type: ignore[attr-defined]
                        branch.append(region)
        res.ob(R, len(branch) == 1, fi.qualname, "one np_chunks branch in the cache fill", f"{len(branch)} np_chunks branches", fi.where)
        if len(branch) != 1:
            continue
        b = branch[0]
        sv = [c for c in ast.walk(b) if isinstance(c, ast.Call) and norm(c.func) in ("np.savez_compressed", "numpy.savez_compressed", "np.savez")]
        stars = [k.value for c in sv for k in c.keywords if k.arg is None]
        saved = stars[0].id if len(sv) == 1 and len(stars) == 1 and isinstance(stars[0], ast.Name) else None
        conv = _writer_conversion(b, saved) if saved is not None else None     # (source dict, excluded key)
        src = conv[0] if conv else None
        pil_forms = (f"self.transform_to_pil({src}['{key}'].squeeze(dim=0))", f"self.transform_to_pil({src}['{key}'].squeeze(0))")
        if conv is not None and len(conv) == 3:
            # the saved mapping is a fresh dict: the image entry is written there
            pv = conv[2]
            ok = pv is not None and norm(pv) in pil_forms
            res.ob(R, ok, fi.qualname, f"writer: {key} -> PIL of the squeezed image", f"the writer stores '{key}' as `{short(pv, 60) if pv is not None else '?'}`", fi.where)
        else:
            pil = [s for s in b.body if isinstance(s, ast.Assign) and src is not None and norm(s.targets[0]) == f"{src}['{key}']"]
            ok = len(pil) == 1 and norm(pil[0].value) in pil_forms
            res.ob(R, ok, fi.qualname, f"writer: {key} -> PIL of the squeezed image", f"the writer stores sample['{key}'] as `{short(pil[0].value, 60) if pil else '?'}`", fi.where)
        excl = conv[1] if conv else None
        res.ob(R, conv is not None and excl == key, fi.qualname, f"writer: every other tensor -> numpy, '{key}' excluded",
               f"the writer's conversion loop excludes '{excl}' (expected '{key}') or does not store v.numpy()", fi.where)
        anchor_ = b if any(b is x for x in walk_function(fi.node)) else (b.body[0] if b.body else b)     # the guard-clause region is synthetic
        loops_ = [n for n in walk_function(fi.node) if isinstance(n, ast.For) and norm(n.iter).startswith("enumerate(") and astq.in_body_of(anchor_, n)]
        lv = norm(loops_[-1].target.elts[0]) if loops_ and isinstance(loops_[-1].target, ast.Tuple) else None
        path = astq.expand_at(fi.node, sv[0].args[0], astq_enclosing18(sv[0])) if len(sv) == 1 and sv[0].args else None
        loop_vars = {t_ for l_ in walk_function(fi.node) if isinstance(l_, (ast.For, ast.comprehension)) for t_ in astq.target_names(l_.target)}
        # the file of sample i is a function of np_chunks_path and the enumerate position only; the reader must form the SAME path
        ptxt = _re18.sub(rf"\b{lv}\b", "_IDX_", norm(path)) if lv is not None and path is not None else None
        writer_path[cname] = ptxt
        ok = conv is not None and ptxt is not None and "_IDX_" in ptxt and "self.np_chunks_path" in ptxt and not ({n_ for n_ in astq.names_in(path) if astq.assignments_to(fi.node, n_) or n_ in loop_vars} - {lv})
        res.ob(R, ok, fi.qualname, "writer: np.savez_compressed(<path>/sample_<idx>.npz, **sample)", "the sample is not saved whole under a path made of np_chunks_path and its index", fi.where)
    for cname, key in (("BottomUpDataset", "image"), ("CenteredInstanceDataset", "instance_image"), ("CentroidDataset", "image"), ("SingleInstanceDataset", "image")):
        gi = prog.cls(f"{CD}:{cname}").methods.get("__getitem__")
        res.touch(gi)
        branch = [n for n in walk_function(gi.node) if isinstance(n, ast.If) and norm(n.test) in ("self.np_chunks", "not self.np_chunks")]
        if len(branch) != 1:
            res.ob(R, False, gi.qualname, "one np_chunks branch in __getitem__", f"{len(branch)} np_chunks branches", gi.where)
            continue
        b0 = branch[0]
        # normalise the polarity: `b.body` is the chunk arm, `b.orelse` the in-memory arm
        b = b0 if norm(b0.test) == "self.np_chunks" else ast.If(test=b0.test, body=b0.orelse, orelse=b0.body)
        ld = [s for s in b.body if isinstance(s, ast.Assign) and isinstance(s.value, ast.Call) and norm(s.value.func) in ("np.load", "numpy.load")]
        ipar = gi.pos_params[1] if len(gi.pos_params) > 1 else "index"
        rp = astq.expand_at(gi.node, ld[0].value.args[0], ld[0]) if len(ld) == 1 and ld[0].value.args else None
        rtxt = _re18.sub(rf"\b{ipar}\b", "_IDX_", norm(rp)) if rp is not None else None
        wtxt = writer_path.get(cname if cname in writer_path else "BaseDataset")
        res.ob(R, rtxt is not None and rtxt == wtxt, gi.qualname, "reader: np.load of the file the writer saved for that index",
               f"the reader loads `{rtxt}` but the writer saved sample i under `{wtxt}`", gi.where)
        disp = _key_dispatch(b.body)
        ok = disp is not None
        if ok:
            K, kv, vv, src, on_key, other = disp
            img_forms = {f"self.transform_pil_to_tensor(Image.fromarray({src}['{key}'])).unsqueeze(dim=0)", f"self.transform_pil_to_tensor(Image.fromarray({vv})).unsqueeze(dim=0)",
                         f"self.transform_pil_to_tensor(Image.fromarray({src}[{kv}])).unsqueeze(dim=0)", f"self.transform_pil_to_tensor(Image.fromarray({vv})).unsqueeze(0)"}
            ok = K == key and norm(other) == f"torch.from_numpy({vv})" and norm(on_key).replace('"', "'") in img_forms
        res.ob(R, ok, gi.qualname, f"reader: '{key}' -> ToTensor(fromarray).unsqueeze(0), every other key -> from_numpy",
               f"the reader's branch on '{key}' is not the inverse of the writer (ToTensor(Image.fromarray(.)).unsqueeze(0) / torch.from_numpy)", gi.where)
        mem = [s for s in b.orelse if isinstance(s, ast.Assign) and norm(s.targets[0]) == "sample"]
        res.ob(R, len(mem) == 1 and norm(mem[0].value) == "self.cache[index].copy()", gi.qualname, "in-memory branch reads self.cache[index].copy()", "the in-memory branch differs", gi.where)
    bi = prog.cls(f"{CD}:BaseDataset").methods.get("__init__")
    d = {norm(s.targets[0]): norm(s.value) for s in walk_function(bi.node) if isinstance(s, ast.Assign)}
    res.ob(R, d.get("self.transform_to_pil") == "T.ToPILImage()" and d.get("self.transform_pil_to_tensor") == "T.ToTensor()", bi.qualname, "ToPILImage / ToTensor pair",
           f"transforms are {d.get('self.transform_to_pil')} / {d.get('self.transform_pil_to_tensor')}", bi.where)
    res.floor(R, 17)


def _model_type_arms(fn: ast.AST):
    """[(model type, statements executed for it)] of a `if self.model_type == "...": ... elif ...` dispatch: the arm's own body
    followed by the statements that come after the whole chain in the same block (a dispatch that only selects a class and
    its arguments, with the construction written once after it, is read arm by arm)."""
    out = []
    for node in walk_function(fn):
        if not (isinstance(node, ast.If) and isinstance(node.test, ast.Compare) and norm(node.test.left) == "self.model_type" and isinstance(node.test.comparators[0], ast.Constant)):
            continue
        top = node
        while True:
            par = getattr(top, "_parent", None)
            if isinstance(par, ast.If) and len(par.orelse) == 1 and par.orelse[0] is top and isinstance(par.test, ast.Compare) and norm(par.test.left) == "self.model_type":
                top = par
            else:
                break
        par = getattr(top, "_parent", None)
        tail = []
        for fld in ("body", "orelse", "finalbody"):
            blk = getattr(par, fld, None)
            if isinstance(blk, list) and any(top is x for x in blk):
                tail = blk[[i for i, x in enumerate(blk) if x is top][0] + 1:]
        out.append((node.test.comparators[0].value, list(node.body) + list(tail), node))
    return out


def _arm_call(fn: ast.AST, stmts, st: ast.Assign):
    """(class text, {keyword: normalised value}) of the construction `st` as executed in the arm `stmts`: a class chosen by name
    in the arm (`dataset_cls = BottomUpDataset`) and `**kwargs` dicts written as literals in the arm are read through."""
    call = st.value
    cls = norm(call.func)
    if isinstance(call.func, ast.Name):
        b = [x for x in stmts if isinstance(x, ast.Assign) and len(x.targets) == 1 and norm(x.targets[0]) == call.func.id and isinstance(x.value, (ast.Name, ast.Attribute))]
        if len(b) == 1:
            cls = norm(b[0].value)
    kw = {}
    for k in call.keywords:
        if k.arg is not None:
            kw[k.arg] = norm(astq.expand_at(fn, k.value, st))
        elif isinstance(k.value, ast.Name):
            lit = [x for x in stmts if isinstance(x, ast.Assign) and len(x.targets) == 1 and norm(x.targets[0]) == k.value.id and isinstance(x.value, ast.Dict)]
            if len(lit) == 1:
                for kk, vv in zip(lit[0].value.keys, lit[0].value.values):
                    if isinstance(kk, ast.Constant) and isinstance(kk.value, str):
                        kw[kk.value] = norm(astq.expand_at(fn, vv, lit[0]))
    return cls, kw


def check_wiring(prog: Program, res: Result) -> None:
    R = "C18-wiring"
    ci = prog.cls(MT)
    # torch datasets
    td = ci.methods.get("_create_data_loaders_torch_dataset")
    res.touch(td)
    n = 0
    for mtype, arm, node in _model_type_arms(td.node):
        if True:
            if mtype not in _train.MODEL_TYPES:
                continue
            want = _train.MODEL_TYPES[mtype]["ds"]
            for st in arm:
                if isinstance(st, ast.Assign) and isinstance(st.value, ast.Call) and isinstance(st.targets[0], ast.Attribute) and "dataset" in norm(st.targets[0]):
                    n += 1
                    cls, kw = _arm_call(td.node, arm, st)
                    res.ob(R, cls == want, td.qualname, f"{mtype}: {norm(st.targets[0])} = {want}(...)", f"model type {mtype} builds a {cls}", f"{td.module.relpath}:{st.lineno}")
                    ok = kw.get("scale") == "self.config.data_config.preprocessing.scale" and kw.get("max_stride") == "self.max_stride" \
                        and kw.get("confmap_head_config") == f"self.config.model_config.head_configs.{mtype}.confmaps" and kw.get("max_hw") == "(self.max_height, self.max_width)" \
                        and kw.get("np_chunks") == "self.np_chunks" and kw.get("data_config") == "self.config.data_config"
                    if mtype == "bottomup":
                        ok = ok and kw.get("pafs_head_config") == "self.config.model_config.head_configs.bottomup.pafs"
                    if mtype == "centered_instance":
                        ok = ok and kw.get("crop_hw") == "(self.crop_hw, self.crop_hw)"
                    is_train = "train" in norm(st.targets[0])
                    ok = ok and kw.get("labels") == ("train_labels" if is_train else "val_labels") and kw.get("np_chunks_path") == ("self.train_np_chunks_path" if is_train else "self.val_np_chunks_path")
                    ok = ok and kw.get("apply_aug") == ("self.config.data_config.use_augmentations_train" if is_train else "False")
                    res.ob(R, ok, td.qualname, f"{mtype}/{'train' if is_train else 'val'}: scale, stride, heads, crop, labels and chunk dir of that model type and split",
                           f"{cls} for {mtype} is wired with {kw}", f"{td.module.relpath}:{st.lineno}")
    res.ob(R, n == 8, td.qualname, "train+val dataset for each of the 4 model types", f"{n} dataset constructions", td.where)
    # streaming datasets
    ld = ci.methods.get("_create_data_loaders_litdata")
    res.touch(ld)
    n = 0
    for node in walk_function(ld.node):
        if isinstance(node, ast.If) and isinstance(node.test, ast.Compare) and norm(node.test.left) == "self.model_type" and isinstance(node.test.comparators[0], ast.Constant):
            mtype = node.test.comparators[0].value
            if mtype not in _train.MODEL_TYPES:
                continue
            want = _train.MODEL_TYPES[mtype]["stream"]
            for st in node.body:
                if isinstance(st, ast.Assign) and isinstance(st.value, ast.Call):
                    n += 1
                    cls = norm(st.value.func)
                    kw = {k.arg: norm(astq.expand_at(ld.node, k.value, st)) for k in st.value.keywords}
                    res.ob(R, cls == want, ld.qualname, f"{mtype}: {want}", f"model type {mtype} streams through {cls}", f"{ld.module.relpath}:{st.lineno}")
                    ok = kw.get("confmap_head") == f"self.config.model_config.head_configs.{mtype}.confmaps" and kw.get("max_stride") == "self.max_stride"
                    if mtype == "bottomup":
                        ok = ok and kw.get("pafs_head") == "self.config.model_config.head_configs.bottomup.pafs" and kw.get("edge_inds") == "self.edge_inds"
                    if mtype == "centered_instance":
                        ok = ok and kw.get("crop_hw") == "(self.crop_hw, self.crop_hw)" and kw.get("input_scale") == "self.config.data_config.preprocessing.scale"
                    is_train = "train" in norm(st.targets[0])
                    ok = ok and kw.get("input_dir") == ("self.train_litdata_chunks_path" if is_train else "self.val_litdata_chunks_path")
                    res.ob(R, ok, ld.qualname, f"{mtype}/{'train' if is_train else 'val'}: heads, stride, crop and chunk dir of that model type and split",
                           f"{cls} for {mtype} is wired with {kw}", f"{ld.module.relpath}:{st.lineno}")
    res.ob(R, n == 8, ld.qualname, "train+val streaming dataset for each of the 4 model types", f"{n} streaming dataset constructions", ld.where)
    # subprocess arguments
    # (the Popen argument list, wherever in this method - nested helper included - it is written)
    holders = [f_ for q_, f_ in prog.functions.items() if q_ == ld.qualname or q_.startswith(ld.qualname + ".<locals>.")]
    sp = next((f_ for f_ in holders if any(isinstance(c_, ast.Call) and norm(c_.func).endswith("Popen") for c_ in walk_function(f_.node))), None)
    if sp is None:
        raise AnalysisError("the subprocess.Popen call that starts the chunk generator vanished")
    lst = [n_ for n_ in walk_function(sp.node) if isinstance(n_, ast.List) and len(n_.elts) > 10]
    argv = [norm(e).strip("f'\"") for e in lst[0].elts] if lst else []
    pairs = {argv[i]: argv[i + 1] for i in range(3, len(argv) - 1, 2)} if argv else {}
    want = {"--model_type": "{self.model_type}", "--scale": "{self.config.data_config.preprocessing.scale}", "--crop_hw": "{self.crop_hw}", "--max_height": "{self.max_height}",
            "--max_width": "{self.max_width}", "--backbone_type": "{self.backbone_type}", "--bin_files_path": "{self.litdata_chunks_path}", "--dir_path": "{self.dir_path}"}
    for k, v in want.items():
        res.ob(R, pairs.get(k) == v, sp.qualname, f"{k} {v}", f"the chunk generator is started with {k} = {pairs.get(k)}", sp.where)
    # get_bin_files: module level dispatch
    gb = prog.module("sleap_nn.training.get_bin_files")
    n = 0
    for node in ast.walk(gb.tree):
        if isinstance(node, ast.If) and isinstance(node.test, ast.Compare) and norm(node.test.left) == "args.model_type" and isinstance(node.test.comparators[0], ast.Constant):
            mtype = node.test.comparators[0].value
            if mtype not in _train.MODEL_TYPES:
                continue
            n += 1
            parts = [c for st in node.body for c in ast.walk(st) if isinstance(c, ast.Call) and norm(c.func) == "functools.partial"]
            ok = len(parts) == 1 and norm(parts[0].args[0]) == _train.MODEL_TYPES[mtype]["chunk"]
            res.ob(R, ok, "sleap_nn.training.get_bin_files", f"{mtype} -> {_train.MODEL_TYPES[mtype]['chunk']}", f"model type {mtype} is chunked by {norm(parts[0].args[0]) if parts else '?'}",
                   f"{gb.relpath}:{node.lineno}")
            if parts:
                kw = {k.arg: norm(k.value) for k in parts[0].keywords}
                ok = kw.get("scale") == "args.scale" and kw.get("max_hw") == "(args.max_height, args.max_width)" and kw.get("data_config") == "config.data_config"
                if mtype == "centered_instance":
                    ok = ok and kw.get("crop_size") == "(args.crop_hw, args.crop_hw)" and kw.get("anchor_ind") == "config.model_config.head_configs.centered_instance.confmaps.anchor_part"
                if mtype == "centroid":
                    ok = ok and kw.get("anchor_ind") == "config.model_config.head_configs.centroid.confmaps.anchor_part"
                res.ob(R, ok, "sleap_nn.training.get_bin_files", f"{mtype}: scale / max_hw / crop / anchor forwarded", f"{_train.MODEL_TYPES[mtype]['chunk']} is bound with {kw}", f"{gb.relpath}:{node.lineno}")
            opts = [c for st in node.body for c in ast.walk(st) if isinstance(c, ast.Call) and norm(c.func) == "ld.optimize"]
            dirs = sorted(norm(k.value) for c in opts for k in c.keywords if k.arg == "output_dir")
            ok = len(opts) == 2 and "train_chunks" in dirs[0] and "val_chunks" in dirs[1]
            ins = {("train" if "train_chunks" in norm([k.value for k in c.keywords if k.arg == "output_dir"][0]) else "val"): norm([k.value for k in c.keywords if k.arg == "inputs"][0]) for c in opts} if ok else {}
            ok = ok and "train_labels" in ins.get("train", "") and "val_labels" in ins.get("val", "")
            res.ob(R, ok, "sleap_nn.training.get_bin_files", f"{mtype}: train labels -> train_chunks, val labels -> val_chunks", f"chunk outputs/inputs are {dirs} / {ins}", f"{gb.relpath}:{node.lineno}")
    res.ob(R, n == 4, "sleap_nn.training.get_bin_files", "all four model types dispatched", f"{n} model types dispatched", gb.relpath)
    res.floor(R, 50)


def check_block(prog: Program, res: Result) -> None:
    """Each DataPipe block has the frame effect of its functional counterpart on an abstract example."""
    R = "C18-block"
    m0 = Mono.sym("a")
    s = Num(Mono.sym("scale"))

    def example(I: Interp):
        return I.new_dict({"image": Geo("IMG", m0), "instances": Geo("PTS", m0), "centroids": Geo("PTS", m0), "num_instances": Other("n"),
                           "video_idx": Other("v"), "frame_idx": Other("f"), "orig_size": Other("o")})

    def run_block(cls_q: str, kwargs: Dict[str, object]):
        I = Interp(prog)
        src = I.new_list(example(I))
        ci = prog.cls(cls_q)
        obj = I.instantiate(ci, [src], kwargs)
        out = I.call_function(prog.lookup_method(ci, "__iter__"), [], {}, self_val=obj)
        el = I.elem_of(out)
        for q in I.calls_interpreted:
            if q in prog.functions:
                res.touch(prog.functions[q])
        return I, (I.obj(el).cells if isinstance(el, Ref) and isinstance(I.obj(el), HDict) else {})

    def run_func(q: str, args, kwargs):
        I = Interp(prog)
        return I, I.call_function(prog.func(q), args, kwargs)

    D = "sleap_nn.data"
    # Normalizer
    I, c = run_block(f"{D}.normalization:Normalizer", {"is_rgb": Other("rgb")})
    _, f = run_func(f"{D}.normalization:apply_normalization", [Geo("IMG", m0)], {})
    res.ob(R, repr(c.get("image")) == repr(f) == repr(Geo("IMG", m0)), "Normalizer", f"Normalizer image {c.get('image')!r} == apply_normalization {f!r}", f"Normalizer yields {c.get('image')!r}, apply_normalization {f!r}", "")
    # Resizer
    I, c = run_block(f"{D}.resizing:Resizer", {"scale": s})
    _, f = run_func(f"{D}.resizing:apply_resizer", [Geo("IMG", m0), Geo("PTS", m0)], {"scale": s})
    ok = isinstance(f, Tup) and repr(c.get("image")) == repr(f.elts[0]) and repr(c.get("instances")) == repr(f.elts[1])
    res.ob(R, ok, "Resizer", f"Resizer ({c.get('image')!r}, {c.get('instances')!r}) == apply_resizer {f!r}", f"Resizer yields ({c.get('image')!r}, {c.get('instances')!r}) but apply_resizer {f!r}", "",
           sample={"block": repr((c.get("image"), c.get("instances"))), "function": repr(f)})
    # PadToStride
    I, c = run_block(f"{D}.resizing:PadToStride", {"max_stride": Other("ms")})
    _, f = run_func(f"{D}.resizing:apply_pad_to_stride", [Geo("IMG", m0), Other("ms")], {})
    res.ob(R, repr(c.get("image")) == repr(f), "PadToStride", f"PadToStride {c.get('image')!r} == apply_pad_to_stride {f!r}", f"PadToStride yields {c.get('image')!r}, apply_pad_to_stride {f!r}", "")
    pads = [ob for ob in I.obligations if ob.rule == "R-pad"]
    res.ob(R, bool(pads) and all(ob.ok for ob in pads), "PadToStride", "pads right/bottom", "PadToStride pads left/top", "")
    # InstanceCentroidFinder
    I, c = run_block(f"{D}.instance_centroids:InstanceCentroidFinder", {"anchor_ind": Other("anchor")})
    _, f = run_func(f"{D}.instance_centroids:generate_centroids", [Geo("PTS", m0)], {"anchor_ind": Other("anchor")})
    res.ob(R, repr(c.get("centroids")) == repr(f), "InstanceCentroidFinder", f"centroids {c.get('centroids')!r} == generate_centroids {f!r}", f"block {c.get('centroids')!r} vs function {f!r}", "")
    cf = prog.cls(f"{D}.instance_centroids:InstanceCentroidFinder").methods["__iter__"]
    calls = [cc for cc, q in prog.calls_in(cf) if q == f"{D}.instance_centroids:generate_centroids"]
    ok = len(calls) == 1
    if ok:
        bnd = astq.bind_args(prog.func(f"{D}.instance_centroids:generate_centroids"), calls[0])
        ok = astq.xnorm(cf.node, bnd.get("points")).replace('"', "'") == "ex['instances']" and norm(bnd.get("anchor_ind")) == "self.anchor_ind"
    res.ob(R, ok, cf.qualname, "block delegates to generate_centroids(ex['instances'], anchor_ind=self.anchor_ind)", "InstanceCentroidFinder no longer delegates to generate_centroids", cf.where)
    # InstanceCropper
    I, c = run_block(f"{D}.instance_cropping:InstanceCropper", {"crop_hw": Tup((Other("h"), Other("w")))})
    I2, f = run_func(f"{D}.instance_cropping:generate_crops", [Geo("IMG", m0), Geo("PTS", m0), Geo("PTS", m0), Tup((Other("h"), Other("w")))], {})
    fc = I2.obj(f).cells if isinstance(f, Ref) else {}
    for key in ("instance_image", "instance", "centroid", "instance_bbox"):
        a, b = _train.canon(c.get(key)), _train.canon(fc.get(key))
        res.ob(R, a == b and c.get(key) is not None, "InstanceCropper", f"{key}: {a} == generate_crops {b}", f"InstanceCropper yields {key} = {a} but generate_crops {b}", "")
    # target generators: block and function must register the same (points, image) frames
    for cls_q, fn_q, kw, fargs in (
        (f"{D}.confidence_maps:ConfidenceMapGenerator", f"{D}.confidence_maps:generate_confmaps", {"sigma": Cfg(("h", "sigma")), "output_stride": Cfg(("h", "output_stride"))}, "instances"),
        (f"{D}.confidence_maps:MultiConfidenceMapGenerator", f"{D}.confidence_maps:generate_multiconfmaps", {"sigma": Cfg(("h", "sigma")), "output_stride": Cfg(("h", "output_stride")), "centroids": Const(False)}, "instances"),
        (f"{D}.confidence_maps:MultiConfidenceMapGenerator", f"{D}.confidence_maps:generate_multiconfmaps", {"sigma": Cfg(("h", "sigma")), "output_stride": Cfg(("h", "output_stride")), "centroids": Const(True)}, "centroids"),
        (f"{D}.edge_maps:PartAffinityFieldsGenerator", f"{D}.edge_maps:generate_pafs", {"sigma": Cfg(("h", "sigma")), "output_stride": Cfg(("h", "output_stride")), "edge_inds": Other("edges"), "flatten_channels": Const(True)}, "instances"),
    ):
        I, c = run_block(cls_q, kw)
        tc = I.leaves.target_calls
        bad = [ob for ob in I.obligations if ob.rule == "R-reg" and ob.ok is not True]
        ok = len(tc) >= 1 and not bad and all(t["points"] == repr(Geo("PTS", m0)) and t["image"] == repr(Geo("IMG", m0)) for t in tc)
        res.ob(R, ok, cls_q.split(":")[-1], f"block draws {fargs} on the grid of ex['image'] (same frame)",
               f"{cls_q.split(':')[-1]} draws targets from {[t['points'] for t in tc]} on the grid of {[t['image'] for t in tc]} {[ob.message for ob in bad][:1]}", "")
        out_key = [k for k in c if k in ("confidence_maps", "centroids_confidence_maps", "part_affinity_fields")]
        want = "part_affinity_fields" if "PartAffinity" in cls_q else ("centroids_confidence_maps" if kw.get("centroids") == Const(True) else "confidence_maps")
        res.ob(R, out_key == [want], cls_q.split(":")[-1], f"result stored under '{want}'", f"{cls_q.split(':')[-1]} stores its result under {out_key}", "")
    res.floor(R, 18)


def check_memo(prog: Program, res: Result) -> None:
    """The one-entry frame-image memo of the in-memory / npz datasets (`self.cache_lf`): an image may be re-used only
    for the SAME labelled frame, i.e. the memo key is the index by which the frame was fetched from self.labels (a
    frame number is not unique across videos).  The chunk/streaming path reads lf.image per frame and has no memo, so a
    wrongly keyed memo is a disagreement between the frameworks."""
    R = "C18-memo"
    n = 0
    live = {f.qualname for f in prog.all_functions()}
    for ci in prog.classes.values():
        if ci.module.name != "sleap_nn.data.custom_datasets":
            continue
        for fi in ci.methods.values():
            uses = [x for x in walk_function(fi.node) if isinstance(x, ast.Attribute) and norm(x) == "self.cache_lf"]
            if not uses or fi.name == "__init__" or fi.qualname not in live:   # an absorbed helper is judged inside its caller
                continue
            res.touch(fi)
            fetch = [st for st in walk_function(fi.node) if isinstance(st, ast.Assign) and isinstance(st.value, ast.Subscript) and norm(st.value.value) == "self.labels"]
            res.ob(R, len(fetch) == 1, fi.qualname, "one frame fetch self.labels[k]", f"{len(fetch)} fetches from self.labels", fi.where)
            if len(fetch) != 1:
                continue
            key, lf = norm(fetch[0].value.slice), norm(fetch[0].targets[0])
            for c in walk_function(fi.node):
                if isinstance(c, ast.Compare) and any(norm(x) == "self.cache_lf[0]" for x in [c.left] + c.comparators):
                    n += 1
                    other = [norm(x) for x in [c.left] + c.comparators if norm(x) != "self.cache_lf[0]"]
                    res.ob(R, other == [key] and isinstance(c.ops[0], (ast.Eq, ast.NotEq)), fi.qualname, f"memo hit tests the fetch index `{key}`",
                           f"`{short(c, 50)}` re-uses the memoised image when {other} matches, but the frame was fetched by `{key}`: two labelled frames that "
                           f"share {other} (same frame number in different videos) get the same image", f"{fi.module.relpath}:{c.lineno}")
                    # the memo is refreshed on the MISS arm of that test
                    host = getattr(c, "_parent", None)
                    if isinstance(host, ast.If) and host.test is c:
                        miss = host.orelse if isinstance(c.ops[0], ast.Eq) else host.body
                        refreshed = any(isinstance(x, ast.Assign) and norm(x.targets[0]) == "self.cache_lf" for st_ in miss for x in ast.walk(st_))
                        res.ob(R, refreshed, fi.qualname, "a miss re-reads the frame image and refreshes the memo",
                               f"under `{short(c, 40)}` the memo is not refreshed on the miss arm: a stale image is used for a new frame", f"{fi.module.relpath}:{c.lineno}")
            for st in walk_function(fi.node):
                if isinstance(st, ast.Assign) and norm(st.targets[0]) == "self.cache_lf":
                    n += 1
                    v = st.value
                    ok = isinstance(v, (ast.List, ast.Tuple)) and len(v.elts) == 2 and norm(v.elts[0]) == key
                    if ok:
                        img = astq.deref(fi.node, v.elts[1]) if not isinstance(v.elts[1], ast.Name) else None
                        defs = [d for d in astq.assignments_to(fi.node, v.elts[1].id) if isinstance(d, ast.Assign)] if isinstance(v.elts[1], ast.Name) else []
                        ok = any(norm(d.value) == f"{lf}.image" for d in defs) or (img is not None and norm(img) == f"{lf}.image")
                    res.ob(R, ok, fi.qualname, f"memo stores ({key}, {lf}.image)", f"`{short(st, 50)}` does not store the fetch index with that frame's image", f"{fi.module.relpath}:{st.lineno}")
    # the memo is an optimisation: a dataset without one reads every frame afresh, which is always right.  The rule is armed
    # (and must find its sites) only while some method still uses self.cache_lf.
    any_memo = any(isinstance(x, ast.Attribute) and norm(x) == "self.cache_lf" for ci in prog.classes.values() if ci.module.name == "sleap_nn.data.custom_datasets"
                   for fi in ci.methods.values() if fi.name != "__init__" for x in walk_function(fi.node))
    if any_memo:
        res.floor(R, 2)
        if n < 2:
            raise AnalysisError("C18-memo: the frame-image memo (self.cache_lf) is used but its hit test / refresh was not found")
    else:
        res.count(R, 0)


def check_index(prog: Program, res: Result) -> None:
    """The (frame, instance) index list of the centered-instance datasets and the cache fill agree on WHAT the instance
    index counts: _get_instance_idx_list enumerates lf.instances (after the in-place user-instance narrowing) and
    _fill_cache stacks the instances of `lf` and selects that index.  If the index is taken over another sequence (a local
    filtered list, lf.user_instances) the in-memory / npz datasets serve a different animal than the chunk + streaming
    path, which crops every instance of the frame in order."""
    R = "C18-index"
    ci = prog.cls(f"{CD}:CenteredInstanceDataset")
    gl, fc = ci.methods.get("_get_instance_idx_list"), ci.methods.get("_fill_cache")
    if gl is None or fc is None:
        raise AnalysisError("CenteredInstanceDataset._get_instance_idx_list/_fill_cache vanished")
    res.touch(gl)
    res.touch(fc)
    rets = [n for n in walk_function(gl.node) if isinstance(n, ast.Return) and isinstance(n.value, ast.Name)]
    builds = astq.list_builds(gl.node, rets[0].value.id) if len(rets) == 1 else []
    res.ob(R, len(builds) == 1, gl.qualname, "one place fills the (frame, instance) index list", f"{len(builds)} places fill the index list", gl.where)
    for bd in builds:
        g = bd.gens[-1] if bd.gens else None
        le = astq.loop_elems(g, gl.node) if g is not None else None
        site = bd.site if isinstance(bd.site, ast.stmt) else astq_enclosing18(bd.site)
        seq = astq.norm(astq.expand_at(gl.node, le.seq, site, keep=["lf"])) if le is not None else None
        idx_ok = le is not None and le.index is not None and isinstance(bd.elt, ast.Tuple) and len(bd.elt.elts) == 2 and norm(bd.elt.elts[1]) == le.index
        res.ob(R, idx_ok and seq in ("lf.instances", "lf"), gl.qualname, "instance index = position in lf.instances",
               f"the instance index enumerates `{seq}`, not `lf.instances`: _fill_cache selects that index among ALL instances of the frame, so another animal is served "
               "(in-memory / npz datasets disagree with the chunk + streaming path)", f"{gl.module.relpath}:{site.lineno}")
    # the cache fill stacks the instances of the same frame object, in order
    stacks = [c for c in walk_function(fc.node) if isinstance(c, ast.Call) and norm(c.func).split(".")[-1] == "stack"]
    src_ok = False
    for c in stacks:
        a0 = astq.expand_at(fc.node, c.args[0], astq_enclosing18(c), keep=["lf"]) if c.args else None
        if isinstance(a0, ast.ListComp) and len(a0.generators) == 1 and not a0.generators[0].ifs and norm(a0.generators[0].iter) in ("lf", "lf.instances"):
            src_ok = True
        elif isinstance(c.args[0], ast.Name):
            bs = astq.list_builds(fc.node, c.args[0].id)
            if len(bs) == 1 and len(bs[0].gens) >= 1 and not [x for x in bs[0].conds] and norm(bs[0].gens[-1].iter) in ("lf", "lf.instances"):
                src_ok = True
    res.ob(R, src_ok, fc.qualname, "the cache fill stacks every instance of lf, in order", "the cache fill does not stack the instances of `lf` in order", fc.where)
    res.floor(R, 3)


def astq_enclosing18(n):
    from ..core.program import enclosing_stmt
    return enclosing_stmt(n)


def check_crop_size(prog: Program, res: Result) -> None:
    """The streaming centered-instance dataset re-crops the stored (unscaled, enlarged) crop to crop_hw * input_scale and then
    pads to the stride, exactly like the in-memory / .npz dataset re-crops to crop_hw and pads.  The re-crop size is the
    crop size SCALED - a size with an additive term (e.g. rounded up to the stride before cropping) shows more image
    instead of zero padding and shifts every keypoint relative to the other frameworks."""
    R = "C18-frame"
    ci = prog.cls("sleap_nn.data.streaming_datasets:CenteredInstanceStreamingDataset")
    init = ci.methods["__init__"]
    res.touch(init)
    sts = [s_ for s_ in walk_function(init.node) if isinstance(s_, ast.Assign) and norm(s_.targets[0]) == "self.crop_hw"]
    res.ob(R, len(sts) >= 1, init.qualname, "re-crop size is stored", "CenteredInstanceStreamingDataset no longer stores self.crop_hw", init.where)
    if sts:
        last = max(sts, key=lambda s_: s_.lineno)
        e = astq.expand_at(init.node, last.value, last, keep=["crop_hw"])
        e = astq.expand(init.node, e, keep=["crop_hw"])
        adds = [b for b in ast.walk(e) if isinstance(b, ast.BinOp) and isinstance(b.op, (ast.Add, ast.Sub))]
        calls = [norm(c.func) for c in ast.walk(e) if isinstance(c, ast.Call) and norm(c.func) not in ("int", "round", "list", "tuple")]
        derived = {"crop_hw"}
        for _ in range(3):
            for st_ in walk_function(init.node):
                if isinstance(st_, ast.Assign) and (astq.names_in(st_.value) & derived or "crop_hw" in norm(st_.value)):
                    derived |= {t_ for tg_ in st_.targets for t_ in astq.target_names(tg_)}
        scaled = "input_scale" in norm(e) and ("crop_hw" in norm(e) or bool(astq.names_in(e) & derived))
        res.ob(R, scaled and not adds and not calls, init.qualname, "re-crop size = crop_hw * input_scale (element-wise)",
               f"the streaming re-crop size is `{short(e, 80)}`" + (f" (additive term `{short(adds[0], 30)}`)" if adds else (f" (through {calls})" if calls else "")) +
               ": not the configured crop size scaled by input_scale, so the streaming crop covers another region than the in-memory / .npz crop", f"{init.module.relpath}:{last.lineno}")
    gi = ci.methods["__getitem__"]
    res.touch(gi)
    cr = [c for c, q in prog.calls_in(gi) if q == "kornia.geometry.transform.crop_and_resize"]
    mk = [c for c, q in prog.calls_in(gi) if q == "sleap_nn.data.instance_cropping:make_centered_bboxes"]
    ok = len(cr) == 1 and len(mk) == 1 and norm(astq.call_arg(cr[0], 2, "size")) == "self.crop_hw" and [norm(a) for a in mk[0].args[1:3]] == ["self.crop_hw[0]", "self.crop_hw[1]"]
    res.ob(R, ok, gi.qualname, "box and output size of the re-crop are both self.crop_hw", "the streaming re-crop does not use self.crop_hw for both the box and the output size", gi.where)


def check_precrop(prog: Program, res: Result) -> None:
    """Both centered-instance writers cut an ENLARGED crop (crop size x sqrt 2, for rotation augmentation) that the readers
    re-crop later: CenteredInstanceDataset._fill_cache (in-memory / .npz) and centered_instance_data_chunks (chunk + streaming).
    The enlarged size must be derived from the configured crop size by the SAME expression in both - truncation in one and
    rounding in the other differ by a pixel for many sizes (crop 64, 96, ...), the pre-crop is shifted by half a pixel and
    the final instance image differs between the frameworks."""
    import re as _re

    R = "C18-frame"
    gc = prog.func("sleap_nn.data.instance_cropping:generate_crops")
    forms = {}
    for q, crop_names in ((f"{CD}:CenteredInstanceDataset._fill_cache", ["self.crop_hw"]), ("sleap_nn.data.get_data_chunks:centered_instance_data_chunks", None)):
        fi = prog.func(q)
        res.touch(fi)
        calls = [c for c, qq in prog.calls_in(fi) if qq == gc.qualname]
        if len(calls) != 1:
            res.ob(R, False, fi.qualname, "one generate_crops call", f"{len(calls)} generate_crops calls in {fi.name}", fi.where)
            continue
        a = astq.bind_args(gc, calls[0]).get("crop_size")
        e = astq.expand_at(fi.node, a, enclosing_stmt18(calls[0])) if a is not None else None
        # what the expression does to the configured size, however it is spelt: the rounding functions applied (none = the
        # truncation of an int conversion), the factors, additive terms
        rounding = sorted({norm(c.func).split(".")[-1] for c in ast.walk(e) if isinstance(c, ast.Call) and norm(c.func).split(".")[-1] in ("round", "around", "rint", "ceil", "floor")}) if e is not None else []
        sqrt2 = e is not None and any((isinstance(c, ast.Call) and norm(c.func).split(".")[-1] == "sqrt" and len(c.args) == 1 and astq.const_value(c.args[0]) == 2)
                                      or (isinstance(c, ast.BinOp) and isinstance(c.op, ast.Pow) and astq.const_value(c.left) == 2 and astq.const_value(c.right) == 0.5) for c in ast.walk(e))
        consts = sorted({repr(c.value) for c in ast.walk(e) if isinstance(c, ast.Constant) and isinstance(c.value, (int, float)) and not isinstance(c.value, bool) and c.value not in (2, 0.5)}) if e is not None else []
        additive = e is not None and any(isinstance(c, ast.BinOp) and isinstance(c.op, (ast.Add, ast.Sub)) for c in ast.walk(e))
        forms[q] = {"rounding": rounding or ["truncation"], "sqrt2": sqrt2, "other constants": consts, "additive": additive, "text": short(e, 70) if e is not None else "?"}
    if len(forms) == 2:
        (qa, ta), (qb, tb) = forms.items()
        same = all(ta[k] == tb[k] for k in ("rounding", "sqrt2", "other constants", "additive"))
        res.ob(R, same and ta["sqrt2"], qb, "both writers enlarge the crop size the same way (x sqrt 2, same rounding)",
               f"the enlarged pre-crop size is `{ta['text']}` ({'/'.join(ta['rounding'])}) in {qa.split(':')[1]} but `{tb['text']}` ({'/'.join(tb['rounding'])}) in {qb.split(':')[1]}: the stored "
               "crops of the two frameworks differ in size/centre for some crop sizes", prog.func(qb).where)


def enclosing_stmt18(n):
    from ..core.program import enclosing_stmt
    return enclosing_stmt(n)


def check_centroids(prog: Program, res: Result) -> None:
    """Every framework computes centroids with generate_centroids(instances, anchor_ind=<the configured anchor>): the anchor
    node where it is labelled, the bounding-box midpoint of the visible nodes where it is not.  A sibling that reads the
    anchor node directly has NaN centroids (no crop, no centroid target) for exactly the instances whose anchor is missing,
    while the other frameworks still produce them."""
    R = "C18-frame"
    gc = "sleap_nn.data.instance_centroids:generate_centroids"
    sites = [(f"{CD}:CenteredInstanceDataset._fill_cache", "self.confmap_head_config.anchor_part"), (f"{CD}:CentroidDataset._fill_cache", "self.confmap_head_config.anchor_part"),
             ("sleap_nn.data.get_data_chunks:centered_instance_data_chunks", "anchor_ind"), ("sleap_nn.data.get_data_chunks:centroid_data_chunks", "anchor_ind"),
             ("sleap_nn.data.instance_centroids:InstanceCentroidFinder.__iter__", "self.anchor_ind")]
    for q, want in sites:
        fi = prog.func(q)
        res.touch(fi)
        calls = [c for c, qq in prog.calls_in(fi) if qq == gc]
        binds = {}
        for c in calls:
            st = enclosing_stmt18(c)
            for t in (astq.stmt_targets(st) if isinstance(st, (ast.Assign, ast.AnnAssign)) else []):
                binds.setdefault(norm(t), []).append(c)
        ok = len(calls) >= 1
        why = f"{fi.name} no longer calls generate_centroids"
        for tname, cs in binds.items():
            # every binding of that name comes from generate_centroids, with the configured anchor
            alld = [s_ for s_ in walk_function(fi.node) if isinstance(s_, (ast.Assign, ast.AnnAssign)) and any(norm(t_) == tname for t_ in astq.stmt_targets(s_))]
            # (a re-binding computed FROM the name itself - `centroids = centroids[0]`, a scaling - still carries the fallback)
            other = [s_ for s_ in alld if not any(c_ in list(ast.walk(s_)) for c_ in cs) and tname not in {norm(n_) for n_ in ast.walk(getattr(s_, "value", None) or ast.Pass()) if isinstance(n_, (ast.Name, ast.Subscript, ast.Attribute))}]
            if other:
                ok, why = False, f"`{tname}` is also bound by `{short(other[0], 60)}`, bypassing generate_centroids (no bounding-box fallback for a missing anchor)"
            for c in cs:
                a = astq.bind_args(prog.func(gc), c).get("anchor_ind")
                got = norm(astq.expand_at(fi.node, a, enclosing_stmt18(c))) if a is not None else None
                if got is not None:
                    import re as _re
                    got = _re.sub(r"\[['\"](\w+)['\"]\]", r".\1", got)     # cfg["anchor_part"] and cfg.anchor_part read the same config key
                if got != want:
                    ok, why = False, f"generate_centroids is called with anchor_ind=`{got}` (expected `{want}`)"
        res.ob(R, ok, fi.qualname, f"centroids = generate_centroids(instances, anchor_ind={want})", why, fi.where)


def check(prog: Program, res: Result) -> None:
    # the cached sample a dataset hands out is never written through (a second read of the same index must give the same
    # targets): shared with C11-cache
    from . import c11 as _c11
    res.borrow(lambda p_, r_: _c11.check_cache(p_, r_, _c11.make_alias(p_)), "C18-cache", prog)
    from . import _edges
    _edges.check_edge_order(prog, res, "C18-edges")
    check_crop_size(prog, res)
    check_precrop(prog, res)
    check_centroids(prog, res)
    check_frame(prog, res)
    check_npz(prog, res)
    check_wiring(prog, res)
    check_block(prog, res)
    check_memo(prog, res)
    check_index(prog, res)
    # the frameworks agree on HOW MANY samples there are: the in-memory / npz datasets index exactly the frames (instances) the
    # chunk functions emit - the non-empty ones (shared with C11-len)
    res.borrow(_c11.check_len, "C18-len", prog)
    res.assumptions += ["pixel equality up to 8-bit quantisation is not decided", "centered-instance crop CENTRING differs between frameworks when scale != 1 (documented; excluded by the property's own wording)"]


CDF = "sleap_nn/data/custom_datasets.py"
GCF = "sleap_nn/data/get_data_chunks.py"
SDF = "sleap_nn/data/streaming_datasets.py"
MTF = "sleap_nn/training/model_trainer.py"
VARIANTS = [
    Variant("memo-keyed-by-frame-number", CDF, "            if lf_idx == self.cache_lf[0]:\n                img = self.cache_lf[1]\n            else:\n                img = lf.image\n                self.cache_lf = [lf_idx, img]",
            "            if lf.frame_idx == self.cache_lf[0]:\n                img = self.cache_lf[1]\n            else:\n                img = lf.image\n                self.cache_lf = [lf.frame_idx, img]", "C18-memo"),
    Variant("memo-stale-key", CDF, "                self.cache_lf = [lf_idx, img]", "                self.cache_lf = [idx, img]", "C18-memo"),
    Variant("chunk-forgets-centroid-scale", GCF, "    sample[\"image\"], sample[\"centroids\"] = apply_resizer(\n        sample[\"image\"], sample[\"centroids\"], scale=scale\n    )",
            "    sample[\"image\"], _ = apply_resizer(\n        sample[\"image\"], sample[\"centroids\"], scale=scale\n    )", "C18-frame"),
    Variant("streaming-other-sigma", SDF, "            sigma=self.confmap_head.sigma,\n            output_stride=self.confmap_head.output_stride,\n            is_centroids=True,", "            sigma=self.confmap_head.sigma * 2,\n            output_stride=self.confmap_head.output_stride,\n            is_centroids=True,", "C18-frame"),
    Variant("streaming-single-no-pad-but-double-scale", SDF, "        # Pad the image (if needed) according max stride\n        ex[\"image\"] = apply_pad_to_stride(ex[\"image\"], max_stride=self.max_stride)\n\n        img_hw = ex[\"image\"].shape[-2:]\n\n        # Generate confidence maps\n        confidence_maps = generate_confmaps(",
            "        ex[\"image\"], ex[\"instances\"] = apply_resizer(ex[\"image\"], ex[\"instances\"], 0.5)\n        ex[\"image\"] = apply_pad_to_stride(ex[\"image\"], max_stride=self.max_stride)\n\n        img_hw = ex[\"image\"].shape[-2:]\n\n        # Generate confidence maps\n        confidence_maps = generate_confmaps(", "C18-frame"),
    Variant("npz-reader-wrong-key", CDF, "                if k != \"instance_image\":\n                    sample[k] = torch.from_numpy(v)", "                if k != \"image\":\n                    sample[k] = torch.from_numpy(v)", "C18-npz"),
    Variant("npz-writer-no-squeeze", CDF, "                sample[\"image\"] = self.transform_to_pil(sample[\"image\"].squeeze(dim=0))\n                for k, v in sample.items():\n                    if k != \"image\" and isinstance(v, torch.Tensor):\n                        sample[k] = v.numpy()\n                f_name = f\"{self.np_chunks_path}/sample_{idx}.npz\"\n                np.savez_compressed(f_name, **sample)\n                self.cache[idx] = f_name\n\n            else:\n                self.cache[idx] = sample.copy()\n\n        for video in self.labels.videos:\n            video.close()\n\n    def _get_video_idx",
            "                sample[\"image\"] = self.transform_to_pil(sample[\"image\"][0, :1])\n                for k, v in sample.items():\n                    if k != \"image\" and isinstance(v, torch.Tensor):\n                        sample[k] = v.numpy()\n                f_name = f\"{self.np_chunks_path}/sample_{idx}.npz\"\n                np.savez_compressed(f_name, **sample)\n                self.cache[idx] = f_name\n\n            else:\n                self.cache[idx] = sample.copy()\n\n        for video in self.labels.videos:\n            video.close()\n\n    def _get_video_idx", "C18-npz"),
    Variant("wiring-val-uses-train-dir", MTF, "                np_chunks_path=self.val_np_chunks_path,\n                use_existing_chunks=self.use_existing_chunks,\n            )\n\n        elif self.model_type == \"centroid\":",
            "                np_chunks_path=self.train_np_chunks_path,\n                use_existing_chunks=self.use_existing_chunks,\n            )\n\n        elif self.model_type == \"centroid\":", "C18-wiring"),
    Variant("wiring-streaming-wrong-head", MTF, "                confmap_head=self.config.model_config.head_configs.centroid.confmaps,\n                max_stride=self.max_stride,\n            )\n\n            val_dataset = CentroidStreamingDataset(",
            "                confmap_head=self.config.model_config.head_configs.centered_instance.confmaps,\n                max_stride=self.max_stride,\n            )\n\n            val_dataset = CentroidStreamingDataset(", "C18-wiring"),
    Variant("wiring-chunk-fn-swapped", "sleap_nn/training/get_bin_files.py", "        factory_get_chunks = functools.partial(\n            centroid_data_chunks,", "        factory_get_chunks = functools.partial(\n            bottomup_data_chunks,", "C18-wiring"),
    Variant("block-resizer-image-only", "sleap_nn/data/resizing.py", "                ex[self.image_key] = resize_image(ex[self.image_key], self.scale)\n                ex[self.instances_key] = ex[self.instances_key] * self.scale", "                ex[self.image_key] = resize_image(ex[self.image_key], self.scale)", "C18-block"),
    Variant("block-cropper-no-centroid-shift", "sleap_nn/data/instance_cropping.py", "                centered_centroid = centroid - point\n", "                centered_centroid = centroid\n", "C18-block"),
    Variant("bp-dataset-pad-late", CDF, "        img_hw = sample[\"image\"].shape[-2:]\n\n        # Generate confidence maps\n        confidence_maps = generate_confmaps(\n            sample[\"instances\"],", "        sample[\"image\"] = apply_pad_to_stride(sample[\"image\"], max_stride=self.max_stride)\n        img_hw = sample[\"image\"].shape[-2:]\n\n        # Generate confidence maps\n        confidence_maps = generate_confmaps(\n            sample[\"instances\"],", None),
]
