"""C03 — bottom-up decode: units of peaks through stride scaling, PAF sampling and rescaling (E2), PAF layout."""

from __future__ import annotations

import ast

from ..core import astq
from ..core.program import enclosing_stmt, Program, norm, short, walk_function
from ..report import Result
from ..runner import Variant
from . import c02, c17

PROP = "C03"
EXPLANATION = (
    "The same coordinate-frame abstract interpretation as C02, for BottomUpPredictor x {LabelsReader, VideoReader}: (out) "
    "every keypoint of every grouped instance handed to PredictedInstance.from_numpy, and the raw pred_instance_peaks, has "
    "monomial 1 (peaks x confmap stride, / input scale, / eff_scale per sample); (lines) PAFScorer.predict samples the PAF "
    "tensor at peak coordinates divided by the scorer's pafs_stride, which must be the grid the PAF head produced (input / "
    "the PAF head's own stride) - the scorer's stride, the model's two strides and the input scale are thereby tied to the "
    "bottom-up config paths; make_line_subs is checked to divide by pafs_stride before rounding and to clip to the PAF "
    "extent, make_predicted_instances to copy coordinates out of the peaks unchanged; (own) the network sees eff x its "
    "training scale for both providers; (layout) the PAF tensor handed to the scorer is channel-last, as get_paf_lines "
    "indexes [row, col, channel]; (order) the edge order is the toposorted one (C17-use). Not decided: that grouping "
    "returns exactly the labelled animals (numerical PAF integral), channel numbering 2e+c (pinned by tests)."
)
TRUSTED = c02.TRUSTED + ["make_predicted_instances copies peak coordinates unchanged (checked structurally)"]
PG = "sleap_nn.inference.paf_grouping"


def check_lines_premises(prog: Program, res: Result) -> None:
    R = "C03-lines"
    fi = prog.func(f"{PG}:make_line_subs")
    res.touch(fi)
    divs = [n for n in walk_function(fi.node) if isinstance(n, ast.BinOp) and isinstance(n.op, ast.Div) and norm(n.right) == "pafs_stride"]
    ok = len(divs) == 1
    res.ob(R, ok, fi.qualname, "peak coordinates / pafs_stride before indexing", "make_line_subs does not divide the interpolated coordinates by pafs_stride exactly once", fi.where)
    # the (x, y) -> (row, col) swap is applied to int(round(XY / stride)): read the chain off the expanded operand of the swap
    swaps = [n for n in walk_function(fi.node) if isinstance(n, ast.Subscript) and isinstance(n.ctx, ast.Load) and norm(n.slice).replace(" ", "") in ("(:,[1,0],:)", ":,[1,0],:")]
    res.ob(R, len(swaps) == 1, fi.qualname, "(x, y) reordered to (row, col)", "make_line_subs no longer reorders (x, y) to (row, col)", fi.where)
    chain = astq.expand_at(fi.node, swaps[0].value, enclosing_stmt(swaps[0])) if len(swaps) == 1 else None
    okc = False
    if chain is not None:
        e = chain
        conv = False
        while isinstance(e, ast.Call) and isinstance(e.func, ast.Attribute) and (e.func.attr in ("int", "long") and not e.args
                                                                                  or e.func.attr in ("to", "type") and len(e.args) == 1 and norm(e.args[0]) in ("torch.int32", "torch.int64", "torch.long", "torch.int")):
            e, conv = e.func.value, True
        rounded = None
        if isinstance(e, ast.Call) and isinstance(e.func, ast.Attribute) and e.func.attr == "round" and not e.args and norm(e.func.value) != "torch":
            rounded = e.func.value
        elif isinstance(e, ast.Call) and norm(e.func) == "torch.round" and len(e.args) == 1 and not e.keywords:
            rounded = e.args[0]
        okc = conv and isinstance(rounded, ast.BinOp) and isinstance(rounded.op, ast.Div) and norm(rounded.right) == "pafs_stride" \
            and isinstance(rounded.left, ast.Call) and norm(rounded.left.func).split(".")[-1] in ("concat", "cat", "concatenate")
    res.ob(R, okc, fi.qualname, "indices = round(XY / stride)", f"grid indices are `{short(chain, 60) if chain is not None else '?'}`, not int(round(concat(X, Y) / pafs_stride))", fi.where)
    clips = {norm(s.targets[0]): norm(s.value) for s in walk_function(fi.node) if isinstance(s, ast.Assign) and isinstance(s.targets[0], ast.Subscript) and "clip" in norm(s.value)}
    ok = clips.get("XY[:, 0]") == "torch.clip(XY[:, 0], min=0, max=height - 1)" and clips.get("XY[:, 1]") == "torch.clip(XY[:, 1], min=0, max=width - 1)"
    hw = [s for s in walk_function(fi.node) if isinstance(s, ast.Assign) and norm(s.value) == "pafs_hw"]
    ok = ok and len(hw) == 1 and [norm(e) for e in hw[0].targets[0].elts] == ["height", "width"]
    res.ob(R, ok, fi.qualname, "rows clipped to height-1, columns to width-1", "indices are not clipped to the PAF extent (row<->height, col<->width)", fi.where)
    gp = prog.func(f"{PG}:get_paf_lines")
    res.touch(gp)
    calls = [c for c, q in prog.calls_in(gp) if q == fi.qualname]
    bound = astq.bind_args(fi, calls[0]) if len(calls) == 1 else {}
    at_ = enclosing_stmt(calls[0]) if len(calls) == 1 else None
    X_ = lambda e_: astq.dims(norm(astq.expand_at(gp.node, e_, at_))).replace(" ", "") if e_ is not None and at_ is not None else None
    hw_ = X_(bound.get("pafs_hw"))
    res.ob(R, hw_ in ("pafs_sample.shape[:2]", "(pafs_sample.shape[0],pafs_sample.shape[1])", "pafs_sample.shape[0:2]"), gp.qualname, "PAF extent = first two axes (channel-last)",
           f"pafs_hw is `{hw_}`, not pafs_sample.shape[:2]", gp.where)
    idx = [n for n in walk_function(gp.node) if isinstance(n, ast.Subscript) and norm(n.value) == "pafs_sample" and isinstance(n.ctx, ast.Load) and not isinstance(n.slice, ast.Slice)]
    ok = len(idx) == 1 and isinstance(idx[0].slice, ast.Tuple) and len(idx[0].slice.elts) == 3
    if ok:
        comps = [astq.expand_at(gp.node, e_, enclosing_stmt(idx[0]), unpack_calls=True, keep=["line_subs"]) for e_ in idx[0].slice.elts]
        def _k(c_):   # which component of the trailing [row, col, channel] axis of line_subs
            t_ = norm(c_).replace(" ", "")
            for k_ in range(3):
                if t_ in (f"line_subs[...,{k_}]", f"line_subs.unbind(dim=-1)[{k_}]", f"line_subs.unbind(-1)[{k_}]", f"torch.unbind(line_subs,dim=-1)[{k_}]", f"line_subs[:,:,{k_}]"):
                    return k_
            return None
        ok = [_k(c_) for c_ in comps] == [0, 1, 2]
    res.ob(R, ok, gp.qualname, "PAFs read at [row, col, channel]", "get_paf_lines does not index pafs_sample[row, col, channel]", gp.where)
    want_ = {"peaks_sample": "peaks_sample", "edge_peak_inds": "edge_peak_inds", "edge_inds": "edge_inds", "n_line_points": "n_line_points", "pafs_stride": "pafs_stride"}
    ok = len(calls) == 1 and all(X_(bound.get(k_)) == v_ for k_, v_ in want_.items()) and not any(astq.assignments_to(gp.node, v_) for v_ in want_.values())
    res.ob(R, ok, gp.qualname, "stride and extent forwarded to make_line_subs", "get_paf_lines does not forward pafs_stride / pafs_hw unchanged", gp.where)
    # stride handed down from the scorer
    sc = prog.cls(f"{PG}:PAFScorer").methods.get("score_paf_lines")
    res.touch(sc)
    b = [c for c, q in prog.calls_in(sc) if q == f"{PG}:score_paf_lines_batch"]
    ok = len(b) == 1
    if ok:
        bound = astq.bind_args(prog.func(f"{PG}:score_paf_lines_batch"), b[0])
        ok = norm(bound.get("pafs_stride")) == "self.pafs_stride" and norm(bound.get("pafs")) == "pafs" and norm(bound.get("peaks")) == "peaks" and norm(bound.get("skeleton_edges")) == "self.edge_inds"
    res.ob(R, ok, sc.qualname, "scorer passes its own pafs_stride / edges / peaks", "PAFScorer.score_paf_lines does not pass self.pafs_stride, self.edge_inds and the peaks through", sc.where)
    sb = prog.func(f"{PG}:score_paf_lines_batch")
    res.touch(sb)
    g = [c for c, q in prog.calls_in(sb) if q == gp.qualname]
    ok = len(g) == 1
    sel = {}
    if ok:
        bound = astq.bind_args(gp, g[0])
        st_ = enclosing_stmt(g[0])
        lp = (astq.enclosing_loops(g[0]) or [None])[0]
        iv = norm(lp.target) if isinstance(lp, ast.For) else None
        X = lambda e: astq.dims(norm(astq.expand_at(sb.node, e, st_, keep=[iv] if iv else []))) if e is not None else None
        sel = {"pafs": X(bound.get("pafs_sample")), "peaks": X(bound.get("peaks_sample")), "stride": X(bound.get("pafs_stride"))}
        cc = [c for c, q in prog.calls_in(sb) if q == f"{PG}:get_connection_candidates"]
        if len(cc) == 1:
            b2 = astq.bind_args(prog.func(f"{PG}:get_connection_candidates"), cc[0])
            sel["channels"] = X(b2.get("peak_channel_inds_sample"))
        ok = sel["stride"] == "pafs_stride"
        it = astq.xnorm(sb.node, lp.iter) if isinstance(lp, ast.For) else ""
        ok_loop = iv is not None and it in ("range(len(pafs))", "range(len(peaks))", "range(pafs.shape[0])", "range(pafs.size(0))", "range(len(peak_channel_inds))")
    res.ob(R, ok, sb.qualname, "per-sample PAFs/peaks/stride forwarded", "score_paf_lines_batch does not forward the sample's PAFs, peaks and stride", sb.where)
    ok = bool(sel) and ok_loop and sel.get("pafs") == f"pafs[{iv}]" and sel.get("peaks") == f"peaks[{iv}]" and sel.get("channels") == f"peak_channel_inds[{iv}]"
    res.ob(R, ok, sb.qualname, "sample i uses PAFs, peaks and channels of sample i", f"per-sample selection is {sel}", sb.where)
    fc = prog.cls(f"{PG}:PAFScorer").methods.get("from_config")
    res.touch(fc)
    cc = [c for c in walk_function(fc.node) if isinstance(c, ast.Call) and norm(c.func) == "cls"]
    kw = {k.arg: astq.xnorm(fc.node, k.value) for k in astq.call_keywords(fc.node, cc[0])} if len(cc) == 1 else {}
    ok = kw.get("pafs_stride") == "config.pafs.output_stride" and kw.get("part_names") == "config.confmaps.part_names" and kw.get("edges") == "config.pafs.edges"
    res.ob(R, ok, fc.qualname, "pafs_stride/edges from the PAF head config, part_names from the confmap head config", f"PAFScorer.from_config binds {kw}", fc.where)
    # ... and every scoring parameter of from_config reaches the constructor field of the same name unchanged (a value
    # filtered by truthiness on the way - `if value` - loses the legitimate settings 0 / 0.0)
    fields = {st_.target.id for st_ in prog.cls(f"{PG}:PAFScorer").node.body if isinstance(st_, ast.AnnAssign) and isinstance(st_.target, ast.Name)}
    for prm in [p_ for p_ in fc.params if p_ in fields]:
        res.ob(R, kw.get(prm) == prm and not astq.assignments_to(fc.node, prm), fc.qualname, f"from_config({prm}) -> PAFScorer({prm})",
               f"PAFScorer.from_config hands `{kw.get(prm, 'nothing / a filtered **kwargs')}` to the constructor field `{prm}` instead of its own argument `{prm}`: "
               "a configured value (e.g. min_line_scores=0.0) can be replaced by the class default", fc.where)
    res.floor(R, 10)


def check_edge_length(prog: Program, res: Result) -> None:
    """The distance penalty of a candidate connection is measured against max_edge_length = ratio * (largest SPATIAL extent
    of the PAFs) * stride.  score_paf_lines_batch receives the PAFs channels-last, (samples, H, W, C) - the same function hands
    pafs[sample] to get_paf_lines, which takes its (H, W) from the first two axes - so the extent must be taken over (at
    least) axes 1 and 2.  An extent that misses the height or the width penalises true long edges of a portrait / landscape
    frame below min_line_scores and the animal comes back in pieces."""
    R = "C03-length"
    fi = prog.func(f"{PG}:score_paf_lines_batch")
    res.touch(fi)
    sp = prog.func(f"{PG}:score_paf_lines")
    calls = [c for c, q in prog.calls_in(fi) if q == sp.qualname]
    res.ob(R, len(calls) == 1, fi.qualname, "one scoring call per sample", f"{len(calls)} calls of score_paf_lines", fi.where)
    if len(calls) != 1:
        return
    arg = astq.bind_args(sp, calls[0]).get("max_edge_length")
    pname = fi.pos_params[0] if fi.pos_params else "pafs"
    e = astq.expand_at(fi.node, arg, enclosing_stmt(calls[0])) if arg is not None else None
    axes = set()
    exact = e is not None
    for n in (ast.walk(e) if e is not None else []):
        if isinstance(n, ast.Subscript) and isinstance(n.value, ast.Attribute) and n.value.attr == "shape" and norm(n.value.value) == pname:
            k = astq.const_value(n.slice)
            if isinstance(k, int):
                axes.add(k % 4)
            elif isinstance(n.slice, ast.Slice) and n.slice.step is None:
                lo = astq.const_value(n.slice.lower) if n.slice.lower is not None else 0
                hi = astq.const_value(n.slice.upper) if n.slice.upper is not None else 4
                if isinstance(lo, int) and isinstance(hi, int):
                    axes |= set(range(lo % 4 if lo < 0 else lo, (hi % 4 if hi < 0 else hi)))
                else:
                    exact = False
            else:
                exact = False
        elif isinstance(n, ast.Call) and isinstance(n.func, ast.Attribute) and n.func.attr == "size" and norm(n.func.value) == pname and len(n.args) == 1 \
                and isinstance(astq.const_value(n.args[0]), int):
            axes.add(astq.const_value(n.args[0]) % 4)
    has_max = e is not None and any(isinstance(n, ast.Call) and norm(n.func).split(".")[-1] in ("max", "amax", "maximum") for n in ast.walk(e))
    ok = exact and has_max and {1, 2} <= axes and "max_edge_length_ratio" in astq.names_in(e) and "pafs_stride" in astq.names_in(e)
    res.ob(R, ok, fi.qualname, "max_edge_length = ratio * max(spatial extent of the channels-last PAFs) * stride",
           f"max_edge_length is `{short(e, 80) if e is not None else '?'}`: it reads axes {sorted(axes)} of the (samples, H, W, C) PAFs - the largest extent must cover "
           "the height and the width (axes 1 and 2)", fi.where)


def check_layout(prog: Program, res: Result) -> None:
    R = "C03-layout"
    fi = prog.func("sleap_nn.inference.bottomup:BottomUpInferenceModel.forward")
    res.touch(fi)
    calls = [c for c in walk_function(fi.node) if isinstance(c, ast.Call) and norm(c.func) == "self.paf_scorer.predict"]
    res.ob(R, len(calls) == 1, fi.qualname, "one grouping call", f"{len(calls)} calls of paf_scorer.predict", fi.where)
    if len(calls) != 1:
        return
    kw = {k.arg: k.value for k in calls[0].keywords}
    p = astq.deref(fi.node, kw.get("pafs"))
    ok = False
    src = None
    if isinstance(p, ast.Call) and isinstance(p.func, ast.Attribute):
        a = [astq.const_value(x) for x in p.args]
        if p.func.attr == "permute":
            ok = a == [0, 2, 3, 1]
        elif p.func.attr == "movedim":
            ok = a in ([1, -1], [1, 3])
        src = p.func.value
    res.ob(R, ok, fi.qualname, "PAFs made channel-last before grouping", f"the PAF tensor passed to the scorer is `{short(p, 50) if p is not None else '?'}`: not moved to (N, H, W, C) "
           "while get_paf_lines indexes [row, col, channel]", fi.where, sample=short(p, 60) if p is not None else None)
    ok = src is not None and norm(src) == "output['PartAffinityFieldsHead']"
    res.ob(R, ok, fi.qualname, "PAFs are the PAF head's output", f"the PAF tensor comes from `{short(src, 40) if src is not None else '?'}`", fi.where)
    cm = astq.deref(fi.node, ast.Name("cms", ast.Load()))
    res.ob(R, cm is not None and norm(cm) == "output['MultiInstanceConfmapsHead']", fi.qualname, "peaks come from the confmap head's output", f"cms is `{short(cm, 40) if cm is not None else '?'}`", fi.where)
    want = {"peaks": "cms_peaks", "peak_vals": "cms_peak_vals", "peak_channel_inds": "cms_peak_channel_inds"}
    got = {k: norm(v) for k, v in kw.items() if k in want}
    res.ob(R, got == want, fi.qualname, "peaks / values / channels passed in their slots", f"predict receives {got}", fi.where)
    gen = [s for s in walk_function(fi.node) if isinstance(s, ast.Assign) and isinstance(s.value, ast.Call) and norm(s.value.func) == "self._generate_cms_peaks"]
    ok = len(gen) == 1 and [norm(e) for e in gen[0].targets[0].elts] == ["cms_peaks", "cms_peak_vals", "cms_peak_channel_inds"] and norm(gen[0].value.args[0]) == "cms"
    res.ob(R, ok, fi.qualname, "peak lists unpacked in the order they are returned", "the result of _generate_cms_peaks is unpacked in another order", fi.where)
    g = prog.func("sleap_nn.inference.bottomup:BottomUpInferenceModel._generate_cms_peaks")
    rets = [n for n in walk_function(g.node) if isinstance(n, ast.Return)]
    ok = len(rets) == 1 and [norm(c.args[0]) for c in rets[0].value.elts if isinstance(c, ast.Call)] == ["cms_peaks", "cms_peak_vals", "cms_peak_channel_inds"]
    res.ob(R, ok, g.qualname, "returns (peaks, values, channel indices)", "_generate_cms_peaks returns its lists in another order", g.where)
    # make_predicted_instances copies coordinates unchanged (premise of the predict contract)
    mp = prog.func(f"{PG}:make_predicted_instances")
    arith = [n for n in walk_function(mp.node) if isinstance(n, ast.BinOp) and any(isinstance(x, ast.Name) and x.id == "peaks" for x in ast.walk(n))]
    res.ob(R, not arith, mp.qualname, "coordinates copied out of the peaks unchanged", "make_predicted_instances applies arithmetic to the peak coordinates", mp.where)
    gs = prog.func(f"{PG}:group_instances_sample")
    arith = [n for n in walk_function(gs.node) if isinstance(n, (ast.BinOp, ast.AugAssign)) and "peaks_sample" in norm(n)]
    res.ob(R, not arith, gs.qualname, "grouping does not rescale the peaks", "group_instances_sample applies arithmetic to peaks_sample", gs.where)
    res.floor(R, 8)


def check_candidates(prog: Program, res: Result, R: str = "C03-cand") -> None:
    """get_connection_candidates pairs the peaks of an edge's source node type with those of its destination node type: the
    per-node groups it indexes with the edge's node indices must be INDEXED BY NODE - group k holds the peaks whose channel
    is k, also when some node type has no peak in the frame.  Recognised: one mask per k over range(n_nodes); a split by
    per-node counts that include the empty node types (bincount(..., minlength=n_nodes)).  A split by the run lengths of
    the node types that are PRESENT (unique / unique_consecutive counts) shifts every group after an absent node type."""
    fi = prog.func(f"{PG}:get_connection_candidates")
    res.touch(fi)
    fn = fi.node
    # the list indexed by the endpoints of the skeleton edges
    edge_vars = set()
    for lp in list(walk_function(fn)):
        gens = [lp] if isinstance(lp, ast.For) else (lp.generators if isinstance(lp, (ast.ListComp, ast.GeneratorExp)) else [])
        for g in gens:
            if "skeleton_edges" in norm(g.iter):
                edge_vars |= astq.target_names(g.target)
    groups = {n.value.id for n in walk_function(fn) if isinstance(n, ast.Subscript) and isinstance(n.value, ast.Name) and isinstance(n.slice, ast.Name) and n.slice.id in edge_vars}
    res.ob(R, len(groups) == 1, fi.qualname, "one per-node grouping is indexed by the edge endpoints", f"{len(groups)} lists are indexed by the edge endpoints: {sorted(groups)}", fi.where)
    for gname in groups:
        builds = astq.list_builds(fn, gname)
        verdict, why = None, ""
        if len(builds) == 1 and len(builds[0].gens) == 1 and not builds[0].conds:
            b = builds[0]
            le = astq.loop_elems(b.gens[0], fn)
            it = b.gens[0].iter
            over_nodes = isinstance(it, ast.Call) and norm(it.func) == "range" and len(it.args) == 1 and astq.xnorm(fn, it.args[0]) == "n_nodes"
            k = norm(b.gens[0].target)
            site = b.site if isinstance(b.site, ast.stmt) else enclosing_stmt(b.site)
            elt = astq.expand_at(fn, b.elt, site, keep=[k])
            m = astq.mask_of(fn, elt.slice, at=site) if isinstance(elt, ast.Subscript) else None
            if over_nodes and isinstance(m, ast.Compare) and len(m.ops) == 1 and isinstance(m.ops[0], ast.Eq) and k in (norm(m.left), norm(m.comparators[0])):
                verdict = True
            else:
                verdict, why = None, f"list built over `{short(it, 30)}` with element `{short(b.elt, 40)}`"
        else:
            ds = [getattr(s_, "value", None) for s_ in astq.assignments_to(fn, gname)]
            des = [astq.expand(fn, d_) for d_ in ds if d_ is not None]
            de = des[0] if des else None
            # the text of everything the grouping is computed from (three levels of definitions back)
            seen_n, frontier, parts = {gname}, set().union(*[astq.names_in(x) for x in des]) if des else set(), [norm(x) for x in des]
            for _ in range(3):
                nxt = set()
                for st_ in walk_function(fn):
                    if isinstance(st_, (ast.Assign, ast.AugAssign)) and any(astq.target_names(t_) & frontier for t_ in astq.stmt_targets(st_)) and st_.value is not None:
                        parts.append(norm(st_.value))
                        nxt |= astq.names_in(st_.value)
                seen_n |= frontier
                frontier = nxt - seen_n
            txt = " ; ".join(parts)
            if "split(" in txt and ("unique_consecutive" in txt or "unique(" in txt) and "minlength" not in txt:
                verdict, why = False, "a split by the run lengths of the node types that are present"
            elif "split(" in txt and "bincount" in txt and "minlength" in txt:
                verdict = True
            else:
                why = f"`{short(de, 60) if de is not None else gname}`"
        if verdict is None:
            res.inconclusive(f"{fi.qualname}: per-node grouping `{gname}` is built in an unrecognised way ({why})")
            continue
        res.ob(R, verdict, fi.qualname, f"`{gname}[k]` holds the peaks of node type k for every k < n_nodes",
               f"`{gname}` is {why}: when a node type other than the last ones has no peak in the frame every later group shifts down, the edge candidates pair the wrong "
               "node types and the animals are not assembled", fi.where)
    res.floor(R, 2)


def check(prog: Program, res: Result) -> None:
    from . import _state
    _state.check_no_cross_call_state(prog, res, "C03-state", ["sleap_nn.inference.paf_grouping:PAFScorer.predict", "sleap_nn.inference.paf_grouping:PAFScorer.score_paf_lines", "sleap_nn.inference.paf_grouping:PAFScorer.match_candidates", "sleap_nn.inference.paf_grouping:PAFScorer.group_instances"], floor=4)
    check_candidates(prog, res)
    c02.check_entries(prog, res, ("bottomup",), rule_out="C03-out", rule_own="C03-own", prefix="C03")
    check_lines_premises(prog, res)
    check_layout(prog, res)
    check_edge_length(prog, res)
    c17.check_use(prog, res, rule="C03-order")
    res.floor("C03-out", 4)
    res.floor("C03-own", 2)
    from . import c06, c12
    res.borrow(c06.check_rough, "C03-peaks", prog)
    res.borrow(c06.check_refine, "C03-peaks", prog)
    res.borrow(c12.check_split, "C03-peaks", prog)
    res.borrow(c12.check_no_batch_wide_guard, "C03-frame", prog)   # every frame is corrected by its OWN eff_scale
    from . import _batch
    _batch.check_per_sample_lists(prog, res, "C03-batch", ["sleap_nn.inference.paf_grouping:score_paf_lines_batch", "sleap_nn.inference.paf_grouping:match_candidates_batch", "sleap_nn.inference.paf_grouping:group_instances_batch"], floor=9)
    res.assumptions += ["that grouping returns exactly the labelled animals (numerical PAF integral) is not decided", "channel numbering 2e+c is pinned by the existing tests"]


B = "sleap_nn/inference/bottomup.py"
Q = "sleap_nn/inference/predictors.py"
G = "sleap_nn/inference/paf_grouping.py"
VARIANTS = [
    Variant("d6-labels-no-preprocess", Q, "            ][\"max_stride\"]\n\n            self.preprocess = True\n            self.preprocess_config = {\n                \"batch_size\": self.batch_size,\n                \"scale\": self.bottomup_config.data_config.preprocessing.scale,",
            "            ][\"max_stride\"]\n\n            self.preprocess = False\n            self.preprocess_config = {\n                \"batch_size\": self.batch_size,\n                \"scale\": self.bottomup_config.data_config.preprocessing.scale,", "C03-o"),
    Variant("peaks-paf-stride", B, "        peaks = peaks * self.cms_output_stride  # (n_centroids, 2)", "        peaks = peaks * self.pafs_output_stride  # (n_centroids, 2)", "C03-"),
    Variant("no-input-scale", B, "        predicted_instances = predicted_instances / self.input_scale\n", "", "C03-out"),
    Variant("eff-batch0", B, "                p / inputs[\"eff_scale\"][idx].to(p.device)", "                p * inputs[\"eff_scale\"][idx].to(p.device)", "C03-out"),
    Variant("scorer-stride-from-confmaps", G, "            pafs_stride=config.pafs.output_stride,", "            pafs_stride=config.confmaps.output_stride,", "C03-lines"),
    Variant("lines-no-stride", G, "        (XY / pafs_stride).round().int()", "        (XY).round().int()", "C03-lines"),
    Variant("layout-channel-first", B, "        pafs = output[\"PartAffinityFieldsHead\"].permute(0, 2, 3, 1)", "        pafs = output[\"PartAffinityFieldsHead\"]", "C03-layout"),
    Variant("heads-swapped", B, "        cms = output[\"MultiInstanceConfmapsHead\"]\n        pafs = output[\"PartAffinityFieldsHead\"].permute(0, 2, 3, 1)", "        cms = output[\"PartAffinityFieldsHead\"]\n        pafs = output[\"MultiInstanceConfmapsHead\"].permute(0, 2, 3, 1)", "C03-"),
    Variant("init-strides-swapped", Q, "            cms_output_stride=self.bottomup_config.model_config.head_configs.bottomup.confmaps.output_stride,\n            pafs_output_stride=self.bottomup_config.model_config.head_configs.bottomup.pafs.output_stride,",
            "            cms_output_stride=self.bottomup_config.model_config.head_configs.bottomup.pafs.output_stride,\n            pafs_output_stride=self.bottomup_config.model_config.head_configs.bottomup.confmaps.output_stride,", "C03-"),
    Variant("bp-movedim", B, "        pafs = output[\"PartAffinityFieldsHead\"].permute(0, 2, 3, 1)", "        pafs = output[\"PartAffinityFieldsHead\"].movedim(1, -1)", None),
]
