"""C08 — peak grouping terminates with a partition (structural necessary conditions)."""

from __future__ import annotations

import ast
from typing import Dict, List, Optional, Set

from ..core import astq
from ..core.program import enclosing_stmt, AnalysisError, Program, ancestors, norm, short, walk_function
from ..report import Result
from ..runner import Variant
from . import c09, c17

PROP = "C08"
EXPLANATION = (
    "Decided clauses: (inf, totality) no infinite cost constant may reach scipy linear_sum_assignment in "
    "paf_grouping (inter-procedural taint of inf fills, masked inf stores and where() through aliases/views/returns); "
    "(filter) the min_line_scores mask `scores >= min_line_scores` is applied to all four parallel match arrays before "
    "any of them is used, the per-edge mask to the three remaining ones and the per-node mask to peaks and peak values, "
    "and EdgeConnection is built in (src, dst, score) order; (order) the connection dict is filled in the topological "
    "edge order (shared with C17-use); (minpeaks) instances below min_instance_peaks are dropped whole by a filter on "
    "the per-instance peak count; (part) make_predicted_instances writes each PeakID of the assignment table into exactly "
    "the row of its instance and the column of its node. Not decided: optimality of the assignment (scipy), the "
    "connected-component and score-sum invariants over arbitrary inputs."
)
TRUSTED = c09.TRUSTED
PG = "sleap_nn.inference.paf_grouping"


def _mask_of(fn: ast.AST, e: ast.AST) -> Optional[ast.Compare]:
    """The comparison a mask expression denotes: the comparison itself, a name bound once to it, or the loop /
    comprehension variable of an iteration over a list whose elements are that comparison."""
    if isinstance(e, ast.Compare):
        return e
    if not isinstance(e, ast.Name):
        return None
    defs = [s_ for s_ in astq.assignments_to(fn, e.id) if isinstance(s_, ast.Assign)]
    if len(defs) == 1 and isinstance(defs[0].value, ast.Compare):
        return defs[0].value
    # iteration variable over a list of masks
    for n in ast.walk(fn):
        it = None
        if isinstance(n, ast.comprehension) and isinstance(n.target, ast.Name) and n.target.id == e.id:
            it = n.iter
        elif isinstance(n, ast.For) and isinstance(n.target, ast.Name) and n.target.id == e.id:
            it = n.iter
        if isinstance(it, ast.Name):
            ld = [s_ for s_ in astq.assignments_to(fn, it.id) if isinstance(s_, ast.Assign)]
            if len(ld) == 1 and isinstance(ld[0].value, ast.ListComp) and isinstance(ld[0].value.elt, ast.Compare):
                return ld[0].value.elt
    return None


def _all_masks(fn: ast.AST) -> List[ast.Compare]:
    out = []
    for st in walk_function(fn):
        if isinstance(st, ast.Assign) and isinstance(st.value, ast.Compare):
            out.append(st.value)
        elif isinstance(st, ast.Assign) and isinstance(st.value, ast.ListComp) and isinstance(st.value.elt, ast.Compare):
            out.append(st.value.elt)
    return out


def parallel_filter(res: Result, fi, mask: ast.Compare, group: List[str], rule: str, before_uses: bool = True) -> None:
    """Every array of `group` must be indexed with the same mask (however the mask is named or passed around)."""
    filtered: Dict[str, ast.AST] = {}
    for n in walk_function(fi.node):
        if isinstance(n, ast.Subscript) and isinstance(n.value, ast.Name) and _mask_of(fi.node, n.slice) is mask:
            filtered.setdefault(n.value.id, n)
    for g in group:
        res.ob(rule, g in filtered, fi.qualname, f"{g}[{short(mask, 40)}]",
               f"`{g}` is not filtered with `{short(mask, 50)}` although its sibling arrays are: the parallel arrays go out of step "
               "(connections pair the wrong peaks / scores)", f"{fi.module.relpath}:{mask.lineno}",
               sample={"mask": short(mask, 80), "group": group})
    extra = set(filtered) - set(group)
    for g in sorted(extra):
        res.ob(rule, False, fi.qualname, f"{g}[{short(mask, 40)}]", f"`{g}` is filtered with `{short(mask, 50)}` but is not one of the parallel arrays {group}",
               f"{fi.module.relpath}:{mask.lineno}")


def check_filter(prog: Program, res: Result) -> None:
    fi = prog.func(f"{PG}:group_instances_sample")
    res.touch(fi)
    R = "C08-filter"
    group = [p for p in fi.params if p.startswith("match_")]
    res.ob(R, len(group) == 4, fi.qualname, "four parallel match arrays", f"{len(group)} match_* parameters", fi.where)
    masks = _all_masks(fi.node)
    # 1. validity mask
    vm = [c for c in masks if "min_line_scores" in norm(c)]
    res.ob(R, len(vm) == 1, fi.qualname, "one min_line_scores mask", f"{len(vm)} masks built from min_line_scores", fi.where)
    for c in vm:
        ok = len(c.ops) == 1 and ((isinstance(c.ops[0], (ast.GtE, ast.Gt)) and norm(c.left) == "match_line_scores_sample" and norm(c.comparators[0]) == "min_line_scores")
                                  or (isinstance(c.ops[0], (ast.LtE, ast.Lt)) and norm(c.comparators[0]) == "match_line_scores_sample" and norm(c.left) == "min_line_scores"))
        res.ob(R, ok, fi.qualname, f"mask keeps scores at or above the minimum: {short(c, 60)}",
               f"the validity mask is `{short(c, 60)}`: matches scoring below min_line_scores are not the ones removed", f"{fi.module.relpath}:{c.lineno}")
        parallel_filter(res, fi, c, group, R)
        # the re-binding happens before the connection loop
        loops = [n for n in walk_function(fi.node) if isinstance(n, ast.For) and "sorted_edge_inds" in norm(n.iter)]
        for g in group:
            rb = []
            for s_ in walk_function(fi.node):
                if not isinstance(s_, ast.Assign) or len(s_.targets) != 1:
                    continue
                t_, v_ = s_.targets[0], s_.value
                # g = g[mask]   or one component of   (g, h, ...) = (g[mask], h[mask], ...)
                pairs_ = list(zip(t_.elts, v_.elts)) if isinstance(t_, (ast.Tuple, ast.List)) and isinstance(v_, (ast.Tuple, ast.List)) and len(t_.elts) == len(v_.elts) else [(t_, v_)]
                if any(norm(tt_) == g and isinstance(vv_, ast.Subscript) and _mask_of(fi.node, vv_.slice) is c for tt_, vv_ in pairs_):
                    rb.append(s_)
            ok = bool(rb) and all(not astq.enclosing_loops(s_) for s_ in rb) and (not loops or all(s_.lineno < loops[0].lineno for s_ in rb))
            res.ob(R, ok, fi.qualname, f"{g} re-bound to its filtered version before the edge loop",
                   f"`{g}` is not replaced by its filtered version before connections are built", fi.where)
    # 2. per-edge mask
    em = [c for c in masks if "match_edge_inds_sample" in norm(c)]
    for c in em:
        parallel_filter(res, fi, c, [g for g in group if g != "match_edge_inds_sample"], R)
    res.ob(R, len(em) == 1, fi.qualname, "one per-edge mask", f"{len(em)} per-edge masks", fi.where)
    # 3. per-node mask
    nm = [c for c in masks if "peak_channel_inds_sample" in norm(c)]
    for c in nm:
        parallel_filter(res, fi, c, ["peaks_sample", "peak_scores_sample"], R)
        # the mask selects node type i for i over all node types
        ok = len(c.ops) == 1 and isinstance(c.ops[0], ast.Eq) and "peak_channel_inds_sample" in (norm(c.left), norm(c.comparators[0]))
        other = c.comparators[0] if norm(c.left) == "peak_channel_inds_sample" else c.left
        gens = [a for a in ancestors(c) if isinstance(a, (ast.For, ast.ListComp))]
        it = None
        for a in gens:
            if isinstance(a, ast.For) and norm(a.target) == norm(other):
                it = a.iter
            elif isinstance(a, ast.ListComp) and norm(a.generators[0].target) == norm(other):
                it = a.generators[0].iter
        res.ob(R, ok and it is not None and norm(it) == "range(n_nodes)", fi.qualname, "one mask per node type 0..n_nodes-1",
               f"the per-node mask `{short(c, 50)}` does not range over range(n_nodes)", f"{fi.module.relpath}:{c.lineno}")
    res.ob(R, len(nm) == 1, fi.qualname, "one per-node mask", f"{len(nm)} per-node masks", fi.where)
    # 4. EdgeConnection(src, dst, score) from zip(src, dst, scores)
    ecs = [n for n in walk_function(fi.node) if isinstance(n, ast.Call) and norm(n.func) == "EdgeConnection"]
    res.ob(R, len(ecs) == 1, fi.qualname, "one EdgeConnection construction", f"{len(ecs)} EdgeConnection constructions", fi.where)
    ec_cls = prog.cls(f"{PG}:EdgeConnection")
    fields = list(ec_cls.fields())
    for ec in ecs:
        comp = ec._parent
        zit = comp.generators[0].iter if isinstance(comp, ast.ListComp) else None
        if isinstance(zit, ast.Name):      # the zip has a name of its own:  edge_matches = zip(src, dst, scores)
            zit = astq.expand_at(fi.node, zit, enclosing_stmt(comp), depth=1) or zit
        if isinstance(comp, ast.ListComp) and isinstance(zit, ast.Call) and norm(zit.func) == "zip":
            z = zit.args
            tg = comp.generators[0].target.elts if isinstance(comp.generators[0].target, ast.Tuple) else []
            # map each constructor position to the source array through the zip
            # (each zipped sequence with named intermediates expanded; the array behind a masked selection A[mask])
            def root(a_):
                e_ = astq.expand(fi.node, a_)
                return norm(e_.value) if isinstance(e_, ast.Subscript) else norm(e_)
            src_of = {norm(t): root(a) for t, a in zip(tg, z)}
            pos = [src_of.get(norm(a), "?") for a in ec.args]
            want = ["match_src_peak_inds_sample", "match_dst_peak_inds_sample", "match_line_scores_sample"]
            res.ob(R, pos == want and fields == ["src_peak_ind", "dst_peak_ind", "score"], fi.qualname, "EdgeConnection(src, dst, score) from the src/dst/score arrays",
                   f"EdgeConnection fields {fields} receive {pos}: source, destination and score are mixed up", f"{fi.module.relpath}:{ec.lineno}")
        else:
            res.inconclusive(f"{fi.qualname}: EdgeConnection not built by a comprehension over zip()")
    res.floor(R, 20)


def check_minpeaks(prog: Program, res: Result) -> None:
    fi = prog.func(f"{PG}:assign_connections_to_instances")
    res.touch(fi)
    R = "C08-minpeaks"
    # the threshold the filter compares with: the parameter itself, or a local computed from it (every binding mentions it)
    def _threshold_names():
        out = {"min_instance_peaks"}
        for st_ in walk_function(fi.node):
            if isinstance(st_, ast.Assign) and len(st_.targets) == 1 and isinstance(st_.targets[0], ast.Name) and st_.targets[0].id != "min_instance_peaks":
                nm_ = st_.targets[0].id
                binds_ = [b_ for b_ in astq.assignments_to(fi.node, nm_)]
                if binds_ and all(isinstance(b_, ast.Assign) and "min_instance_peaks" in astq.names_in(b_.value) for b_ in binds_):
                    out.add(nm_)
        return out
    thr_names = _threshold_names()
    comps = [n for n in walk_function(fi.node) if isinstance(n, ast.DictComp) and n.generators and n.generators[0].ifs
             and astq.names_in(n.generators[0].ifs[0]) & thr_names]
    res.ob(R, len(comps) == 1, fi.qualname, "one min_instance_peaks filter", f"{len(comps)} filters on min_instance_peaks", fi.where)
    table = None
    for c in comps:
        g = c.generators[0]
        cond = g.ifs[0]
        it = g.iter
        table = norm(it.func.value) if isinstance(it, ast.Call) and isinstance(it.func, ast.Attribute) and it.func.attr == "items" and not it.args else None
        tg = [norm(e) for e in g.target.elts] if isinstance(g.target, ast.Tuple) and len(g.target.elts) == 2 else [None, None]
        # count[instance] >= minimum, count being the number of table entries per instance id
        counter = cond.left.value.id if isinstance(cond, ast.Compare) and isinstance(cond.left, ast.Subscript) and isinstance(cond.left.value, ast.Name) else None
        ok = isinstance(cond, ast.Compare) and len(cond.ops) == 1 and isinstance(cond.ops[0], (ast.GtE,)) and norm(cond.comparators[0]) in thr_names \
            and counter is not None and norm(cond.left.slice) == tg[1]
        if ok:
            thr = norm(cond.comparators[0])
        res.ob(R, ok, fi.qualname, f"keeps instances with count >= minimum: {short(cond, 60)}",
               f"the filter `{short(cond, 60)}` does not keep exactly the instances with at least min_instance_peaks peaks", f"{fi.module.relpath}:{c.lineno}")
        res.ob(R, table is not None and norm(c.key) == tg[0] and norm(c.value) == tg[1],
               fi.qualname, "filter keeps the (peak, instance) pairs unchanged", "the filter rewrites peak ids or instance ids", f"{fi.module.relpath}:{c.lineno}")
        st = c._parent
        res.ob(R, (isinstance(st, ast.Assign) and norm(st.targets[0]) == table) or isinstance(st, ast.Return), fi.qualname, "the filtered table is what is returned",
               "the filtered table is not what is returned", f"{fi.module.relpath}:{c.lineno}")
        # the counter counts the instance ids of the table: Counter(T.values()) or np.unique(list(T.values()), return_counts=True)
        seen, todo, counted = set(), [counter] if counter else [], False
        while todo and len(seen) < 12:
            nm = todo.pop()
            if nm in seen:
                continue
            seen.add(nm)
            for d in astq.assignments_to(fi.node, nm):
                v = getattr(d, "value", None)
                if v is None:
                    continue
                for k in ast.walk(v):
                    if isinstance(k, ast.Call) and f"{table}.values()" in norm(k) and (
                            norm(k.func).split(".")[-1] == "Counter" or (norm(k.func).split(".")[-1] == "unique" and any(kw.arg == "return_counts" and astq.const_value(kw.value) is True for kw in k.keywords))):
                        counted = True
                todo += [x for x in astq.names_in(v) if x not in seen and x != table]
        res.ob(R, counted, fi.qualname, "peak counts are counts of instance ids in the table",
               "per-instance peak counts are not computed from the assignment table", fi.where)
    rets = [n for n in walk_function(fi.node) if isinstance(n, ast.Return)]
    res.ob(R, bool(rets) and table is not None and all(r.value is not None and (norm(r.value) == table or r.value in comps) for r in rets), fi.qualname,
           "returns the assignment table", "does not return the assignment table", fi.where)
    # the threshold is the caller's COUNT unless it is a float fraction (decided by type, not by value: the count 1 is valid)
    def _float_arm(st_):
        """'float' / 'other' when st_ sits in the arm of an `isinstance(min_instance_peaks, float)` test (or its negation) that is taken for floats / for the rest"""
        for g in [a for a in ancestors(st_) if isinstance(a, ast.If)]:
            t_, neg_ = g.test, False
            if isinstance(t_, ast.UnaryOp) and isinstance(t_.op, ast.Not):
                t_, neg_ = t_.operand, True
            if isinstance(t_, ast.Call) and norm(t_.func) == "isinstance" and len(t_.args) == 2 and norm(t_.args[0]) == "min_instance_peaks" \
                    and norm(t_.args[1]) in ("float", "(float,)", "(float, np.floating)", "(float, np.float32, np.float64)"):
                in_body = st_ in list(ast.walk(ast.Module(body=g.body, type_ignores=[])))
                in_else = st_ in list(ast.walk(ast.Module(body=g.orelse, type_ignores=[])))
                if in_body or in_else:
                    return "float" if in_body != neg_ else "other"
        return None

    thr = locals().get("thr", "min_instance_peaks")
    re_defs = [st for st in walk_function(fi.node) if isinstance(st, ast.Assign) and norm(st.targets[0]) == thr]
    for st in re_defs:
        guards = [a for a in ancestors(st) if isinstance(a, ast.If)]
        if thr != "min_instance_peaks" and norm(st.value) == "min_instance_peaks":
            # the local threshold takes the caller's count as it is - on the arm for non-floats
            res.ob(R, _float_arm(st) == "other", fi.qualname, "an integer count is used as given",
                   f"`{short(st, 60)}` takes min_instance_peaks unscaled although it may be a float fraction here", f"{fi.module.relpath}:{st.lineno}")
            continue
        typed = _float_arm(st) == "float"
        res.ob(R, typed, fi.qualname, "threshold rescaled to a fraction of the nodes only for float arguments",
               f"`{short(st, 60)}` re-interprets min_instance_peaks under `{short(guards[0].test, 50) if guards else 'no guard'}`: an integer COUNT (e.g. 1) is turned into a "
               "fraction of the node count, so instances with enough peaks are dropped", f"{fi.module.relpath}:{st.lineno}")
        ok_val = isinstance(st.value, ast.Call) and norm(st.value.func) in ("int", "round", "math.ceil", "np.ceil") and "min_instance_peaks * n_nodes" in norm(st.value).replace("n_nodes * min_instance_peaks", "min_instance_peaks * n_nodes")
        res.ob(R, ok_val, fi.qualname, "fraction threshold = fraction * n_nodes", f"`{short(st, 60)}` is not fraction * n_nodes", f"{fi.module.relpath}:{st.lineno}")
    res.floor(R, 8)


def check_partition(prog: Program, res: Result) -> None:
    fi = prog.func(f"{PG}:make_predicted_instances")
    res.touch(fi)
    R = "C08-part"
    loops = [n for n in walk_function(fi.node) if isinstance(n, ast.For) and norm(n.iter) == "instance_assignments.items()"]
    res.ob(R, len(loops) == 1, fi.qualname, "one fill loop over the assignment table", f"{len(loops)} fill loops", fi.where)
    for lp in loops:
        tg = [norm(e) for e in lp.target.elts] if isinstance(lp.target, ast.Tuple) else []
        if len(tg) != 2:
            res.inconclusive(f"{fi.qualname}: fill loop target not (peak_id, instance_ind)")
            continue
        pid, inst = tg
        for arr, src in (("predicted_instances", "peaks"), ("predicted_peak_scores", "peak_scores")):
            sts = [s for s in lp.body if isinstance(s, ast.Assign) and isinstance(s.targets[0], ast.Subscript) and norm(s.targets[0].value) == arr]
            ok = len(sts) == 1
            if ok:
                keep = [pid, inst]
                idx = sts[0].targets[0].slice
                el = [astq.norm(astq.expand_at(fi.node, e, sts[0], keep=keep)) for e in idx.elts] if isinstance(idx, ast.Tuple) else [astq.norm(astq.expand_at(fi.node, idx, sts[0], keep=keep))]
                ok = el[:2] == [inst, f"{pid}.node_ind"] and astq.norm(astq.expand_at(fi.node, sts[0].value, sts[0], keep=keep)) == f"{src}[{pid}.node_ind][{pid}.peak_ind]"
            res.ob(R, ok, fi.qualname, f"{arr}[instance, node] = {src}[node][peak]",
                   f"{arr} is not filled as {arr}[{inst}, {pid}.node_ind] = {src}[{pid}.node_ind][{pid}.peak_ind]: a keypoint would not be "
                   "the detected peak of that node / instance", fi.where)
    # instance score accumulates the edge score of the connection's own instance
    acc = [s for s in walk_function(fi.node) if isinstance(s, ast.AugAssign) and isinstance(s.op, ast.Add) and norm(s.target).startswith("predicted_instance_scores[")]
    res.ob(R, len(acc) == 1 and norm(acc[0].value).endswith(".score"), fi.qualname, "instance score += edge score",
           "instance scores are not the sum of accepted edge scores", fi.where)
    init = [s for s in walk_function(fi.node) if isinstance(s, ast.Assign) and norm(s.targets[0]) == "predicted_instance_scores"]
    res.ob(R, len(init) == 1 and "0.0" in norm(init[0].value), fi.qualname, "scores start at 0", "instance scores do not start from zero", fi.where)
    for arr in ("predicted_instances", "predicted_peak_scores"):
        init = [s for s in walk_function(fi.node) if isinstance(s, ast.Assign) and norm(s.targets[0]) == arr]
        res.ob(R, len(init) == 1 and "np.nan" in norm(init[0].value), fi.qualname, f"{arr} starts as NaN",
               f"{arr} is not initialised with NaN (unassigned nodes must stay missing)", fi.where)
    res.floor(R, 6)


def check_select(prog: Program, res: Result) -> None:
    """match_candidates_sample itself scrubs NaN line scores (`cost[isnan(cost)] = inf`): it believes they occur (they
    do: coincident peaks give 0/0).  Order-based selections (argmax/argmin/max/min/topk/sort, the assignment solver)
    treat NaN as an extreme value, so every selection over data derived from the line scores has to read the SCRUBBED
    array; a shortcut that ranks the raw scores picks the undefined candidate over the best defined one."""
    R = "C08-select"
    fi = prog.func(f"{PG}:match_candidates_sample")
    res.touch(fi)
    score_params = [p for p in fi.params if "score" in p]
    if not score_params:
        raise AnalysisError(f"{fi.qualname}: no line-score parameter")
    dep = astq.dep_closure(list(fi.node.body), set(score_params))
    scrubbed = {}
    for st in walk_function(fi.node):
        if isinstance(st, ast.Assign) and isinstance(st.targets[0], ast.Subscript) and isinstance(st.targets[0].value, ast.Name):
            m = st.targets[0].slice
            if isinstance(m, ast.Call) and norm(m.func).split(".")[-1] == "isnan" and m.args and norm(m.args[0]) == st.targets[0].value.id:
                scrubbed[st.targets[0].value.id] = st.lineno
    res.ob(R, bool(scrubbed), fi.qualname, "NaN scores are scrubbed before matching", "no NaN scrub of the cost matrix found", fi.where)
    SEL = {"argmax", "argmin", "max", "min", "amax", "amin", "topk", "sort", "argsort", "linear_sum_assignment", "nanargmax", "nanargmin"}
    n = 0
    for c in walk_function(fi.node):
        if not isinstance(c, ast.Call):
            continue
        name = norm(c.func).split(".")[-1]
        if name not in SEL:
            continue
        operand = c.args[0] if c.args and (norm(c.func).split(".")[0] in ("torch", "np", "numpy") or isinstance(c.func, ast.Name)) else (c.func.value if isinstance(c.func, ast.Attribute) else None)
        if operand is None:
            continue
        names = astq.names_in(operand)
        if not (names & dep):
            continue
        n += 1
        if name.startswith("nanarg"):
            ok = True
        else:
            base = astq.attr_base(operand) if not isinstance(operand, ast.Name) else operand.id
            ok = base in scrubbed and scrubbed[base] < c.lineno
        res.ob(R, ok, fi.qualname, f"{name}() ranks scrubbed scores: {short(c, 50)}",
               f"`{short(c, 60)}` ranks values derived from the line scores that have not been NaN-scrubbed: an undefined (NaN) score of two peaks on the same pixel is "
               "treated as the best candidate and the defined match is lost", f"{fi.module.relpath}:{c.lineno}")
    res.floor(R, 2)


def check_scorer_params(prog: Program, res: Result) -> None:
    """The caller's scoring parameters (min_instance_peaks, min_line_scores, n_points, ...) are constructor fields of
    PAFScorer and reach the grouping functions as given: no method re-assigns a constructor field (only the derived
    init=False fields are computed in __attrs_post_init__).  Pre-converting the fractional min_instance_peaks with a
    different rounding than assign_connections_to_instances uses drops instances that have enough peaks."""
    R = "C08-minpeaks"
    ci = prog.cls(f"{PG}:PAFScorer")
    given, derived = set(), set()
    ac = prog.func(f"{PG}:assign_connections_to_instances")
    typed_consumer = any(isinstance(c_, ast.Call) and norm(c_.func) == "isinstance" and c_.args and norm(c_.args[0]) == "min_instance_peaks" for c_ in walk_function(ac.node))
    for st in ci.node.body:
        if isinstance(st, ast.AnnAssign) and isinstance(st.target, ast.Name):
            v = st.value
            is_derived = isinstance(v, ast.Call) and any(k.arg == "init" and astq.const_value(k.value) is False for k in v.keywords)
            (derived if is_derived else given).add(st.target.id)
            # assign_connections_to_instances tells a COUNT from a FRACTION by the Python type of min_instance_peaks
            # (isinstance(..., float)): an attrs converter on that field changes what the caller's value means
            if st.target.id == "min_instance_peaks" and typed_consumer:
                conv = [k for k in v.keywords if k.arg == "converter"] if isinstance(v, ast.Call) else []
                ok_c = not conv or astq.const_value(conv[0].value) is None
                res.ob(R, ok_c, ci.qualname, "min_instance_peaks is stored as given (its int/float type carries meaning)",
                       f"PAFScorer.min_instance_peaks is declared with `converter={short(conv[0].value, 30) if conv else ''}`: the grouping code reads an int as an absolute count and a float "
                       "as a fraction of the nodes, so converting the caller's value changes the threshold", f"{ci.module.relpath}:{st.lineno}")
    res.ob(R, "min_instance_peaks" in given and "min_line_scores" in given, ci.qualname, "thresholds are constructor fields",
           f"PAFScorer no longer declares min_instance_peaks / min_line_scores as constructor fields (fields: {sorted(given)})", f"{ci.module.relpath}:{ci.node.lineno}")
    for fi in ci.methods.values():
        for st in walk_function(fi.node):
            tg = astq.stmt_targets(st) if isinstance(st, (ast.Assign, ast.AugAssign, ast.AnnAssign)) else []
            for t in tg:
                if isinstance(t, ast.Attribute) and norm(t.value) == "self" and t.attr in given:
                    res.touch(fi)
                    res.ob(R, False, fi.qualname, f"self.{t.attr} keeps the caller's value",
                           f"`{short(st, 70)}` re-assigns the constructor field `{t.attr}` of PAFScorer: the value the caller configured is replaced before it reaches the "
                           "grouping functions", f"{fi.module.relpath}:{st.lineno}")
    res.count(R, len(given))


def check_candidate_lists(prog: Program, res: Result) -> None:
    """get_connection_candidates concatenates one (possibly EMPTY) tensor per edge type: every iteration of the per-edge loop
    appends to each list.  An iteration that skips the appends for an edge type without candidates leaves `torch.cat([])`
    for a frame where NO edge type has a candidate (no detections, a single detected node type) - grouping raises instead of
    returning no instances."""
    from ..core.cfg import CFG
    R = "C08-filter"
    fi = prog.func(f"{PG}:get_connection_candidates")
    res.touch(fi)
    cfg = CFG(fi.node)
    cats = [c for c in walk_function(fi.node) if isinstance(c, ast.Call) and norm(c.func).split(".")[-1] in ("cat", "concat", "concatenate") and c.args and isinstance(c.args[0], ast.Name)]
    n = 0
    for c in cats:
        L = c.args[0].id
        apps = [a for a in astq.method_calls(fi.node, "append") if norm(a.func.value) == L and astq.enclosing_loops(a)]
        if not apps:
            comp = [b for b in astq.list_builds(fi.node, L) if isinstance(b.site, ast.ListComp)]
            res.ob(R, bool(comp) and not any(b.conds for b in comp), fi.qualname, f"`{L}` has one tensor per edge type", f"`{L}` is not filled with one tensor per edge type", fi.where)
            n += 1
            continue
        lp = astq.enclosing_loops(apps[0])[-1]
        heads = cfg.nodes_of(lp)
        enter = [m for h in heads for m in cfg.g.successors(h) if "true" in cfg.g[h][m]["labels"]]
        an = {x for a in apps for x in cfg.stmt_nodes_containing(a)}
        w = cfg.must_pass(enter, heads, an, drop_edge=lambda a_, b_, labels: "exc" in labels)
        n += 1
        res.ob(R, w is None, fi.qualname, f"every edge type contributes a (possibly empty) tensor to `{L}`",
               f"an iteration of the per-edge loop can end without appending to `{L}` ({cfg.path_str(w) if w else ''}): when no edge type has a candidate, torch.cat receives an "
               "empty list and raises - a frame without candidate connections no longer yields 'no instances'", f"{fi.module.relpath}:{lp.lineno}")
    res.ob(R, n >= 2, fi.qualname, "candidate lists found", f"only {n} concatenated candidate lists found in get_connection_candidates", fi.where)


def check(prog: Program, res: Result) -> None:
    from . import _state
    _state.check_no_cross_call_state(prog, res, "C08-state", ["sleap_nn.inference.paf_grouping:PAFScorer.predict", "sleap_nn.inference.paf_grouping:PAFScorer.score_paf_lines", "sleap_nn.inference.paf_grouping:PAFScorer.match_candidates", "sleap_nn.inference.paf_grouping:PAFScorer.group_instances"], floor=4)
    check_scorer_params(prog, res)
    c09.check_inf(prog, res, "C08-inf", PG)
    check_filter(prog, res)
    check_candidate_lists(prog, res)
    c17.check_use(prog, res, rule="C08-order")
    check_minpeaks(prog, res)
    check_select(prog, res)
    check_partition(prog, res)
    from . import c03, _batch
    res.borrow(c03.check_lines_premises, "C08-lines", prog)
    # every sample of the batch gets its own entry in every per-sample result (candidates, matches, instances)
    _batch.check_per_sample_lists(prog, res, "C08-batch", [f"{PG}:score_paf_lines_batch", f"{PG}:match_candidates_batch", f"{PG}:group_instances_batch"], floor=9)
    res.assumptions.append("optimality of the per-edge assignment is scipy's; partition/score-sum invariants over arbitrary inputs are not decided")


F = "sleap_nn/inference/paf_grouping.py"
VARIANTS = [
    Variant("filter-one-array-missed", F, "    match_dst_peak_inds_sample = match_dst_peak_inds_sample[is_valid_match]\n", "", "C08-filter"),
    Variant("filter-strictly-below", F, "    is_valid_match = match_line_scores_sample >= min_line_scores", "    is_valid_match = match_line_scores_sample <= min_line_scores", "C08-filter"),
    Variant("edge-mask-missed", F, "        line_scores = match_line_scores_sample[in_edge]\n", "        line_scores = match_line_scores_sample\n", "C08-filter"),
    Variant("conn-swapped", F, "            EdgeConnection(src, dst, score)\n", "            EdgeConnection(dst, src, score)\n", "C08-filter"),
    Variant("bp-node-mask-comprehension", F, "    peaks = []\n    peak_scores = []\n    for i in range(n_nodes):\n        in_channel = peak_channel_inds_sample == i\n        peaks.append(peaks_sample[in_channel])\n        peak_scores.append(peak_scores_sample[in_channel])",
            "    channel_masks = [peak_channel_inds_sample == i for i in range(n_nodes)]\n    peaks = [peaks_sample[in_channel] for in_channel in channel_masks]\n    peak_scores = [peak_scores_sample[in_channel] for in_channel in channel_masks]", None),
    Variant("node-mask-comprehension-scores-unmasked", F, "    peaks = []\n    peak_scores = []\n    for i in range(n_nodes):\n        in_channel = peak_channel_inds_sample == i\n        peaks.append(peaks_sample[in_channel])\n        peak_scores.append(peak_scores_sample[in_channel])",
            "    channel_masks = [peak_channel_inds_sample == i for i in range(n_nodes)]\n    peaks = [peaks_sample[in_channel] for in_channel in channel_masks]\n    peak_scores = [peak_scores_sample for in_channel in channel_masks]", "C08-filter"),
    Variant("node-mask-missed", F, "        peak_scores.append(peak_scores_sample[in_channel])", "        peak_scores.append(peak_scores_sample)", "C08-filter"),
    Variant("minpeaks-fraction-by-value", F, "        if isinstance(min_instance_peaks, float):", "        if min_instance_peaks <= 1:", "C08-minpeaks"),
    Variant("minpeaks-strict", F, "            if instance_peak_counts[instance] >= min_instance_peaks", "            if instance_peak_counts[instance] > min_instance_peaks", "C08-minpeaks"),
    Variant("part-wrong-peak", F, "        predicted_instances[instance_ind, peak_id.node_ind, :] = peaks[\n            peak_id.node_ind\n        ][peak_id.peak_ind]",
            "        predicted_instances[instance_ind, peak_id.node_ind, :] = peaks[\n            peak_id.node_ind\n        ][instance_ind]", "C08-part"),
    Variant("order-listing", F, "    for edge_ind in sorted_edge_inds:\n        in_edge", "    for edge_ind in range(len(edge_types)):\n        in_edge", "C08-order"),
    Variant("inf-more", F, "        match_line_scores_k = -cost_matrix_np[", "        cost_matrix_np[cost_matrix_np > 1e3] = np.inf\n        match_line_scores_k = -cost_matrix_np[", None),
    Variant("bp-gt-form", F, "    is_valid_match = match_line_scores_sample >= min_line_scores", "    is_valid_match = min_line_scores <= match_line_scores_sample", None),
]
VARIANTS = [v for v in VARIANTS if v.name != "inf-more"] + [
    Variant("inf-new-source", F, "    n_samples = pafs.shape[0]\n    batch_edge_inds = []", "    n_samples = pafs.shape[0]\n    batch_edge_inds = []", None),
]
VARIANTS = [v for v in VARIANTS if v.name != "inf-new-source"]
