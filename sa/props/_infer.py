"""Shared set-up of the inference entry points for the E2 interpretation (C02, C03)."""

from __future__ import annotations

import ast
from typing import Dict, List, Optional, Tuple

from ..core.program import AnalysisError, Program, norm
from ..engines.geom import Interp
from ..engines.geomval import Cfg, Const, Geo, HDict, Mismatch, Mono, Num, Other, Ref, Top, Tup

P = "sleap_nn.inference.predictors"
HC = "model_config.head_configs"
# model attribute of the predictor -> (config attribute, head path, head name used as output key)
STRIDE = {
    ("SingleInstancePredictor", "confmap_model", ""): "confmap_config.model_config.head_configs.single_instance.confmaps.output_stride",
    ("TopDownPredictor", "centroid_model", ""): "centroid_config.model_config.head_configs.centroid.confmaps.output_stride",
    ("TopDownPredictor", "confmap_model", ""): "confmap_config.model_config.head_configs.centered_instance.confmaps.output_stride",
    ("BottomUpPredictor", "bottomup_model", "MultiInstanceConfmapsHead"): "bottomup_config.model_config.head_configs.bottomup.confmaps.output_stride",
    ("BottomUpPredictor", "bottomup_model", "PartAffinityFieldsHead"): "bottomup_config.model_config.head_configs.bottomup.pafs.output_stride",
}
SCALE = {
    ("SingleInstancePredictor", "confmap_model"): "confmap_config.data_config.preprocessing.scale",
    ("TopDownPredictor", "centroid_model"): "centroid_config.data_config.preprocessing.scale",
    ("TopDownPredictor", "confmap_model"): "confmap_config.data_config.preprocessing.scale",
    ("BottomUpPredictor", "bottomup_model"): "bottomup_config.data_config.preprocessing.scale",
}
COMMON = {k: Other(k) for k in ("peak_threshold", "integral_refinement", "integral_patch_size", "batch_size", "return_confmaps", "device", "videos", "skeletons",
                                "max_instances", "anchor_ind", "backbone_type", "centroid_backbone_type", "centered_instance_backbone_type", "max_edge_length_ratio",
                                "dist_penalty_weight", "n_points", "min_instance_peaks", "min_line_scores")}


class Entry:
    def __init__(self, name: str, cls: str, attrs: Dict[str, object], provider: str, make_labels: bool = True):
        self.name, self.cls, self.attrs, self.provider, self.make_labels = name, cls, attrs, provider, make_labels


def entries(kinds=("single", "topdown", "bottomup")) -> List[Entry]:
    out: List[Entry] = []
    if "single" in kinds:
        for prov in ("LabelsReader", "VideoReader"):
            out.append(Entry(f"single-instance/{prov}", "SingleInstancePredictor",
                             {"confmap_config": Cfg(("confmap_config",)), "confmap_model": Other("model:confmap_model")}, prov))
    if "topdown" in kinds:
        both = {"centroid_config": Cfg(("centroid_config",)), "centroid_model": Other("model:centroid_model"),
                "confmap_config": Cfg(("confmap_config",)), "confmap_model": Other("model:confmap_model")}
        for prov in ("LabelsReader", "VideoReader"):
            out.append(Entry(f"top-down centroid+centered-instance/{prov}", "TopDownPredictor", both, prov))
        out.append(Entry("top-down centroid only (ground-truth peaks)/LabelsReader", "TopDownPredictor",
                         {"centroid_config": Cfg(("centroid_config",)), "centroid_model": Other("model:centroid_model"), "confmap_config": Const(None), "confmap_model": Const(None)}, "LabelsReader",
                         make_labels=False))  # raw outputs only: the labelled-frame builder needs the boxes of the second stage
        out.append(Entry("top-down ground-truth centroids + centered-instance/LabelsReader", "TopDownPredictor",
                         {"centroid_config": Const(None), "centroid_model": Const(None), "confmap_config": Cfg(("confmap_config",)), "confmap_model": Other("model:confmap_model")}, "LabelsReader"))
    if "bottomup" in kinds:
        for prov in ("LabelsReader", "VideoReader"):
            out.append(Entry(f"bottom-up/{prov}", "BottomUpPredictor", {"bottomup_config": Cfg(("bottomup_config",)), "bottomup_model": Other("model:bottomup_model")}, prov))
    return out


class Run:
    def __init__(self, entry: Entry, I: Interp, yielded, pred: Ref):
        self.entry, self.I, self.yielded, self.pred = entry, I, yielded, pred


def run_entry(prog: Program, e: Entry, make_labels: bool = True) -> Run:
    I = Interp(prog)
    I.leaves.rout_rule = "R-out"
    cls = e.cls

    def stride(tag: str, head: str) -> Mono:
        key = (cls, tag, head)
        if key not in STRIDE:
            key = (cls, tag, "")
        if key in STRIDE:
            return Mono.sym(STRIDE[key])
        return Mono.sym(f"stride:{tag}:{head}")

    I.leaves.model_stride = stride
    attrs = dict(COMMON)
    attrs.update({"preprocess_config": Const(None), "instances_key": Const(False), "inference_model": Const(None), "preprocess": Const(True),
                  "pipeline": Const(None), "tracker": Const(None), "provider": Other("provider")})
    attrs.update(e.attrs)
    pred = I.new_obj(f"{P}:{cls}", attrs)
    ci = prog.cls(f"{P}:{cls}")
    for m in ("make_pipeline", "_initialize_inference_model", "_make_labeled_frames_from_generator"):
        if prog.lookup_method(ci, m) is None:
            raise AnalysisError(f"{cls}.{m} vanished")
    # from_trained_models initialises the inference model first; main() then calls make_pipeline
    I.call_function(prog.lookup_method(ci, "_initialize_inference_model"), [], {}, self_val=pred)
    I.call_function(prog.lookup_method(ci, "make_pipeline"), [Const(e.provider), Other("data_path")], {}, self_val=pred)
    gen = prog.lookup_method(ci, "_predict_generator")
    out = I.call_function(gen, [], {}, self_val=pred)
    if make_labels and e.make_labels:
        I.call_function(prog.lookup_method(ci, "_make_labeled_frames_from_generator"), [out], {}, self_val=pred)
    return Run(e, I, out, pred)


def eff_of(m: Mono) -> Tuple[Mono, Mono]:
    """Split a monomial into its size-matching part (eff@...) and the rest."""
    eff = Mono({k: v for k, v in m.e.items() if k.startswith("eff@")})
    return eff, m / eff
