"""C14 — model output contract (partial): evaluation-mode statelessness of forward(), decoder
stride bookkeeping, head selection by stride, head channel counts."""

from __future__ import annotations

import ast
from typing import Dict, List, Optional, Set

from ..core import astq
from ..core.program import enclosing_stmt, AnalysisError, ClassInfo, Program, ancestors, norm, short, walk_function
from ..engines.selfstate import SelfState
from ..report import Result
from ..runner import Variant

PROP = "C14"
EXPLANATION = (
    "(state) for the forward() of every nn.Module under sleap_nn/architectures and of the inference modules, a must-"
    "written-set dataflow over the CFG (callees on self summarised) finds attributes of self that the call writes and "
    "that some path reads before any write of the same call - a value flowing from one call to the next - and in-place "
    "mutations of container attributes; one symbol is exempted with a stated reason. (pair) in both construction loops "
    "of Decoder every block appended to decoder_stack has, in the same iteration, the stride it was built with "
    "appended to current_strides, and the running stride is halved afterwards. (sel) Decoder.forward emits one output "
    "per block in stack order together with current_strides; each backbone returns the decoder's dict; Model.forward "
    "selects outputs[strides.index(head.output_stride)] for the head/head_layer pair built in the same order. (chan) "
    "the confidence-map heads report len(part_names) channels (1 for centroids), the PAF head 2*len(edges); make_head "
    "is a 1x1, stride-1, same-padded convolution with out_channels=self.channels; the output keys read by the "
    "bottom-up decoder are the class names of the heads get_head builds. Not decided: the configuration grid -> "
    "spatial shape arithmetic."
)
TRUSTED = ["CPython ast", "networkx reachability", "torch.nn.Conv2d(kernel_size=1, stride=1, padding='same') preserves spatial size"]

EXEMPT = {
    ("sleap_nn.architectures.common:MaxPool2dWithSamePadding", "padding"):
        "forward sets self.padding = 0 after padding explicitly; for inputs whose sides are multiples of the max stride every "
        "pooled side is even, the computed pad is 0 and the result is history-independent (DESIGN.md section 3)",
}
INFERENCE_MODULES = [
    "sleap_nn.inference.single_instance:SingleInstanceInferenceModel",
    "sleap_nn.inference.topdown:CentroidCrop",
    "sleap_nn.inference.topdown:FindInstancePeaks",
    "sleap_nn.inference.topdown:FindInstancePeaksGroundTruth",
    "sleap_nn.inference.topdown:TopDownInferenceModel",
    "sleap_nn.inference.bottomup:BottomUpInferenceModel",
]


def check_state(prog: Program, res: Result) -> None:
    ss = SelfState(prog)
    n = 0
    classes: List[ClassInfo] = [c for c in prog.classes.values() if c.module.name.startswith("sleap_nn.architectures")]
    classes += [prog.cls(q) for q in INFERENCE_MODULES]
    for ci in classes:
        fwd = ci.methods.get("forward")
        if fwd is None:
            continue
        n += 1
        res.touch(fwd)
        s = ss.summary(fwd)
        flows = sorted(s.rbw & s.may_writes)
        for x in flows:
            if (ci.qualname, x) in EXEMPT:
                res.notes.append(f"exempted: {ci.qualname}.{x}: {EXEMPT[(ci.qualname, x)]}")
                res.count("C14-state")
                continue
            res.ob("C14-state", False, fwd.qualname, f"self.{x} read before written, and written, in forward()",
                   f"forward() reads self.{x} (line {s.rbw_sites.get(x)}) on a path where this call has not written it yet, and also writes it: "
                   "the output depends on earlier calls (state leaks between frames/batches)", f"{fwd.module.relpath}:{s.rbw_sites.get(x, fwd.node.lineno)}")
        for x, line in sorted(s.mutated.items()):
            res.ob("C14-state", False, fwd.qualname, f"self.{x} mutated in place in forward()",
                   f"forward() mutates the container attribute self.{x} in place (line {line}): it accumulates across calls", f"{fwd.module.relpath}:{line}")
        res.ob("C14-state", not [x for x in flows if (ci.qualname, x) not in EXEMPT] and not s.mutated, fwd.qualname,
               "no cross-call flow through self", "see the findings above", fwd.where,
               sample={"writes": sorted(s.may_writes), "read_before_write": sorted(s.rbw)[:8]} if s.may_writes else None)
    res.extra["forward_methods"] = n
    res.extra["selfstate"] = ss.stats
    res.floor("C14-state", 18)


def check_pair(prog: Program, res: Result) -> None:
    ci = prog.cls("sleap_nn.architectures.encoder_decoder:Decoder")
    init = ci.methods.get("__init__")
    if init is None:
        raise AnalysisError("Decoder.__init__ vanished")
    res.touch(init)
    R = "C14-pair"
    stack_appends = [c for c in astq.method_calls(init.node, "append") if norm(c.func.value) == "self.decoder_stack"]
    res.ob(R, len(stack_appends) == 2, init.qualname, "two construction loops append to decoder_stack", f"{len(stack_appends)} appends to decoder_stack", init.where)
    for c in stack_appends:
        loops = astq.enclosing_loops(c)
        if len(loops) != 1:
            res.ob(R, False, init.qualname, f"block append in one loop: {short(c, 40)}", "decoder block appended outside a single loop", f"{init.module.relpath}:{c.lineno}")
            continue
        loop = loops[0]
        body = loop.body
        st = astq_stmt(c)
        res.ob(R, st in body, init.qualname, "block appended unconditionally in the loop body", "decoder block appended under a condition", f"{init.module.relpath}:{c.lineno}")
        block = c.args[0] if c.args else None
        kw = {k.arg: k.value for k in block.keywords} if isinstance(block, ast.Call) else {}
        stride_expr = kw.get("current_stride")
        sa = [x for s in body for x in ast.walk(s) if isinstance(x, ast.Call) and isinstance(x.func, ast.Attribute) and x.func.attr == "append"
              and norm(x.func.value) == "self.current_strides"]
        ok = len(sa) == 1 and astq_stmt(sa[0]) in body and stride_expr is not None and norm(sa[0].args[0]) == norm(stride_expr)
        res.ob(R, ok, init.qualname, f"stride of the block recorded in the same iteration ({short(stride_expr, 30) if stride_expr is not None else '?'})",
               "a decoder block is appended without (exactly one, unconditional) current_strides.append of the stride it was built with: "
               "strides.index(head.output_stride) then selects the wrong decoder output", f"{init.module.relpath}:{c.lineno}",
               sample={"block_stride": norm(stride_expr) if stride_expr is not None else None})
        if ok:
            # order: both appends precede the update of the running stride
            sname = norm(stride_expr)
            upd = [s for s in body if isinstance(s, ast.Assign) and norm(s.targets[0]) == sname]
            ok2 = len(upd) == 1 and body.index(upd[0]) > body.index(astq_stmt(sa[0])) and body.index(upd[0]) > body.index(st)
            res.ob(R, ok2, init.qualname, f"{sname} updated once, after both appends", f"`{sname}` is not updated exactly once after the block and its stride are recorded",
                   f"{init.module.relpath}:{c.lineno}")
            if ok2:
                v = upd[0].value
                vd = v
                if isinstance(v, ast.Name):
                    d = [s for s in body if isinstance(s, ast.Assign) and norm(s.targets[0]) == v.id]
                    vd = d[0].value if len(d) == 1 else v
                res.ob(R, norm(vd) == f"{sname} // 2" and norm(kw.get("upsampling_stride", ast.Constant(2))) == "2", init.qualname,
                       "running stride halves with each 2x upsampling block", f"the running stride becomes `{short(vd, 30)}` after a block that upsamples by "
                       f"{norm(kw.get('upsampling_stride')) if 'upsampling_stride' in kw else '?'}", f"{init.module.relpath}:{c.lineno}")
    res.floor(R, 8)


def astq_stmt(n):
    from ..core.program import enclosing_stmt

    return enclosing_stmt(n)


def check_sel(prog: Program, res: Result) -> None:
    R = "C14-sel"
    dec = prog.cls("sleap_nn.architectures.encoder_decoder:Decoder").methods.get("forward")
    res.touch(dec)
    loops = [n for n in walk_function(dec.node) if isinstance(n, ast.For)]
    le = astq.loop_elems(loops[0], dec.node) if len(loops) == 1 else None
    ok = le is not None and norm(le.seq) == "self.decoder_stack"
    res.ob(R, ok, dec.qualname, "one pass over decoder_stack in order", "Decoder.forward does not run the blocks once in stack order", dec.where)
    rets = [r for r in walk_function(dec.node) if isinstance(r, ast.Return) and r.value is not None]
    rec = astq.record_fields(dec.node, rets[0].value) if len(rets) == 1 else None
    # the list returned under "outputs": a local list, or the list stored in the record itself (outputs["outputs"])
    lname = None
    if rec is not None and "outputs" in rec:
        v = rec["outputs"]
        lname = v.id if isinstance(v, ast.Name) else (f"{norm(rets[0].value)}['outputs']" if isinstance(v, ast.List) and not v.elts and isinstance(rets[0].value, ast.Name) else None)
    if ok:
        lp = loops[0]
        apps = [c for s in lp.body for c in ast.walk(s) if isinstance(c, ast.Call) and isinstance(c.func, ast.Attribute) and c.func.attr == "append"]
        ok = len(apps) == 1 and astq_stmt(apps[0]) in lp.body and lname is not None and norm(apps[0].func.value) == lname and isinstance(apps[0].args[0], ast.Name)
        res.ob(R, ok, dec.qualname, "one output recorded per block", "Decoder.forward does not record exactly one output per block", dec.where)
        if ok:
            xn = apps[0].args[0].id
            # every binding of the running tensor inside the loop is block_i(x, ...) for the current block
            binds = [s_ for s_ in ast.walk(lp) if isinstance(s_, ast.Assign) and norm(s_.targets[0]) == xn]
            okb = bool(binds) and all(isinstance(b.value, ast.Call) and le.is_elem(b.value.func) and b.value.args and norm(b.value.args[0]) == xn for b in binds)
            res.ob(R, okb, dec.qualname, "block i is applied to the running tensor", "the running tensor is not updated by the current block of the stack", dec.where)
    res.ob(R, rec is not None and "strides" in rec and norm(rec["strides"]) == "self.current_strides", dec.qualname, "strides returned are current_strides",
           "Decoder.forward does not return self.current_strides alongside the outputs", dec.where)
    for q in ("sleap_nn.architectures.unet:UNet", "sleap_nn.architectures.convnext:ConvNextWrapper", "sleap_nn.architectures.swint:SwinTWrapper"):
        f = prog.cls(q).methods.get("forward")
        res.touch(f)
        rets = [n for n in walk_function(f.node) if isinstance(n, ast.Return)]
        d = None
        if len(rets) == 1 and isinstance(rets[0].value, ast.Name):
            defs = [s for s in astq.assignments_to(f.node, rets[0].value.id) if isinstance(s, ast.Assign)]
            d = max(defs, key=lambda s_: s_.lineno).value if defs else None
        ok = isinstance(d, ast.Call) and norm(d.func) == "self.dec"
        res.ob(R, ok, f.qualname, "backbone returns the decoder's outputs/strides dict", "the backbone does not return self.dec(...)", f.where)
        init = prog.cls(q).methods.get("__init__")
        decs = [s for s in walk_function(init.node) if isinstance(s, ast.Assign) and norm(s.targets[0]) == "self.dec"]
        ok = len(decs) == 1 and isinstance(decs[0].value, ast.Call) and prog.resolve_call(init, decs[0].value) == "sleap_nn.architectures.encoder_decoder:Decoder"
        res.ob(R, ok, init.qualname, "self.dec is the shared Decoder", "self.dec is not an encoder_decoder.Decoder", init.where)
        if ok:
            kw = {k.arg: k.value for k in decs[0].value.keywords}
            res.ob(R, norm(kw.get("output_stride", ast.Constant(None))) in ("output_stride", "self.output_stride"), init.qualname, "Decoder(output_stride=output_stride)",
                   f"the decoder is built with output_stride={short(kw.get('output_stride'), 30) if 'output_stride' in kw else 'default'}", init.where)
    m = prog.cls("sleap_nn.architectures.model:Model")
    fwd = m.methods.get("forward")
    res.touch(fwd)
    rets = [n for n in walk_function(fwd.node) if isinstance(n, ast.Return) and n.value is not None]
    builds = astq.dict_builds(fwd.node, rets[0].value) if len(rets) == 1 else []
    gen = builds[0].gen if len(builds) == 1 else None
    ok = gen is not None and norm(gen.iter) == "zip(self.heads, self.head_layers)" and isinstance(gen.target, ast.Tuple) and len(gen.target.elts) == 2 \
        and not getattr(gen, "ifs", None)
    res.ob(R, ok, fwd.qualname, "heads paired with their layers", "Model.forward does not iterate zip(self.heads, self.head_layers)", fwd.where)
    if ok:
        h, hl = [norm(e) for e in gen.target.elts]
        bd = builds[0]
        site = bd.site if isinstance(bd.site, ast.stmt) else astq_stmt(bd.site)
        ok = norm(bd.key) == f"{h}.name" and (isinstance(bd.site, ast.DictComp) or bd.site in gen.body)
        outs = [bd.site]
        val = astq.expand_at(fwd.node, bd.value, site, keep=[h, hl]) if ok else None
        # head_layer(B['outputs'][B['strides'].index(head.output_stride)]) for the backbone result B
        txt = norm(val).replace('"', "'") if val is not None else ""
        import re
        mm = re.fullmatch(re.escape(hl) + r"\((.+?)\['outputs'\]\[(.+?)\['strides'\]\.index\(" + re.escape(h) + r"\.output_stride\)\]\)", txt)
        ok = ok and mm is not None and mm.group(1) == mm.group(2)
        res.ob(R, ok, fwd.qualname, "index looked up by the head's own output stride",
               f"the decoder output is not selected by strides.index({h}.output_stride): `{txt[:90]}`", fwd.where)
        res.ob(R, ok, fwd.qualname, f"outputs[{h}.name] = {hl}(backbone outputs[idx])",
               f"the head output is computed as `{short(bd.value, 60)}`", fwd.where,
               sample={"apply": txt[:120]})
        if ok:
            bsrc = mm.group(1)
            res.ob(R, bsrc.startswith("self.backbone("), fwd.qualname, "the dict comes from self.backbone(x)", f"`{bsrc}` is not the result of self.backbone(...)", fwd.where)
    init = m.methods.get("__init__")
    res.touch(init)
    hl_app = [c for c in astq.method_calls(init.node, "append") if norm(c.func.value) == "self.head_layers"]
    ok = len(hl_app) == 1
    if ok:
        lp = astq.enclosing_loops(hl_app[0])
        ok = len(lp) == 1 and norm(lp[0].iter) == "self.heads" and astq_stmt(hl_app[0]) in lp[0].body \
            and norm(hl_app[0].args[0].func) == f"{norm(lp[0].target)}.make_head"
    res.ob(R, ok, init.qualname, "one head layer per head, in head order, made by that head", "head_layers is not built as one make_head per head in order", init.where)
    hs = [s for s in walk_function(init.node) if isinstance(s, ast.Assign) and norm(s.targets[0]) == "self.heads"]
    def _ctor_arg(e):
        """`self.x` reads as the constructor parameter it was bound to (self.x = x, once)."""
        if isinstance(e, ast.Attribute) and norm(e.value) == "self":
            st_ = [s_ for s_ in walk_function(init.node) if isinstance(s_, ast.Assign) and any(norm(t_) == norm(e) for t_ in s_.targets)]
            if len(st_) == 1 and isinstance(st_[0].value, ast.Name) and st_[0].value.id in init.params:
                return st_[0].value.id
        return norm(e) if e is not None else None
    gh = prog.func("sleap_nn.architectures.model:get_head")
    okh = len(hs) == 1 and isinstance(hs[0].value, ast.Call) and prog.resolve_call(init, hs[0].value) == gh.qualname
    if okh:
        bd = astq.bind_args(gh, hs[0].value)
        okh = [_ctor_arg(bd.get(p_)) for p_ in gh.pos_params[:2]] == ["model_type", "head_configs"]
    res.ob(R, okh, init.qualname, "heads come from get_head(model_type, head_configs)",
           "self.heads is not get_head(model_type, self.head_configs)", init.where)
    res.floor(R, 14)


def check_chan(prog: Program, res: Result) -> None:
    R = "C14-chan"
    H = "sleap_nn.architectures.heads"
    want = {
        "SingleInstanceConfmapsHead": "len(self.part_names)",
        "CenteredInstanceConfmapsHead": "len(self.part_names)",
        "MultiInstanceConfmapsHead": "len(self.part_names)",
        "CentroidConfmapsHead": "1",
        "PartAffinityFieldsHead": "int(len(self.edges) * 2)",
    }
    alt = {"PartAffinityFieldsHead": {"int(len(self.edges) * 2)", "len(self.edges) * 2", "2 * len(self.edges)", "int(2 * len(self.edges))"}}
    for cls, expr in want.items():
        ci = prog.cls(f"{H}:{cls}")
        ch = ci.methods.get("channels")
        rets = [n for n in walk_function(ch.node) if isinstance(n, ast.Return)] if ch is not None else []
        got = norm(rets[0].value) if len(rets) == 1 and rets[0].value is not None else None
        res.ob(R, got in alt.get(cls, {expr}), ci.qualname, f"channels == {expr}",
               f"{cls}.channels returns `{got}` instead of {expr}: the head's channel count no longer matches the targets the data pipeline produces",
               f"{ci.module.relpath}:{ch.node.lineno if ch else ci.node.lineno}", sample={"head": cls, "channels": got})
        res.ob(R, "make_head" not in ci.methods, ci.qualname, "uses the shared make_head", f"{cls} overrides make_head", f"{ci.module.relpath}:{ci.node.lineno}")
    mh = prog.cls(f"{H}:Head").methods.get("make_head")
    res.touch(mh)
    convs = [c for c in walk_function(mh.node) if isinstance(c, ast.Call) and norm(c.func) == "nn.Conv2d"]
    ok = len(convs) == 1
    if ok:
        kw = {k.arg: norm(k.value) for k in convs[0].keywords}
        ok = kw.get("out_channels") == "self.channels" and kw.get("in_channels") == "x_in" and kw.get("kernel_size") == "1" and kw.get("stride") == "1" \
            and kw.get("padding") == "'same'"
    res.ob(R, ok, mh.qualname, "1x1 stride-1 same-padded conv with out_channels=self.channels",
           "make_head is no longer a 1x1, stride 1, 'same' convolution producing self.channels channels (output shape contract)", mh.where)
    # head names used as output keys
    gh = prog.func("sleap_nn.architectures.model:get_head")
    res.touch(gh)
    built: Dict[str, List[str]] = {}
    for n in walk_function(gh.node):
        if isinstance(n, ast.If) and isinstance(n.test, ast.Compare) and isinstance(n.test.comparators[0], ast.Constant):
            key = n.test.comparators[0].value
            built[key] = [norm(c.args[0].func) for s in n.body for c in ast.walk(s) if isinstance(c, ast.Call) and isinstance(c.func, ast.Attribute)
                          and c.func.attr == "append" and c.args and isinstance(c.args[0], ast.Call)]
    wantb = {"single_instance": ["SingleInstanceConfmapsHead"], "centered_instance": ["CenteredInstanceConfmapsHead"], "centroid": ["CentroidConfmapsHead"],
             "bottomup": ["MultiInstanceConfmapsHead", "PartAffinityFieldsHead"]}
    for k, v in wantb.items():
        res.ob(R, built.get(k) == v, gh.qualname, f"model type {k} builds {v}", f"get_head('{k}') builds {built.get(k)}", gh.where)
    name = prog.cls(f"{H}:Head").methods.get("name")
    rets = [n for n in walk_function(name.node) if isinstance(n, ast.Return)] if name else []
    res.ob(R, len(rets) == 1 and norm(rets[0].value) == "type(self).__name__", f"{H}:Head.name", "head name is its class name", "Head.name is not the class name", name.where if name else "")
    keys_used = set()
    for q in ("sleap_nn.inference.bottomup:BottomUpInferenceModel.forward",):
        f = prog.func(q)
        res.touch(f)
        for n in walk_function(f.node):
            if isinstance(n, ast.Subscript) and norm(n.value) == "output" and isinstance(n.slice, ast.Constant):
                keys_used.add(n.slice.value)
    res.ob(R, keys_used == set(wantb["bottomup"]), "sleap_nn.inference.bottomup:BottomUpInferenceModel.forward", "output keys are the bottom-up head names",
           f"the bottom-up decoder reads output keys {sorted(keys_used)}; the model provides {wantb['bottomup']}", "")
    res.floor(R, 16)


def check_width(prog: Program, res: Result) -> None:
    """Input width of the head convolutions.  Encoder/decoder widths are DEFINED as int(filters * rate**k) (a product);
    Model.__init__ recovers the decoder's last width by the inverse quotient max_channels / rate**n, which in floating
    point lands just below the integer for non-integral rates (1.5**n): it has to be rounded, never truncated, or the
    1x1 head convolution expects one channel fewer than the decoder delivers (the forward pass raises)."""
    R = "C14-width"
    fi = prog.cls("sleap_nn.architectures.model:Model").methods["__init__"]
    res.touch(fi)
    ints = [c for c in walk_function(fi.node) if isinstance(c, ast.Call) and isinstance(c.func, ast.Name) and c.func.id == "int" and len(c.args) == 1]
    n_quot = 0
    for c in walk_function(fi.node):
        if isinstance(c, ast.BinOp) and isinstance(c.op, (ast.Div, ast.FloorDiv)) and any(isinstance(x, ast.BinOp) and isinstance(x.op, ast.Pow) for x in ast.walk(c.right)):
            n_quot += 1
            # the nearest enclosing conversion
            conv = None
            for a in ancestors(c):
                if isinstance(a, ast.Call) and isinstance(a.func, ast.Name) and a.func.id in ("int", "round"):
                    conv = a.func.id
                    break
                if isinstance(a, ast.Call) and norm(a.func) in ("math.floor", "math.ceil", "np.floor", "np.ceil", "math.trunc"):
                    conv = norm(a.func)
                    break
                if isinstance(a, ast.stmt):
                    break
            if conv is None:
                # quotient bound to a name: how is the name converted?
                st = astq_stmt(c)
                names = astq.target_names(st.targets[0]) if isinstance(st, ast.Assign) else set()
                uses = [i for i in ints if isinstance(i.args[0], ast.Name) and i.args[0].id in names]
                rounds = [r for r in walk_function(fi.node) if isinstance(r, ast.Call) and isinstance(r.func, ast.Name) and r.func.id == "round" and r.args
                          and isinstance(r.args[0], ast.Name) and r.args[0].id in names]
                conv = "round" if rounds and not uses else ("int" if uses else None)
            ok = conv == "round" and not isinstance(c.op, ast.FloorDiv)
            res.ob(R, ok, fi.qualname, f"inverse width quotient is rounded: {short(c, 50)}",
                   f"`{short(c, 60)}` is converted with {conv or 'no rounding'}: for a non-integral filters_rate the quotient is a hair below the decoder's "
                   "integer width and truncation makes the head convolution one channel too narrow", f"{fi.module.relpath}:{c.lineno}")
    res.ob(R, n_quot >= 1, fi.qualname, "head input width is derived from the backbone width", "no inverse width computation found in Model.__init__", fi.where)
    mk = [c for c in astq.method_calls(fi.node, "make_head")]
    # the names that carry the derived width: bound from the quotient, or from a name that carries it
    def _has_quot(e):
        return any(isinstance(x, ast.BinOp) and isinstance(x.op, (ast.Div, ast.FloorDiv)) and any(isinstance(y, ast.BinOp) and isinstance(y.op, ast.Pow) for y in ast.walk(x.right))
                   for x in ast.walk(e))
    derived: Set[str] = set()
    grew = True
    while grew:
        grew = False
        for st_ in walk_function(fi.node):
            if isinstance(st_, (ast.Assign, ast.AnnAssign, ast.AugAssign)) and getattr(st_, "value", None) is not None \
                    and (_has_quot(st_.value) or astq.names_in(st_.value) & derived):
                new_ = {t for tg in astq.stmt_targets(st_) if isinstance(tg, (ast.Name, ast.Tuple, ast.List)) for t in astq.target_names(tg)} - derived
                if new_:
                    derived |= new_
                    grew = True
    for c in mk:
        v = astq.call_arg(c, 0, "x_in")
        res.ob(R, v is not None and (bool(astq.names_in(v) & derived) or _has_quot(v)), fi.qualname, "make_head receives the derived width",
               f"`{short(c, 50)}` does not receive the derived input width", f"{fi.module.relpath}:{c.lineno}")
    res.floor(R, 3)


def check_closed_form(prog: Program, res: Result) -> None:
    """Encoder, decoder, middle block and Model all assume the width of level d is the CLOSED FORM int(filters * rate**d).
    Inside the block-building loops the width handed to a block (`filters=`) is therefore a function of the loop index
    and the constructor arguments only: a width computed from the previous iteration's width (int(prev * rate))
    truncates once per level, and for a fractional rate drifts away from what the other components compute."""
    R = "C14-width"
    n = 0
    for q in ("sleap_nn.architectures.encoder_decoder:Encoder", "sleap_nn.architectures.encoder_decoder:Decoder"):
        fi = prog.cls(q).methods["__init__"]
        res.touch(fi)
        for lp in walk_function(fi.node):
            if not isinstance(lp, ast.For):
                continue
            bound = {t for st in ast.walk(lp) if isinstance(st, (ast.Assign, ast.AugAssign, ast.AnnAssign)) for tg in astq.stmt_targets(st) for t in astq.target_names(tg)}
            lv = astq.target_names(lp.target)
            for c in ast.walk(lp):
                if not isinstance(c, ast.Call):
                    continue
                for k in c.keywords:
                    if k.arg not in ("filters", "refine_convs_filters", "transpose_convs_filters"):
                        continue
                    kv = k.value
                    v = astq.expand_phi(fi.node, astq.expand_at(fi.node, kv, astq_stmt(c), keep=sorted(lv)), keep=sorted(lv))
                    v = astq.expand_at(fi.node, v, astq_stmt(c), keep=sorted(lv))
                    from ..core.program import set_parents
                    set_parents(v)
                    # a width copied from the previous level is still that level's closed form; ARITHMETIC on a carried width is not
                    carried = sorted({x.id for x in ast.walk(v) if isinstance(x, ast.Name) and x.id in bound and x.id not in lv
                                      and any(isinstance(a_, ast.BinOp) for a_ in ancestors(x))})
                    n += 1
                    res.ob(R, not carried, fi.qualname, f"{norm(c.func)}({k.arg}={short(kv, 25)}) is a closed form of the block index",
                           f"the width `{short(v, 70)}` of `{norm(c.func)}` reads {carried}, which the loop itself re-binds: the width of a level is computed from the previous "
                           "level's (truncated) width instead of int(filters * rate**level), and drifts from what the decoder / middle block / Model assume",
                           f"{fi.module.relpath}:{c.lineno}")
    res.ob(R, n >= 4, "sleap_nn.architectures.encoder_decoder", "block widths found", f"only {n} block constructions with a filters= argument found in the encoder/decoder loops", "")


def check_unet_stride(prog: Program, res: Result) -> None:
    """The stride UNet hands its decoder is the total pooling of the encoder it just built - stem blocks included.  The
    decoder labels its outputs from it (current_strides) and Model picks each head's feature map by that label, so the
    value has to vary with the stem: it is computed from the encoder's own stack (pooling strides) or from an expression
    that mentions the stem blocks."""
    R = "C14-chain"
    fi = prog.cls("sleap_nn.architectures.unet:UNet").methods["__init__"]
    res.touch(fi)
    decs = [c for c in walk_function(fi.node) if isinstance(c, ast.Call) and prog.resolve_call(fi, c) == "sleap_nn.architectures.encoder_decoder:Decoder"]
    res.ob(R, len(decs) == 1, fi.qualname, "one Decoder", f"{len(decs)} Decoder constructions", fi.where)
    for c in decs:
        cs = next((k.value for k in c.keywords if k.arg == "current_stride"), None)
        e = astq.expand_at(fi.node, cs, astq_stmt(c)) if cs is not None else None
        sts = []
        if isinstance(e, ast.Attribute) and norm(e.value) == "self":   # self.current_stride = <expr>
            sts = [s_ for s_ in walk_function(fi.node) if isinstance(s_, ast.Assign) and norm(s_.targets[0]) == norm(e)]
            e = astq.expand_at(fi.node, sts[0].value, sts[0]) if len(sts) == 1 else e
        txt = norm(e) if e is not None else ""
        # a list filled in a loop (strides = []; for block in <stack>: strides.append(...)) depends on what the loop iterates
        loop_iters = []
        seen_ = set()
        todo_ = ([cs] if cs is not None else []) + ([sts[0].value] if sts else [])
        while todo_:
            x_ = todo_.pop()
            for nm_ in astq.names_in(x_) - seen_:
                seen_.add(nm_)
                for b_ in astq.list_builds(fi.node, nm_):
                    loop_iters += [g_.iter for g_ in b_.gens]
                for d_ in astq.assignments_to(fi.node, nm_):
                    if getattr(d_, "value", None) is not None:
                        todo_.append(d_.value)
        txt += " " + " ".join(norm(i_) for i_ in loop_iters)
        ok = "self.enc" in txt or "stem_blocks" in txt or "stem_stride" in txt
        # ... and when it is read off the encoder's stack, it is read off the WHOLE stack (a slice that starts after the stem
        # measures the stride relative to the stem output, not to the image)
        def _partial(it):   # a slice / index / islice / filter of the stack (list(...), tuple(...), [:] keep it whole)
            for x in ast.walk(it):
                if isinstance(x, ast.Subscript) and "encoder_stack" in norm(x.value):
                    sl = x.slice
                    if not (isinstance(sl, ast.Slice) and sl.lower is None and sl.upper is None and sl.step is None):
                        return True
                if isinstance(x, ast.Call) and norm(x.func).split(".")[-1] in ("islice", "filter") and "encoder_stack" in norm(x):
                    return True
            return False
        part = [g for g in (ast.walk(e) if e is not None else []) if isinstance(g, ast.comprehension) and "encoder_stack" in norm(g.iter) and _partial(g.iter)]
        part += [ast.comprehension(target=ast.Name(id="_", ctx=ast.Store()), iter=i_, ifs=[], is_async=0) for i_ in loop_iters if "encoder_stack" in norm(i_) and _partial(i_)]
        res.ob(R, not part, fi.qualname, "the pooling strides of the whole encoder stack are multiplied",
               f"the decoder's start stride is computed over `{short(part[0].iter, 50) if part else ''}`, a part of the encoder stack: blocks left out (the stem) still pool, so the "
               "stride labels are too small and Model selects the wrong feature map for each head", f"{fi.module.relpath}:{c.lineno}")
        res.ob(R, ok, fi.qualname, "decoder start stride = total pooling of the encoder (stem included)",
               f"Decoder(current_stride=`{short(e, 70) if e is not None else '?'}`) does not depend on the encoder stack or the stem blocks: with a stem the decoder's stride labels "
               "are too small by the stem stride and Model selects the wrong feature map for each head", f"{fi.module.relpath}:{c.lineno}")


def _perm_of(fi_cls, e: ast.AST, var: str):
    """Permutation (list) that expression `e` applies to the 4-D tensor `var`, through .permute / Permute modules /
    .transpose / .contiguous; None if something else happens to it."""
    perm = [0, 1, 2, 3]
    chain = []
    cur = e
    while True:
        if isinstance(cur, ast.Name) and cur.id == var:
            break
        if isinstance(cur, ast.IfExp):
            # both arms must carry the same layout
            pa, pb = _perm_of(fi_cls, cur.body, var), _perm_of(fi_cls, cur.orelse, var)
            if pa is None or pa != pb:
                return None
            perm = pa
            break
        if isinstance(cur, ast.Call) and isinstance(cur.func, ast.Attribute):
            f = cur.func
            if isinstance(f.value, ast.Name) and f.value.id == "self" and len(cur.args) == 1 and "norm" in f.attr.lower():
                cur = cur.args[0]     # a normalisation layer keeps the layout
                continue
            if f.attr in ("contiguous", "clone", "float") and not cur.args:
                cur = f.value
                continue
            if f.attr == "permute" and not (isinstance(f.value, ast.Name) and f.value.id == "self"):
                a = cur.args[0].elts if len(cur.args) == 1 and isinstance(cur.args[0], (ast.Tuple, ast.List)) else cur.args
                chain.append(("perm", [astq.const_value(x) for x in a]))
                cur = f.value
                continue
            if f.attr in ("transpose", "swapaxes") and len(cur.args) == 2:
                chain.append(("swap", [astq.const_value(x) for x in cur.args]))
                cur = f.value
                continue
            if isinstance(f.value, ast.Name) and f.value.id == "self" and len(cur.args) == 1:
                # self.<attr>(x) where <attr> = Permute([...]) in __init__
                init = fi_cls.methods.get("__init__")
                defs = [s_ for s_ in walk_function(init.node) if isinstance(s_, ast.Assign) and norm(s_.targets[0]) == f"self.{f.attr}"] if init else []
                if len(defs) == 1 and isinstance(defs[0].value, ast.Call) and norm(defs[0].value.func).split(".")[-1] == "Permute" and defs[0].value.args:
                    try:
                        chain.append(("perm", list(ast.literal_eval(defs[0].value.args[0]))))
                    except Exception:
                        return None
                    cur = cur.args[0]
                    continue
        return None
    for kind, a in reversed(chain):
        if any(not isinstance(x, int) for x in a):
            return None
        a = [x % 4 for x in a]
        if kind == "perm":
            if sorted(a) != [0, 1, 2, 3]:
                return None
            perm = [perm[i] for i in a]
        else:
            q = [0, 1, 2, 3]
            q[a[0]], q[a[1]] = q[a[1]], q[a[0]]
            perm = [perm[i] for i in q]
    return perm


def check_layout(prog: Program, res: Result) -> None:
    """Swin-T stages work channels-last: the stem permutes (B,C,H,W) -> (B,H,W,C); every feature map handed to the
    decoder must undo exactly that permutation, otherwise height and width (or channels) are exchanged and the output
    is (parts, W/stride, H/stride) for non-square inputs."""
    R = "C14-layout"
    ci = prog.cls("sleap_nn.architectures.swint:SwinTransformerEncoder")
    init, fwd = ci.methods.get("__init__"), ci.methods.get("forward")
    if init is None or fwd is None:
        raise AnalysisError("SwinTransformerEncoder.__init__/forward vanished")
    res.touch(init)
    res.touch(fwd)
    stem = [c for c in walk_function(init.node) if isinstance(c, ast.Call) and norm(c.func).split(".")[-1] == "Permute" and c.args
            and any(isinstance(a, ast.Call) and norm(a.func).endswith("Sequential") for a in ancestors(c))]
    res.ob(R, len(stem) == 1, init.qualname, "one layout permutation in the patch-embedding stem", f"{len(stem)} Permute modules in the stem", init.where)
    if len(stem) != 1:
        return
    try:
        p = list(ast.literal_eval(stem[0].args[0]))
    except Exception:
        raise AnalysisError("SwinTransformerEncoder: stem Permute argument is not a literal")
    apps = [c for c in astq.method_calls(fwd.node, "append") if c.args]
    res.ob(R, len(apps) >= 1, fwd.qualname, "feature maps are collected", "no feature map is appended in forward", fwd.where)
    xparam = fwd.pos_params[1] if len(fwd.pos_params) > 1 else "x"
    for c in apps:
        q = _perm_of(ci, astq.expand_at(fwd.node, c.args[0], enclosing_stmt(c), depth=2, keep=[xparam]), xparam)
        if q is None:
            raise AnalysisError(f"{fwd.qualname}: layout conversion `{short(c.args[0], 50)}` not recognised")
        comp = [p[i] for i in q]
        res.ob(R, comp == [0, 1, 2, 3], fwd.qualname, f"output layout undoes the stem permutation {p}: {short(c.args[0], 40)}",
               f"`{short(c.args[0], 50)}` permutes the stage output by {q}; after the stem's {p} the result has axes {comp} of (B, C, H, W): "
               "height/width (or channels) are exchanged, so a non-square input gives a transposed output", f"{fwd.module.relpath}:{c.lineno}", sample={"stem": p, "out": q})
    res.floor(R, 2)


def check_chain(prog: Program, res: Result) -> None:
    """Channel bookkeeping of the encoder/decoder construction.
    (conv)  every DEFINING width int(filters * filters_rate**k) in unet.py / encoder_decoder.py uses the same conversion
            (plain int truncation); a site that rounds instead disagrees by one channel with its neighbour whenever the
            product has a fractional part >= .5 (non-integral filters_rate).
    (prev)  in the Encoder's block loops the in_channels of block k is the filters of block k-1: the value used for
            k > 0 is a variable that still holds the PREVIOUS iteration's width when the block is built.
    (min)   Model.__init__ measures head positions from the finest decoder level: min over the head strides AND the
            backbone's own output_stride."""
    R = "C14-chain"
    n_conv = 0
    conv_fns = set()
    for mod in ("sleap_nn.architectures.encoder_decoder", "sleap_nn.architectures.unet"):
        for fi in prog.all_functions():
            if fi.module.name != mod:
                continue
            for c in walk_function(fi.node):
                if not (isinstance(c, ast.Call) and isinstance(c.func, ast.Name) and c.func.id in ("int", "round") and len(c.args) >= 1):
                    continue
                par = getattr(c, "_parent", None)
                if isinstance(par, ast.Call) and isinstance(par.func, ast.Name) and par.func.id in ("int", "round"):
                    continue  # inner call of int(round(...)): judged at the outer one
                inner = c.args[0]
                kinds = [c.func.id]
                while isinstance(inner, ast.Call) and isinstance(inner.func, ast.Name) and inner.func.id in ("int", "round") and inner.args:
                    kinds.append(inner.func.id)
                    inner = inner.args[0]
                # a width derived from ANOTHER (already truncated) width - int(prev_filters * filters_rate) - differs from the closed
                # form int(filters * filters_rate**k) its neighbours use whenever the product has a fractional part
                if isinstance(inner, ast.BinOp) and isinstance(inner.op, (ast.Mult, ast.Div)):
                    sides = [inner.left, inner.right]
                    rate = [x for x in sides if "filters_rate" in norm(x) and not any(isinstance(y, ast.BinOp) and isinstance(y.op, ast.Pow) for y in ast.walk(x))]
                    other = [x for x in sides if x not in rate]
                    if len(rate) == 1 and len(other) == 1 and isinstance(other[0], (ast.Name, ast.Attribute)) and "filters" in norm(other[0]) \
                            and norm(other[0]) not in ("filters", "self.filters") and "rate" not in norm(other[0]):
                        res.touch(fi)
                        res.ob(R, False, fi.qualname, f"width in closed form: {short(c, 50)}",
                               f"`{short(c, 70)}` derives a width from the truncated width `{norm(other[0])}`: for a non-integral filters_rate it differs by one channel from the closed "
                               "form int(filters * filters_rate**k) that the connected layer uses, and the forward pass raises", f"{fi.module.relpath}:{c.lineno}")
                is_width = isinstance(inner, ast.BinOp) and isinstance(inner.op, ast.Mult) and any(isinstance(x, ast.BinOp) and isinstance(x.op, ast.Pow) and "filters_rate" in norm(x.left) for x in ast.walk(inner)) \
                    and "filters" in norm(inner.left if not isinstance(inner.left, ast.BinOp) else inner.right)
                if not is_width:
                    continue
                n_conv += 1
                conv_fns.add(fi.qualname)
                res.touch(fi)
                res.ob(R, kinds == ["int"], fi.qualname, f"width by truncation: {short(c, 50)}",
                       f"`{short(c, 70)}` converts the width with {'('.join(kinds)}(...) while the other layers truncate with int(...): for a non-integral filters_rate the two "
                       "sides of a connection disagree by one channel and the forward pass raises", f"{fi.module.relpath}:{c.lineno}")
    # vacuity guard only: the number of sites changes when equal computations are hoisted or shared (10 on the pinned tree)
    res.ob(R, n_conv >= 3 and len(conv_fns) >= 2, "sleap_nn.architectures", "width computations found", f"only {n_conv} width computations in {len(conv_fns)} functions found", "")
    # (prev)
    enc = prog.cls("sleap_nn.architectures.encoder_decoder:Encoder").methods["__init__"]
    res.touch(enc)
    n_prev = 0
    for lp in [n for n in walk_function(enc.node) if isinstance(n, ast.For)]:
        for c in ast.walk(lp):
            if not isinstance(c, ast.Call):
                continue
            kw = {k.arg: k.value for k in c.keywords}
            if "in_channels" not in kw or "filters" not in kw or not isinstance(kw["filters"], ast.Name):
                continue
            F = kw["filters"].id
            ic = kw["in_channels"]
            ic_st = astq_stmt(c)
            if isinstance(ic, ast.Name):
                # a named input width, computed in the loop body before the block is built
                nd = [s_ for s_ in lp.body if isinstance(s_, ast.Assign) and norm(s_.targets[0]) == ic.id]
                if len(nd) == 1 and nd[0].lineno > ic_st.lineno:
                    # a running variable: set to the input width before the first loop, handed this block's width AFTER the
                    # block is built (V = F), read by the next block
                    V = ic.id
                    fdefs = [s_ for s_ in lp.body if isinstance(s_, ast.Assign) and norm(s_.targets[0]) == F]
                    outer = [s_ for s_ in astq.assignments_to(enc.node, V) if not astq.enclosing_loops(s_) and s_.lineno < lp.lineno]
                    n_prev += 1
                    ok = norm(nd[0].value) == F and len(fdefs) == 1 and fdefs[0].lineno < ic_st.lineno and bool(outer)
                    res.ob(R, ok, enc.qualname, f"block k takes the width of block k-1 as in_channels: running `{V}`",
                           f"`in_channels={V}`: `{V}` is not handed this block's width `{F}` after the block is built (and initialised before the loops): for k > 0 the "
                           "convolution expects channels the previous block does not deliver", f"{enc.module.relpath}:{c.lineno}")
                    continue
                if len(nd) == 1:
                    ic, ic_st = nd[0].value, nd[0]
                    if isinstance(ic, ast.Name) and ic.id == F:
                        n_prev += 1
                        res.ob(R, False, enc.qualname, "block k takes the width of block k-1 as in_channels",
                               f"`in_channels={norm(kw['in_channels'])}` is set to `{F}`, this block's OWN width, before the block is built: for k > 0 the convolution expects "
                               "channels the previous block does not deliver", f"{enc.module.relpath}:{c.lineno}")
                        continue
            if not isinstance(ic, ast.IfExp):
                continue
            n_prev += 1
            E = ic.orelse
            st = astq_stmt(c)
            ok = isinstance(E, ast.Name) and E.id != F
            if isinstance(E, ast.Name) and E.id == F:
                # the expression reads F BEFORE this iteration re-computes it: it still holds the previous block's width
                fdefs = [s_ for s_ in lp.body if isinstance(s_, ast.Assign) and norm(s_.targets[0]) == F]
                ok = len(fdefs) == 1 and ic_st.lineno < fdefs[0].lineno and fdefs[0].lineno < st.lineno
            elif ok:
                fdefs = [s_ for s_ in lp.body if isinstance(s_, ast.Assign) and norm(s_.targets[0]) == F]
                edefs = [s_ for s_ in lp.body if isinstance(s_, ast.Assign) and norm(s_.targets[0]) == E.id]
                ok = len(fdefs) == 1 and len(edefs) == 1
                if ok:
                    ev = edefs[0].value
                    last = ev.orelse if isinstance(ev, ast.IfExp) else ev
                    before_f = edefs[0].lineno < fdefs[0].lineno and norm(last) == F
                    after_block = edefs[0].lineno > st.lineno and norm(ev) == F
                    ok = before_f or after_block
            res.ob(R, ok, enc.qualname, f"block k takes the width of block k-1 as in_channels: {short(ic, 50)}",
                   f"`in_channels={short(ic, 60)}`: for k > 0 this is not the previous block's width (`{F}` is already this block's own width): the convolution expects "
                   "channels the previous block does not deliver", f"{enc.module.relpath}:{c.lineno}")
    res.ob(R, n_prev >= 2, enc.qualname, "stem and down-block loops chain their widths", f"only {n_prev} chained block constructions found", enc.where)
    # (min)
    mi = prog.cls("sleap_nn.architectures.model:Model").methods["__init__"]
    uses = [c for c in walk_function(mi.node) if isinstance(c, ast.Call) and isinstance(c.func, ast.Attribute) and c.func.attr == "index" and c.args and "min" in norm(c.args[0])]
    res.ob(R, len(uses) >= 1, mi.qualname, "head positions are measured from the minimum stride", "no strides.index(min stride) found", mi.where)
    for c in uses[:1]:
        x = astq.norm(astq.expand_at(mi.node, c.args[0], astq_stmt(c)))
        dep_heads = astq.dep_closure(list(mi.node.body), {"head_configs"})
        ok = x.startswith("min(") and "backbone_config.output_stride" in x and bool(astq.names_in(c.args[0]) & dep_heads)
        res.ob(R, ok, mi.qualname, "minimum over the head strides and the backbone's output stride",
               f"the reference stride is `{x[:100]}`: the backbone's own output_stride is not taken into account, so when the decoder goes finer than every head the head "
               "convolutions are sized for the wrong decoder level", f"{mi.module.relpath}:{c.lineno}")
    res.floor(R, 12)


def check_pool_window(prog: Program, res: Result) -> None:
    """MaxPool2dWithSamePadding.forward computes its 'same' padding only on the FIRST call of a module instance (it then
    overwrites self.padding with 0).  That state is harmless exactly when the padding is 0 anyway: for inputs whose sides
    are multiples of the stride this holds iff the pooling window does not exceed the stride (kernel_size <= stride).  So, as
    long as forward keeps that write, every construction site in sleap_nn.architectures must pass kernel_size <= stride
    (both resolved to constants; a stride that is a constructor parameter is resolved over its default and all call sites).
    An overlapping window (kernel 3, stride 2) gives the right shape on the first forward and a size mismatch in the skip
    concatenation on every later one: the output depends on earlier calls."""
    R = "C14-pool"
    ci = prog.cls("sleap_nn.architectures.common:MaxPool2dWithSamePadding")
    fwd = ci.methods.get("forward")
    if fwd is None:
        raise AnalysisError("MaxPool2dWithSamePadding.forward vanished")
    res.touch(fwd)
    writes = sorted({norm(t) for st in walk_function(fwd.node) if isinstance(st, (ast.Assign, ast.AugAssign, ast.AnnAssign)) for t in astq.stmt_targets(st)
                     if isinstance(t, ast.Attribute) and norm(t.value) == "self"})
    res.ob(R, writes in ([], ["self.padding"]), fwd.qualname, "forward writes at most self.padding", f"MaxPool2dWithSamePadding.forward writes {writes}: the result of a call depends on earlier calls", fwd.where)
    if writes != ["self.padding"]:
        return   # stateless pooling: any window is fine

    def const_int(e, fi, at):
        x = astq.expand_at(fi.node, e, at) if e is not None else None
        v = astq.const_value(x) if x is not None else ...
        return v if isinstance(v, int) and not isinstance(v, bool) else None

    def param_values(fi, name):
        """all constants a constructor parameter can take: its default and the argument at every call site of the class"""
        owner = fi.cls
        if owner is None or fi.name != "__init__" or name not in fi.params:
            return None
        vals = []
        d = fi.param_defaults().get(name)
        if d is not None:
            v = astq.const_value(d)
            if not (isinstance(v, int) and not isinstance(v, bool)):
                return None
            vals.append(v)
        for g in prog.all_functions():
            if not g.module.name.startswith("sleap_nn."):
                continue
            for c in walk_function(g.node):
                if isinstance(c, ast.Call) and norm(c.func).split(".")[-1] == owner.name:
                    a = astq.bind_args(fi, c, skip_self=True).get(name)
                    if a is None:
                        continue
                    v = const_int(a, g, enclosing_stmt(c))
                    if v is None:
                        return None
                    vals.append(v)
        return vals or None

    n = 0
    for fi in prog.all_functions():
        if not fi.module.name.startswith("sleap_nn.architectures"):
            continue
        for c in walk_function(fi.node):
            if not (isinstance(c, ast.Call) and norm(c.func).split(".")[-1] == "MaxPool2dWithSamePadding"):
                continue
            n += 1
            res.touch(fi)
            at = enclosing_stmt(c)
            k_e, s_e = astq.call_arg(c, 0, "kernel_size"), astq.call_arg(c, 1, "stride")
            k = const_int(k_e, fi, at)
            s_vals = None
            if s_e is None:
                s_vals = [k] if k is not None else None       # nn.MaxPool2d: stride defaults to kernel_size
            else:
                sv = const_int(s_e, fi, at)
                if sv is not None:
                    s_vals = [sv]
                else:
                    sx = astq.expand_at(fi.node, s_e, at)
                    s_vals = param_values(fi, sx.id) if isinstance(sx, ast.Name) else None
            ok = k is not None and s_vals is not None and all(k <= v for v in s_vals)
            res.ob(R, ok, fi.qualname, f"pooling window {k} <= stride {sorted(set(s_vals)) if s_vals else '?'}",
                   f"`{short(c, 70)}` builds a pooling layer whose window (`{short(k_e, 20) if k_e is not None else '?'}`) is not provably <= its stride "
                   f"(`{short(s_e, 20) if s_e is not None else 'default'}`): its 'same' padding is non-zero, but MaxPool2dWithSamePadding.forward only applies it on the first call "
                   "(self.padding = 0 afterwards), so the second forward of the same model returns a different spatial size", f"{fi.module.relpath}:{c.lineno}")
    res.floor(R, 3)


def check(prog: Program, res: Result) -> None:
    check_state(prog, res)
    check_pair(prog, res)
    check_sel(prog, res)
    check_chan(prog, res)
    check_width(prog, res)
    check_closed_form(prog, res)
    check_unet_stride(prog, res)
    check_layout(prog, res)
    check_chain(prog, res)
    check_pool_window(prog, res)
    res.assumptions.append("spatial shape arithmetic over the configuration grid (Conv2d/Upsample/PatchMerging size rules) is not decided")


E = "sleap_nn/architectures/encoder_decoder.py"
M = "sleap_nn/architectures/model.py"
VARIANTS = [
    Variant("state-cache", "sleap_nn/architectures/unet.py", "        x, features = self.enc(x)\n        x = self.dec(x, features)\n        return x",
            "        if getattr(self, \"_last\", None) is not None and self._last[0].shape == x.shape:\n            x = 0.5 * (x + self._last[0])\n        self._last = (x,)\n        x, features = self.enc(x)\n        x = self.dec(x, features)\n        return x", "C14-state"),
    Variant("state-counter", "sleap_nn/inference/topdown.py", "        # Network forward pass.\n        orig_image = inputs[\"image\"]", "        self.n_calls = getattr(self, \"n_calls\", 0)\n        self.n_calls += 1\n        # Network forward pass.\n        orig_image = inputs[\"image\"]", None),
    Variant("state-peaks-stale", "sleap_nn/inference/topdown.py", "        if num_instances:\n            max_instances = max(num_instances.values()) if num_instances else None",
            "        if num_instances or self.refined_peaks_batched:\n            max_instances = max(num_instances.values()) if num_instances else None", "C14-state"),
    Variant("state-append", "sleap_nn/inference/single_instance.py", "        inputs.update(outputs)\n        return [inputs]", "        self.history.append(outputs)\n        inputs.update(outputs)\n        return [inputs]", "C14-state"),
    Variant("pair-missing", E, "            self.current_strides.append(current_stride)\n            current_stride = next_stride\n            block += 1", "            current_stride = next_stride\n            block += 1", "C14-pair"),
    Variant("pair-after-update", E, "            self.current_strides.append(current_stride)\n            current_stride = next_stride\n            self.residuals += 1",
            "            current_stride = next_stride\n            self.current_strides.append(current_stride)\n            self.residuals += 1", "C14-pair"),
    Variant("sel-min-stride", M, "            idx = backbone_outputs[\"strides\"].index(head.output_stride)", "            idx = len(backbone_outputs[\"strides\"]) - 1", "C14-sel"),
    Variant("sel-reversed-layers", M, "        for head, head_layer in zip(self.heads, self.head_layers):", "        for head, head_layer in zip(self.heads, reversed(self.head_layers)):", "C14-sel"),
    Variant("chan-edges", "sleap_nn/architectures/heads.py", "        return int(len(self.edges) * 2)", "        return int(len(self.edges))", "C14-chan"),
    Variant("chan-3x3", "sleap_nn/architectures/heads.py", "                out_channels=self.channels,\n                kernel_size=1,\n                stride=1,\n                padding=\"same\",\n            ),\n            get_act_fn(self.activation),\n        )\n\n\nclass SingleInstanceConfmapsHead",
            "                out_channels=self.channels,\n                kernel_size=1,\n                stride=2,\n                padding=0,\n            ),\n            get_act_fn(self.activation),\n        )\n\n\nclass SingleInstanceConfmapsHead", "C14-chan"),
    Variant("width-truncated", M, "            in_channels = int(\n                round(\n                    self.backbone.max_channels\n                    / (\n                        self.backbone_config.filters_rate\n                        ** len(self.backbone.dec.decoder_stack)\n                    )\n                )\n            )",
            "            in_channels = int(\n                    self.backbone.max_channels\n                    / (\n                        self.backbone_config.filters_rate\n                        ** len(self.backbone.dec.decoder_stack)\n                    )\n            )", "C14-width"),
    Variant("bp-width-round-only", M, "            in_channels = int(\n                round(\n                    self.backbone.max_channels\n                    / (\n                        self.backbone_config.filters_rate\n                        ** len(self.backbone.dec.decoder_stack)\n                    )\n                )\n            )",
            "            in_channels = round(\n                    self.backbone.max_channels\n                    / (\n                        self.backbone_config.filters_rate\n                        ** len(self.backbone.dec.decoder_stack)\n                    )\n            )", None),
    Variant("layout-transpose", "sleap_nn/architectures/swint.py", "            features_list.append(self.permute(x))", "            features_list.append(x.transpose(1, 3).contiguous())", "C14-layout"),
    Variant("bp-layout-permute-method", "sleap_nn/architectures/swint.py", "            features_list.append(self.permute(x))", "            features_list.append(x.permute(0, 3, 1, 2).contiguous())", None),
    Variant("bp-layout-two-transposes", "sleap_nn/architectures/swint.py", "            features_list.append(self.permute(x))", "            features_list.append(x.transpose(1, 3).transpose(2, 3))", None),
    Variant("bp-scratch-attr", "sleap_nn/inference/single_instance.py", "        cms = self.torch_model(inputs[\"image\"])\n", "        cms = self.torch_model(inputs[\"image\"])\n        self.last_shape = cms.shape\n", None),
]
