"""C13 — frame readers deliver each frame once, in order, and always end the stream.

Decides the premises P1..P4 of the single-producer/single-consumer bounded-FIFO argument
(DESIGN.md C13) on the control-flow graphs of the two reader threads and of the consumer.
"""

from __future__ import annotations

import ast
from typing import List, Optional, Set

from ..core import astq
from ..core.cfg import CFG
from ..core.program import AnalysisError, FunctionInfo, Program, attr_chain, enclosing_stmt, norm, short, walk_function
from ..report import Result
from ..runner import Variant

PROP = "C13"
EXPLANATION = (
    "Static decision of the premises of the bounded-FIFO argument: on the CFG (with exceptional edges "
    "and duplicated finally bodies) of VideoReader.run and LabelsReader.run every exit is cut by exactly "
    "one end-of-stream put that is outside any loop and after every frame put; each loop iteration that "
    "completes normally passes exactly one frame put whose payload depends on the loop variable of an "
    "increasing range; the buffer is a queue.Queue(maxsize=queue_maxsize) written only by run() and read "
    "only by Predictor._predict_generator, started once and joined on the normal exit; the consumer tests "
    "the marker before any other use of the item, leaves the outer loop on it and still flushes a partial "
    "batch. The conclusion for all interleavings/capacities/batch sizes/fault positions follows from the "
    "FIFO contract of queue.Queue and is not enumerated."
)
TRUSTED = [
    "CPython ast",
    "networkx reachability",
    "queue.Queue is a blocking thread-safe FIFO (library contract)",
    "CFG construction in sa/core/cfg.py (exceptional edge from every statement of a try body)",
]

READERS = ["sleap_nn.data.providers:VideoReader", "sleap_nn.data.providers:LabelsReader"]
CONSUMER = "sleap_nn.inference.predictors:Predictor._predict_generator"


def _is_buffer_call(call: ast.Call, meth: str) -> bool:
    f = call.func
    if not (isinstance(f, ast.Attribute) and f.attr == meth):
        return False
    if isinstance(f.value, ast.Attribute) and f.value.attr == "frame_buffer":
        return True
    if isinstance(f.value, ast.Name):
        # a local alias of the buffer:  buf = self.pipeline.frame_buffer
        fn = call
        while fn is not None and not isinstance(fn, (ast.FunctionDef, ast.AsyncFunctionDef)):
            fn = getattr(fn, "_parent", None)
        if fn is not None:
            b = astq.assignments_to(fn, f.value.id)
            return len(b) == 1 and isinstance(b[0], ast.Assign) and isinstance(b[0].value, ast.Attribute) and b[0].value.attr == "frame_buffer"
    return False


def _payload_dict(fn: ast.AST, arg: ast.AST) -> Optional[ast.Dict]:
    """The dict literal that a put() payload denotes (literal, or a name bound once to a literal)."""
    if isinstance(arg, ast.Dict):
        return arg
    if isinstance(arg, ast.Call) and norm(arg.func) == "dict.fromkeys" and 1 <= len(arg.args) <= 2 and not arg.keywords:
        # dict.fromkeys(KEYS[, v]) with KEYS a literal tuple/list of strings (possibly a module-level constant)
        keys = arg.args[0]
        if isinstance(keys, ast.Name):
            mod = fn
            while mod is not None and not isinstance(mod, ast.Module):
                mod = getattr(mod, "_parent", None)
            keys = astq.module_consts(mod).get(keys.id) if mod is not None and not astq.assignments_to(fn, keys.id) else None
        if isinstance(keys, (ast.Tuple, ast.List)) and all(isinstance(k, ast.Constant) and isinstance(k.value, str) for k in keys.elts):
            v = arg.args[1] if len(arg.args) == 2 else ast.Constant(value=None)
            d = ast.Dict(keys=[k for k in keys.elts], values=[v for _ in keys.elts])
            return ast.copy_location(d, arg)
        return None
    if isinstance(arg, ast.Name):
        defs = [
            st
            for st in astq.assignments_to(fn, arg.id)
            if isinstance(st, ast.Assign) and isinstance(st.value, ast.Dict)
        ]
        all_defs = astq.assignments_to(fn, arg.id)
        if len(defs) == 1 and len(all_defs) == 1:
            return defs[0].value
        if len(all_defs) == 1 and isinstance(all_defs[0], ast.Assign) and isinstance(all_defs[0].value, ast.Call):
            return _payload_dict(fn, all_defs[0].value)      # marker = dict.fromkeys(KEYS)
    return None


def _is_sentinel(fn: ast.AST, call: ast.Call) -> Optional[bool]:
    if not call.args:
        return None
    d = _payload_dict(fn, call.args[0])
    if d is None:
        return None
    img = astq.dict_literal_get(d, "image")
    if img is None:
        return None
    return isinstance(img, ast.Constant) and img.value is None


def check_reader(prog: Program, res: Result, cls_q: str) -> None:
    ci = prog.cls(cls_q)
    if "run" not in ci.methods:
        raise AnalysisError(f"{cls_q}.run vanished")
    fi = ci.methods["run"]
    res.touch(fi)
    fn = fi.node
    cfg = CFG(fn)
    puts = [c for c in astq.method_calls(fn, "put") if _is_buffer_call(c, "put")]
    if not puts:
        raise AnalysisError(f"{fi.qualname}: no frame_buffer.put call found")
    sent, frames = [], []
    for c in puts:
        s = _is_sentinel(fn, c)
        if s is None:
            res.inconclusive(f"{fi.qualname}: payload of {short(c)} is not a dict literal with an 'image' key")
            return
        (sent if s else frames).append(c)

    # every put blocks until there is room: a put that can give up (timeout=, block=False, put_nowait) raises queue.Full on a
    # slow consumer - a frame is lost, or (in the finally block) the marker is never delivered and the consumer waits forever
    for c in puts:
        gives_up = len(c.args) > 1 or any((k.arg == "timeout" and astq.const_value(k.value) is not None) or (k.arg == "block" and astq.const_value(k.value) is not True) for k in c.keywords) or any(k.arg is None for k in c.keywords)
        what = "end-of-stream marker" if c in sent else "frame"
        res.ob("C13-final" if c in sent else "C13-once", not gives_up, fi.qualname, f"the {what} put blocks until delivered: {short(c, 50)}",
               f"`{short(c, 70)}` can give up (timeout / non-blocking put): when the buffer stays full the {what} is dropped with queue.Full"
               + (" and the consumer never sees the end of the stream" if c in sent else ""), f"{fi.module.relpath}:{c.lineno}")
    nowait = [c for c in astq.method_calls(fn, "put_nowait") if _is_buffer_call(c, "put_nowait")]
    res.ob("C13-once", not nowait, fi.qualname, "no non-blocking put into the frame buffer", f"`{short(nowait[0], 60) if nowait else ''}` drops its payload when the buffer is full", fi.where)

    # ---- C13-final -----------------------------------------------------
    res.ob("C13-final", len(sent) == 1, fi.qualname, "one end-of-stream put site",
           f"{len(sent)} end-of-stream put sites (expected exactly one)", fi.where)
    sent_nodes: Set[int] = set()
    for c in sent:
        sent_nodes |= set(cfg.stmt_nodes_containing(c))
        loops = astq.enclosing_loops(c)
        res.ob("C13-final", not loops, fi.qualname, f"marker put outside loops: {short(c, 60)}",
               "the end-of-stream put is inside a loop (may be delivered more than once)", f"{fi.module.relpath}:{c.lineno}")
    live = cfg.live_nodes()
    for ex, label in ((cfg.exit, "normal exit"), (cfg.raise_exit, "exceptional exit")):
        if ex not in live:
            res.count("C13-final")
            continue
        def _cannot_raise(a_, b_, labels):
            """the exceptional edge of a statement that only builds a constant (the marker dict) is not a way out"""
            if "exc" not in labels:
                return False
            st_ = cfg.nodes[a_].ast
            if not (isinstance(st_, ast.Assign) and len(st_.targets) == 1 and isinstance(st_.targets[0], ast.Name)):
                return False
            for x_ in ast.walk(st_.value):
                if isinstance(x_, ast.Call) and norm(x_.func) not in ("dict.fromkeys", "dict"):
                    return False
                if isinstance(x_, (ast.Subscript, ast.Attribute, ast.BinOp, ast.Await, ast.Yield)) and not (isinstance(x_, ast.Attribute) and norm(x_) == "dict.fromkeys"):
                    return False
            return True
        w = cfg.must_pass([cfg.entry], [ex], sent_nodes, drop_edge=_cannot_raise)
        res.ob("C13-final", w is None, fi.qualname, f"every path to the {label} puts the end-of-stream marker",
               f"a path reaches the {label} without putting the end-of-stream marker: {cfg.path_str(w) if w else ''}",
               fi.where, derivation={"path": cfg.path_str(w)} if w else None,
               sample={"cut": "sentinel put nodes", "exit": label, "cfg": cfg.stats()})
    frame_nodes: Set[int] = set()
    for c in frames:
        frame_nodes |= set(cfg.stmt_nodes_containing(c))
    after = set()
    for s in sent_nodes:
        after |= cfg.reachable_from(list(cfg.g.successors(s)))
    res.ob("C13-final", not (after & frame_nodes), fi.qualname, "no frame put after the marker",
           "a frame can be put after the end-of-stream marker", fi.where)
    res.ob("C13-final", not (after & sent_nodes), fi.qualname, "marker put at most once per run",
           "the end-of-stream marker can be put twice on one path", fi.where)

    # ---- C13-once ------------------------------------------------------
    res.ob("C13-once", len(frames) >= 1, fi.qualname, "a frame put exists", "no frame put in run()", fi.where)
    loops = {id(l): l for c in frames for l in astq.enclosing_loops(c)[-1:]}
    for c in frames:
        if not astq.enclosing_loops(c):
            res.ob("C13-once", False, fi.qualname, f"frame put inside the read loop: {short(c, 60)}",
                   "a frame put outside the read loop", f"{fi.module.relpath}:{c.lineno}")
    res.ob("C13-once", len(loops) == 1, fi.qualname, "one read loop", f"{len(loops)} distinct loops contain frame puts", fi.where)
    for loop in loops.values():
        if not isinstance(loop, ast.For):
            res.inconclusive(f"{fi.qualname}: read loop is not a for-loop over range()")
            continue
        heads = cfg.nodes_of(loop)
        body_first = []
        for h in heads:
            for m in cfg.g.successors(h):
                if "true" in cfg.g[h][m]["labels"]:
                    body_first.append(m)
        in_loop_puts = {n for c in frames for n in cfg.stmt_nodes_containing(c)}
        w = cfg.must_pass(body_first, heads, in_loop_puts)
        res.ob("C13-once", w is None, fi.qualname, "every completed iteration puts a frame",
               f"an iteration can complete without putting its frame: {cfg.path_str(w) if w else ''}",
               f"{fi.module.relpath}:{loop.lineno}", derivation={"path": cfg.path_str(w)} if w else None,
               sample={"loop": short(loop.iter), "puts": [short(c, 50) for c in frames]})
        # at most one put per iteration: from a put, no put is reachable without passing the loop head
        twice = False
        for p in in_loop_puts:
            reach = cfg.reachable_from(list(cfg.g.successors(p)), avoid=heads)
            if reach & in_loop_puts:
                twice = True
        res.ob("C13-once", not twice, fi.qualname, "at most one frame put per iteration",
               "two frame puts can happen in one iteration (duplicate delivery)", f"{fi.module.relpath}:{loop.lineno}")
        # increasing range
        it = loop.iter
        ok_range = isinstance(it, ast.Call) and isinstance(it.func, ast.Name) and it.func.id == "range"
        if ok_range and len(it.args) == 3:
            step = astq.const_value(it.args[2])
            ok_range = step is not ... and isinstance(step, int) and step == 1
        res.ob("C13-once", ok_range, fi.qualname, f"iteration over an increasing unit-step range: {short(it)}",
               "the read loop does not iterate an increasing unit-step range (frames skipped or out of order)",
               f"{fi.module.relpath}:{loop.lineno}")
        if ok_range and len(it.args) >= 1 and cls_q.endswith("VideoReader"):
            # the frames read are video[K] for K over [start_idx, end_idx), and each is labelled with that very K:
            #   for i in range(start, end): video[i], frame_idx i        or
            #   for i in range(end - start) / range(self.total_len()): video[start + i], frame_idx start + i
            var = loop.target.id if isinstance(loop.target, ast.Name) else None
            a0 = norm(it.args[0]) if len(it.args) >= 2 else "0"
            a1x = it.args[1] if len(it.args) >= 2 else it.args[0]
            if isinstance(a1x, ast.Call) and isinstance(a1x.func, ast.Attribute) and norm(a1x.func.value) == "self" and not a1x.args and a1x.func.attr in ci.methods:
                pr_ = astq.path_returns(ci.methods[a1x.func.attr].node)     # self.total_len() -> its returned expression
                if pr_ and len(pr_) == 1 and pr_[0][1] is not None:
                    a1x = pr_[0][1]
            a1 = norm(a1x)
            for c in frames:
                d = _payload_dict(fn, c.args[0])
                vi, vf = (astq.dict_literal_get(d, "image"), astq.dict_literal_get(d, "frame_idx")) if d is not None else (None, None)
                xi = astq.expand_at(fn, vi, enclosing_stmt(c), keep=[var] if var else []) if vi is not None else None
                reads = [n_ for n_ in ast.walk(xi) if isinstance(n_, ast.Subscript) and norm(n_.value) == "self.video"] if xi is not None else []
                def _unint(e_):
                    while isinstance(e_, ast.Call) and isinstance(e_.func, ast.Name) and e_.func.id == "int" and len(e_.args) == 1 and not e_.keywords:
                        e_ = e_.args[0]
                    return e_
                K = norm(_unint(reads[0].slice)) if len(reads) == 1 else None
                xf = astq.expand_at(fn, vf, enclosing_stmt(c), keep=[var] if var else []) if vf is not None else None
                while isinstance(xf, ast.Call) and norm(xf.func).split(".")[-1] in ("tensor", "as_tensor", "int") and xf.args:
                    xf = xf.args[0]
                F_ = norm(_unint(xf)) if xf is not None else None
                res.ob("C13-once", K is not None and K == F_, fi.qualname, "a frame is labelled with the index it was read at",
                       f"the frame put reads `self.video[{K}]` but labels it frame_idx `{F_}`: records carry the index of another frame", f"{fi.module.relpath}:{c.lineno}")
                absolute = (a0, a1) == ("self.start_idx", "self.end_idx") and K == var
                relative = a0 == "0" and a1 == "self.end_idx - self.start_idx" and K in (f"self.start_idx + {var}", f"{var} + self.start_idx")
                res.ob("C13-once", absolute or relative, fi.qualname, "the frames read are those of the requested (start_idx, end_idx)",
                       f"the read loop iterates range({a0}, {a1}) and reads self.video[{K}]: not the requested range [start_idx, end_idx)", f"{fi.module.relpath}:{loop.lineno}")
        # payload depends on the loop variable
        seeds = astq.target_names(loop.target)
        dep = astq.dep_closure(loop.body, seeds)
        for c in frames:
            d = _payload_dict(fn, c.args[0])
            for key in ("image", "frame_idx", "orig_size"):
                v = astq.dict_literal_get(d, key) if d is not None else None
                ok = v is not None and bool(astq.loads_in(v) & dep)
                res.ob("C13-once", ok, fi.qualname, f"payload[{key!r}] derives from the loop variable",
                       f"payload[{key!r}] of the frame put does not depend on the loop variable "
                       f"({short(v) if v is not None else 'missing'}): every frame would carry the same {key}",
                       f"{fi.module.relpath}:{c.lineno}")


def check_ownership(prog: Program, res: Result) -> None:
    allowed_put = {f"{r}.run" for r in READERS}
    n_put = n_get = 0
    for fi in prog.all_functions():
        for node in walk_function(fi.node):
            if isinstance(node, ast.Attribute) and node.attr == "frame_buffer":
                par = getattr(node, "_parent", None)
                gp = getattr(par, "_parent", None)
                is_call = isinstance(par, ast.Attribute) and isinstance(gp, ast.Call) and gp.func is par
                if is_call and par.attr == "put":
                    n_put += 1
                    res.ob("C13-own", fi.qualname in allowed_put, fi.qualname, f"put: {short(gp, 60)}",
                           "frame_buffer.put outside the reader threads' run(): a second producer breaks FIFO order/termination",
                           f"{fi.module.relpath}:{node.lineno}")
                elif is_call and par.attr == "get":
                    n_get += 1
                    res.ob("C13-own", fi.qualname == CONSUMER, fi.qualname, f"get: {short(gp, 60)}",
                           "frame_buffer.get outside Predictor._predict_generator: a second consumer steals frames",
                           f"{fi.module.relpath}:{node.lineno}")
                    res.ob("C13-own", not gp.args and not gp.keywords, fi.qualname, f"blocking get: {short(gp, 60)}",
                           "frame_buffer.get with arguments (non-blocking or timed get can raise queue.Empty)",
                           f"{fi.module.relpath}:{node.lineno}")
                elif is_call:
                    res.ob("C13-own", False, fi.qualname, f"{short(gp, 60)}",
                           f"unexpected operation on the frame buffer: .{par.attr}()", f"{fi.module.relpath}:{node.lineno}")
                elif isinstance(node.ctx, ast.Store):
                    ok = fi.name == "__init__" and fi.cls is not None and fi.cls.qualname in READERS
                    st = par
                    res.ob("C13-own", ok and isinstance(st, ast.Assign) and isinstance(st.value, ast.Name),
                           fi.qualname, f"{short(st, 60)}", "frame_buffer rebound outside the reader constructors",
                           f"{fi.module.relpath}:{node.lineno}")
    res.floor("C13-own", 6)
    # construction of the queue
    for r in READERS:
        ci = prog.cls(r)
        if "from_filename" not in ci.methods:
            raise AnalysisError(f"{r}.from_filename vanished")
        fi = ci.methods["from_filename"]
        res.touch(fi)
        q_calls = [(c, q) for c, q in prog.calls_in(fi) if q.startswith("queue.")]
        ok = False
        what = "no queue constructed"
        for c, q in q_calls:
            ms = astq.call_arg(c, 0, "maxsize")
            ok = q == "queue.Queue" and ms is not None and norm(ms) == "queue_maxsize"
            what = f"{q}({norm(ms) if ms is not None else ''})"
        res.ob("C13-own", ok, fi.qualname, "buffer = queue.Queue(maxsize=queue_maxsize)",
               f"the frame buffer is built as {what}: not a bounded FIFO with the configured capacity", fi.where,
               sample=what)
        # the buffer object reaches the constructor
        cls_calls = [c for c, q in prog.calls_in(fi) if q in ("builtins.cls", r)]
        # the frame_buffer argument of the constructor, expanded, IS the Queue(...) construction
        init = ci.methods.get("__init__")
        handed = False
        for c in cls_calls:
            bound = astq.bind_args(init, c, skip_self=True) if init is not None else {}
            fb = bound.get("frame_buffer")
            fbx = astq.expand_at(fi.node, fb, astq_enclosing(c)) if fb is not None else None
            handed = handed or (isinstance(fbx, ast.Call) and any(norm(fbx) == norm(qc) for qc, _ in q_calls))
        res.ob("C13-own", handed, fi.qualname, "the constructed queue is handed to the reader",
               "the constructed queue is not the one handed to the reader", fi.where)
    # Thread base class
    for r in READERS:
        ci = prog.cls(r)
        res.ob("C13-own", "threading.Thread" in ci.bases, ci.qualname, "reader is a threading.Thread",
               f"{r} no longer derives from threading.Thread (bases: {ci.bases})", f"{ci.module.relpath}:{ci.node.lineno}")


def astq_enclosing(node):
    from ..core.program import enclosing_stmt

    return enclosing_stmt(node)


def check_consumer(prog: Program, res: Result) -> None:
    fi = prog.func(CONSUMER)
    res.touch(fi)
    fn = fi.node
    cfg = CFG(fn)
    gets = [c for c in astq.method_calls(fn, "get") if _is_buffer_call(c, "get")]
    res.ob("C13-cons", len(gets) == 1, fi.qualname, "one get site", f"{len(gets)} get sites in the consumer", fi.where)
    if len(gets) != 1:
        return
    get = gets[0]
    st = astq_enclosing(get)
    if not (isinstance(st, ast.Assign) and len(st.targets) == 1 and isinstance(st.targets[0], ast.Name)):
        res.inconclusive(f"{fi.qualname}: item taken from the queue is not bound to a plain name")
        return
    item = st.targets[0].id
    loops = astq.enclosing_loops(get)
    res.ob("C13-cons", len(loops) == 2, fi.qualname, "get inside batch loop inside stream loop",
           f"get is nested in {len(loops)} loops (expected the batch loop inside the stream loop)", fi.where)
    if len(loops) != 2:
        return
    inner, outer = loops[0], loops[1]
    # starts / joins
    starts = [c for c in astq.method_calls(fn, "start") if norm(c.func.value).endswith("pipeline")]
    joins = [c for c in astq.method_calls(fn, "join") if norm(c.func.value).endswith("pipeline")]
    res.ob("C13-cons", len(starts) == 1 and not astq.enclosing_loops(starts[0]), fi.qualname, "reader started once",
           f"pipeline.start() called at {len(starts)} sites / inside a loop", fi.where)
    if starts:
        w = cfg.must_pass([cfg.entry], cfg.stmt_nodes_containing(get), cfg.stmt_nodes_containing(starts[0]))
        res.ob("C13-cons", w is None, fi.qualname, "start dominates the first get",
               "the queue is read before the reader thread is started (consumer blocks forever)", fi.where)
    jn = {n for c in joins for n in cfg.stmt_nodes_containing(c)}
    w = cfg.must_pass([cfg.entry], [cfg.exit], jn)
    res.ob("C13-cons", bool(joins) and w is None, fi.qualname, "reader joined on the normal exit",
           "the normal exit of the consumer does not join the reader thread", fi.where)
    # all pipeline.start in the program
    n_start = 0
    for f2 in prog.all_functions():
        for c in astq.method_calls(f2.node, "start"):
            if norm(c.func.value).endswith("pipeline"):
                n_start += 1
    res.ob("C13-own", n_start == 1, CONSUMER, "single start site in the program",
           f"{n_start} call sites start the reader thread", fi.where)

    # the consumer waits for frames only inside get(): a loop that polls the fill level of the buffer (qsize / full / empty)
    # waits for a level the reader may never reach - a queue of capacity c never holds batch_size > c frames, while the reader
    # sits blocked in put() and stays alive
    polls = [w_ for w_ in walk_function(fn) if isinstance(w_, ast.While) and any(isinstance(c_, ast.Call) and any(_is_buffer_call(c_, m_) for m_ in ("qsize", "full", "empty")) for c_ in ast.walk(w_.test))]
    res.ob("C13-cons", not polls, fi.qualname, "no polling loop on the buffer's fill level",
           f"`while {short(polls[0].test, 70) if polls else ''}` waits on the fill level of the frame buffer: with queue_maxsize below the level waited for, the reader blocks in put(), "
           "the level is never reached and inference hangs", f"{fi.module.relpath}:{polls[0].lineno if polls else fi.node.lineno}")
    # sentinel test
    tests = []
    for n in ast.walk(inner):
        if isinstance(n, ast.If):
            x = astq.is_none_test(n.test)
            if x is not None and isinstance(x, ast.Subscript) and isinstance(x.value, ast.Name) and x.value.id == item \
                    and isinstance(x.slice, ast.Constant) and x.slice.value == "image":
                tests.append(n)
    res.ob("C13-cons", len(tests) == 1, fi.qualname, f"marker test `{item}['image'] is None`",
           f"{len(tests)} end-of-stream tests on the item taken from the queue", fi.where)
    if len(tests) != 1:
        return
    test = tests[0]
    tnodes = cfg.nodes_of(test)
    gnodes = cfg.stmt_nodes_containing(get)
    # every other use of the item is dominated by the test (taken on its false edge)
    uses = []
    for n in walk_function(fn):
        if isinstance(n, ast.Name) and n.id == item and isinstance(n.ctx, ast.Load):
            stn = cfg.stmt_nodes_containing(n)
            if set(stn) & set(tnodes):
                continue
            uses.append((n, stn))
    bad = None
    for n, stn in uses:
        w = cfg.must_pass(gnodes, stn, tnodes)
        if w is not None:
            bad = (n, w)
            break
        if astq.in_body_of(n, test, "body"):
            bad = (n, [])
            break
    res.ob("C13-cons", bad is None, fi.qualname, "marker tested before any other use of the item",
           f"the item is used before/without the end-of-stream test at line {bad[0].lineno if bad else 0} "
           "(normalising a None image raises and the stream never ends cleanly)", fi.where,
           sample={"item": item, "uses_checked": len(uses)})
    res.count("C13-cons", len(uses))
    # termination on the marker: flag pattern
    true_succ = [m for t in tnodes for m in cfg.g.successors(t) if "true" in cfg.g[t][m]["labels"]]
    reach = cfg.reachable_from(true_succ)
    if not (reach & set(gnodes)):
        res.ob("C13-cons", True, fi.qualname, "marker branch never reaches get again", "", fi.where)
    else:
        # the marker branch raises a flag; with that flag up, every test of it (`while not flag`, `if flag: break`) takes its
        # exit arm, and on the remaining paths get() must be out of reach (a path that re-assigns the flag counts as reaching it)
        sets_true = [s_ for s_ in ast.walk(test) if isinstance(s_, ast.Assign) and astq.in_body_of(s_, test, "body") and len(s_.targets) == 1 and isinstance(s_.targets[0], ast.Name)
                     and isinstance(s_.value, ast.Constant) and s_.value.value is True]
        flags = {s_.targets[0].id for s_ in sets_true}
        res.ob("C13-cons", bool(flags), fi.qualname, "marker branch raises an end-of-stream flag",
               "the end-of-stream branch neither leaves the stream loop nor sets a flag: the consumer blocks on get() forever", f"{fi.module.relpath}:{test.lineno}")
        if not flags:
            return

        def flag_up(a_, b_, labels):
            nd = cfg.nodes[a_]
            st_ = nd.ast
            t_ = st_.test if nd.kind == "test" and isinstance(st_, (ast.If, ast.While)) else None
            if t_ is None:
                return False
            neg_ = isinstance(t_, ast.UnaryOp) and isinstance(t_.op, ast.Not)
            nm_ = t_.operand if neg_ else t_
            if isinstance(nm_, ast.Name) and nm_.id in flags:
                return ("true" in labels) if neg_ else ("false" in labels)     # the arm taken only when the flag is down
            return False

        starts = [m for s_ in sets_true for n_ in cfg.nodes_of(s_) for m in cfg.g.successors(n_)]
        resets = {n_ for s_ in walk_function(fn) if isinstance(s_, (ast.Assign, ast.AugAssign)) and astq.target_names(astq.stmt_targets(s_)[0]) & flags
                  and not (isinstance(s_, ast.Assign) and isinstance(s_.value, ast.Constant) and s_.value.value is True) for n_ in cfg.nodes_of(s_)}
        w = cfg.must_pass(starts, set(gnodes) | resets, set(), drop_edge=flag_up)
        res.ob("C13-cons", w is None, fi.qualname, f"with {sorted(flags)} up, get() is out of reach",
               "after the end-of-stream marker the consumer can call get() again (or lower the flag) without leaving the stream loop "
               f"(blocks forever): {cfg.path_str(w) if w else ''}", f"{fi.module.relpath}:{test.lineno}")
    # partial batch flush
    inf_calls = [c for c in walk_function(fn) if isinstance(c, ast.Call) and norm(c.func) == "self.inference_model"]
    res.ob("C13-cons", len(inf_calls) == 1, fi.qualname, "one inference call", f"{len(inf_calls)} inference call sites", fi.where)
    if inf_calls:
        call = inf_calls[0]
        guards = [a for a in [*__import__('sa.core.program', fromlist=['ancestors']).ancestors(call)] if isinstance(a, ast.If)]
        guards = [g for g in guards if astq.in_body_of(g, outer, "body") and not astq.in_body_of(g, inner, "body")]
        res.ob("C13-cons", not astq.in_body_of(call, inner, "body") and astq.in_body_of(call, outer, "body"),
               fi.qualname, "batch processed after the batch loop, inside the stream loop",
               "the inference call is not placed after the batch loop inside the stream loop", f"{fi.module.relpath}:{call.lineno}")
        # lists appended with the image in the inner loop
        img_lists = set()
        for c in astq.method_calls(inner, "append"):
            # a list that receives (a part of) every frame read: appended unconditionally with a value taken from the item
            cond = [a_ for a_ in __import__('sa.core.program', fromlist=['ancestors']).ancestors(c) if isinstance(a_, ast.If) and astq.in_body_of(a_, inner, "body")
                    and astq.in_body_of(c, a_, "body") and astq.is_none_test(a_.test) is None]
            if isinstance(c.func.value, ast.Name) and c.args and item in astq.names_in(c.args[0]) and not cond:
                img_lists.add(c.func.value.id)
        # Once the batch loop is left, the batch is processed unless the list of images is EMPTY: with the edges taken
        # only for an empty image list removed (false edge of `if imgs`, true edge of `if not imgs` / `len(imgs) == 0`),
        # every path from the batch loop to the next stream-loop test, or out of the function, runs the inference call.
        def _empty_edge(test: ast.AST):
            """label of the edge taken when the image list is empty, or None if `test` is not an emptiness test."""
            t, neg = test, False
            if isinstance(t, ast.UnaryOp) and isinstance(t.op, ast.Not):
                t, neg = t.operand, True
            if isinstance(t, ast.Name) and t.id in img_lists:
                return "true" if neg else "false"
            if isinstance(t, ast.Compare) and len(t.ops) == 1 and isinstance(t.left, ast.Call) and norm(t.left.func) == "len" and t.left.args \
                    and norm(t.left.args[0]) in img_lists and astq.const_value(t.comparators[0]) == 0:
                if isinstance(t.ops[0], (ast.Gt, ast.NotEq)):
                    return "true" if neg else "false"
                if isinstance(t.ops[0], ast.Eq):
                    return "false" if neg else "true"
            return None

        empties = {}
        for n_ in walk_function(fn):
            if isinstance(n_, ast.If) and astq.in_body_of(n_, outer, "body") and not astq.in_body_of(n_, inner, "body"):
                lab = _empty_edge(n_.test)
                if lab is not None:
                    for tn in cfg.nodes_of(n_):
                        empties[tn] = lab
        cn = set(cfg.stmt_nodes_containing(call))
        inner_heads = cfg.nodes_of(inner)
        outer_heads = cfg.nodes_of(outer)
        w = cfg.must_pass(inner_heads, list(outer_heads) + [cfg.exit], cn,
                          drop_edge=lambda a_, b_, labels: "exc" in labels or (a_ in empties and empties[a_] in labels))
        res.ob("C13-cons", w is None, fi.qualname, "after the batch loop the batch is processed unless the image list is empty",
               f"a path leaves the batch loop and reaches the next stream-loop test without running the model although images were read "
               f"(a partial last batch may be dropped): {cfg.path_str(w) if w else ''}", f"{fi.module.relpath}:{call.lineno}")
        res.ob("C13-cons", bool(empties), fi.qualname, "the batch block is skipped only for an empty batch", "no emptiness guard on the image list", fi.where)
    # batch loop is a for over range(batch_size)
    ok = isinstance(inner, ast.For) and isinstance(inner.iter, ast.Call) and norm(inner.iter.func) == "range" and len(inner.iter.args) == 1
    res.ob("C13-cons", ok, fi.qualname, "batch loop is `for _ in range(batch_size)`",
           "the batch loop is not a bounded for-loop over range(batch_size)", f"{fi.module.relpath}:{inner.lineno}")


def _in_video_branch(call: ast.Call) -> bool:
    """Is the call in the body of an `if/elif self.provider == "VideoReader"` arm?"""
    from ..core.program import ancestors
    child = call
    for a in ancestors(call):
        if isinstance(a, ast.If) and "VideoReader" in norm(a.test) and any(child is b or child in list(ast.walk(b)) for b in a.body):
            return True
        child = a
    return False


def _reader_call_alternatives(fn: ast.AST, c: ast.Call):
    """[(is the VideoReader being built?, keyword arguments)] for a `<reader>.from_filename(...)` call.  The reader class and
    a `**kwargs` dict may be chosen per provider in the arms of a conditional and the call made once after it
    (`reader = VideoReader; reader_kwargs = {...}` in one arm): then there is one alternative per arm."""
    recv = c.func.value
    explicit = [k for k in c.keywords if k.arg is not None]
    stars = [k.value for k in c.keywords if k.arg is None and isinstance(k.value, ast.Name)]
    rb = [b for b in astq.assignments_to(fn, recv.id)] if isinstance(recv, ast.Name) else []
    rd = astq.reaching_def(fn, recv.id, c) if isinstance(recv, ast.Name) else None
    if rd is not None and isinstance(rd.value, ast.Name):
        recv = rd.value          # the class bound in the same arm as the call
        rb = []
    if len(rb) > 1 and all(isinstance(b, ast.Assign) and isinstance(b.value, ast.Name) for b in rb):
        alts = []
        for b in rb:
            par = getattr(b, "_parent", None)
            blk = next((getattr(par, f) for f in ("body", "orelse") if isinstance(getattr(par, f, None), list) and any(b is x for x in getattr(par, f))), [])
            kws = list(explicit)
            for sname in stars:
                lits = [x for x in blk if isinstance(x, ast.Assign) and len(x.targets) == 1 and norm(x.targets[0]) == sname.id and isinstance(x.value, ast.Dict)]
                if len(lits) == 1:
                    kws += [ast.keyword(arg=k.value, value=v) for k, v in zip(lits[0].value.keys, lits[0].value.values) if isinstance(k, ast.Constant) and isinstance(k.value, str)]
            alts.append((b.value.id.endswith("VideoReader"), kws))
        return alts
    ckw = astq.call_keywords(fn, c)     # **kwargs built from one literal + item stores written out
    is_video = any(k.arg in ("start_idx", "end_idx") for k in ckw) or _in_video_branch(c) or norm(recv).endswith("VideoReader")
    return [(is_video, ckw)]


def check_range(prog: Program, res: Result) -> None:
    """The requested range (start_idx, end_idx) reaches the read loop unchanged: an absent bound is recognised by
    identity with None - never by truthiness, because 0 is a valid index (end_idx=0 is the empty range, not 'whole
    video') - and the factory forwards both bounds to the constructor."""
    R = "C13-range"
    ci = prog.cls(READERS[0])
    for fi in ci.methods.values():
        opt = [a.arg for a in fi.node.args.args + fi.node.args.kwonlyargs if a.annotation is not None and norm(a.annotation) in ("Optional[int]", "Union[int, None]", "int | None")]
        if not opt:
            continue
        res.touch(fi)
        # names that hold the raw (possibly None) bound: the parameter and self.<x> copies of it
        holders = {p: {p} for p in opt}
        for st in walk_function(fi.node):
            if isinstance(st, ast.Assign) and isinstance(st.value, ast.Name) and st.value.id in holders:
                for t in st.targets:
                    holders[st.value.id].add(norm(t))
        for prm, hs in holders.items():
            bad = None
            for n in walk_function(fi.node):
                if isinstance(n, ast.BoolOp) and norm(n.values[0]) in hs:
                    last = n.values[-1]
                    if isinstance(n.op, ast.Or) and astq.const_value(last) == 0 and len(n.values) == 2:
                        continue  # `x or 0`: 0 and None both give 0
                    bad = n
                elif isinstance(n, (ast.If, ast.IfExp, ast.While)):
                    t = n.test
                    if isinstance(t, ast.UnaryOp) and isinstance(t.op, ast.Not):
                        t = t.operand
                    if norm(t) in hs:
                        bad = n.test
            res.ob(R, bad is None, fi.qualname, f"absent `{prm}` recognised by `is None`",
                   f"`{short(bad, 60) if bad is not None else ''}` decides the default of `{prm}` by truthiness: the valid index 0 is treated as absent "
                   "(end_idx=0 reads the whole video instead of nothing)", f"{fi.module.relpath}:{getattr(bad, 'lineno', fi.node.lineno)}")
        # forwarding through factories: cls(..., start_idx, end_idx)
        for c in walk_function(fi.node):
            if isinstance(c, ast.Call) and isinstance(c.func, ast.Name) and c.func.id == "cls":
                init = ci.methods.get("__init__")
                bound = astq.bind_args(init, c, skip_self=True) if init is not None else {}
                for prm in opt:
                    v = bound.get(prm)
                    res.ob(R, v is not None and norm(v) == prm, fi.qualname, f"factory forwards `{prm}`",
                           f"`{short(c, 60)}` passes {short(v, 30) if v is not None else 'nothing'} as `{prm}`: the requested range is not the one read",
                           f"{fi.module.relpath}:{c.lineno}")
    # forwarding from the public entry point down to the reader
    pm = prog.modules["sleap_nn.inference.predictors"]
    n_fwd = 0
    for fi in prog.functions.values():
        if fi.module is not pm:
            continue
        for c in walk_function(fi.node):
            if not isinstance(c, ast.Call) or not isinstance(c.func, ast.Attribute):
                continue
            for is_video, ckw in (_reader_call_alternatives(fi.node, c) if c.func.attr == "from_filename" else []):
                if not is_video:
                    continue
                res.touch(fi)
                kw = {k.arg: k.value for k in ckw}
                for a, b in (("start_idx", "video_start_idx"), ("end_idx", "video_end_idx")):
                    n_fwd += 1
                    res.ob(R, a in kw and norm(kw[a]) == b, fi.qualname, f"make_pipeline forwards {b} as {a}",
                           f"`{short(c, 50)}` passes {short(kw[a], 30) if a in kw else 'nothing'} as `{a}`: the requested range is not the one read",
                           f"{fi.module.relpath}:{c.lineno}")
            if False:
                pass
            elif c.func.attr == "make_pipeline" and "predictor" in norm(c.func.value):
                res.touch(fi)
                tgt = prog.cls("sleap_nn.inference.predictors:Predictor").methods.get("make_pipeline")
                bound = astq.bind_args(tgt, c, skip_self=True) if tgt is not None else {}
                for a, b in (("video_start_idx", "videoreader_start_idx"), ("video_end_idx", "videoreader_end_idx")):
                    n_fwd += 1
                    v = bound.get(a)
                    res.ob(R, v is not None and norm(v) == b, fi.qualname, f"{fi.name}() forwards {b}",
                           f"`{short(c, 50)}` passes {short(v, 30) if v is not None else 'nothing'} as `{a}`", f"{fi.module.relpath}:{c.lineno}")
    if n_fwd < 8:
        raise AnalysisError(f"C13-range: only {n_fwd} range-forwarding obligations found (expected 3 make_pipeline implementations + run_inference)")
    res.floor(R, 12)


def check_batch(prog: Program, res: Result) -> None:
    """The consumer reads `for _ in range(batch_size)` frames per round; with batch_size <= 0 it never calls get(), never
    sees the end-of-stream marker and spins forever while the reader blocks on put().  batch_size must reach
    _predict_generator as the predictor's own (positive) batch_size: every make_pipeline stores self.batch_size unchanged
    under preprocess_config['batch_size'], and the generator reads exactly that key."""
    R = "C13-batch"
    pm = prog.modules["sleap_nn.inference.predictors"]
    n = 0
    for fi in prog.all_functions():
        if fi.module is not pm or fi.name != "make_pipeline" or fi.cls is None or fi.cls.name == "Predictor":
            continue
        res.touch(fi)
        for d in [x for x in walk_function(fi.node) if isinstance(x, ast.Dict)]:
            v = astq.dict_literal_get(d, "batch_size")
            if v is None:
                continue
            n += 1
            st = astq_enclosing(d)
            got = norm(astq.expand_at(fi.node, v, st))
            res.ob(R, got == "self.batch_size", fi.qualname, "preprocess_config['batch_size'] = self.batch_size",
                   f"the consumer's batch size is set to `{got}`: it can differ from the configured batch size (0 for a queue of capacity 1 -> the consumer never reads the "
                   "queue and inference hangs)", f"{fi.module.relpath}:{v.lineno}")
        for s_ in walk_function(fi.node):  # later stores into the dict
            if isinstance(s_, ast.Assign) and isinstance(s_.targets[0], ast.Subscript) and astq.const_value(s_.targets[0].slice) == "batch_size":
                n += 1
                got = norm(astq.expand_at(fi.node, s_.value, s_))
                res.ob(R, got == "self.batch_size", fi.qualname, "preprocess_config['batch_size'] = self.batch_size", f"the consumer's batch size is overwritten with `{got}`", f"{fi.module.relpath}:{s_.lineno}")
    gen = prog.func(CONSUMER)
    rng = [lp for lp in walk_function(gen.node) if isinstance(lp, ast.For) and isinstance(lp.iter, ast.Call) and norm(lp.iter.func) == "range" and len(lp.iter.args) == 1
           and any(isinstance(c, ast.Call) and _is_buffer_call(c, "get") for c in ast.walk(lp))]
    ok = len(rng) == 1 and astq.xnorm(gen.node, rng[0].iter.args[0]).replace('"', "'") == "self.preprocess_config['batch_size']"
    res.ob(R, ok, gen.qualname, "the batch loop runs range(preprocess_config['batch_size'])", "the batch loop bound is not preprocess_config['batch_size']", gen.where)
    # vacuity guard: at least one store per make_pipeline implementation (6 on the pinned tree, one per provider arm; fewer when
    # the dict is built once after the provider branch or by a shared helper) plus the consumer's loop
    res.floor(R, 4)


def check_index_domain(prog: Program, res: Result) -> None:
    """The producer's index loop and the sequence it indexes agree on their length: `for idx in range(N)` reading `S[idx]`
    has N == len(S) - also when N comes from a method (total_len()).  A count of a SUBSET of S (user-labelled frames, say)
    stops early and the last frames are never delivered."""
    R = "C13-once"
    for cls_q in READERS:
        ci = prog.cls(cls_q)
        fi = ci.methods["run"]
        for lp in walk_function(fi.node):
            if not (isinstance(lp, ast.For) and isinstance(lp.iter, ast.Call) and norm(lp.iter.func) == "range" and len(lp.iter.args) == 1 and isinstance(lp.target, ast.Name)):
                continue
            idx = lp.target.id
            seqs = sorted({norm(sub.value) for sub in ast.walk(lp) if isinstance(sub, ast.Subscript) and norm(sub.slice) == idx and isinstance(sub.ctx, ast.Load)})
            if not seqs:
                continue
            bound = astq.expand_at(fi.node, lp.iter.args[0], lp)
            if isinstance(bound, ast.Call) and isinstance(bound.func, ast.Attribute) and norm(bound.func.value) == "self" and not bound.args:
                m = prog.lookup_method(ci, bound.func.attr)
                rets = [r for r in walk_function(m.node) if isinstance(r, ast.Return) and r.value is not None] if m is not None else []
                if len(rets) == 1:
                    res.touch(m)
                    bound = astq.expand_at(m.node, rets[0].value, rets[0])
            ok = isinstance(bound, ast.Call) and norm(bound.func) == "len" and len(bound.args) == 1 and norm(bound.args[0]) in seqs
            res.ob(R, ok, fi.qualname, f"range bound = len({seqs[0]})", f"the read loop runs over range(`{short(bound, 50)}`) but indexes `{seqs[0]}`: the bound is not the length of the "
                   "sequence that is read, so frames at the end are never read (or the index runs past it)", f"{fi.module.relpath}:{lp.lineno}")


def check_group_key(prog: Program, res: Result) -> None:
    """Top-down results arrive one crop at a time and are regrouped into frames by a dictionary.  A frame is identified by
    (video, frame index): the key of that dictionary contains BOTH (keyed by the frame index alone, frames of two videos
    with the same number are merged into one and a frame that was read is missing from the output)."""
    R = "C13-group"
    fi = prog.cls("sleap_nn.inference.predictors:TopDownPredictor").methods.get("_make_labeled_frames_from_generator")
    if fi is None:
        raise AnalysisError("TopDownPredictor._make_labeled_frames_from_generator vanished")
    res.touch(fi)
    fn = fi.node
    # loop variables bound to the batch's video_idx / frame_idx columns
    cols = {}
    for lp in walk_function(fn):
        if isinstance(lp, ast.For):
            le = astq.loop_elems(lp, fn)
            if le is None:
                continue
            for seq, nm in [(le.seq, le.elem)] + list(le.extra):
                if nm and isinstance(seq, ast.Subscript) and isinstance(astq.const_value(seq.slice), str):
                    cols[astq.const_value(seq.slice)] = nm
    res.ob(R, "video_idx" in cols and "frame_idx" in cols, fi.qualname, "per-crop video and frame index are read from the batch",
           f"the loop over the batch does not bind the video_idx / frame_idx columns (bound: {sorted(cols)})", fi.where)
    if not ("video_idx" in cols and "frame_idx" in cols):
        return
    adds = [c for c in walk_function(fn) if isinstance(c, ast.Call) and isinstance(c.func, ast.Attribute) and c.func.attr == "append"
            and (isinstance(c.func.value, ast.Subscript) or (isinstance(c.func.value, ast.Call) and isinstance(c.func.value.func, ast.Attribute) and c.func.value.func.attr == "setdefault"))]
    adds = [c for c in adds if any(isinstance(x, ast.Call) and "PredictedInstance" in norm(x.func) for x in ast.walk(c))
            or astq.names_in(c) & {cols["video_idx"], cols["frame_idx"]}]
    res.ob(R, len(adds) >= 1, fi.qualname, "instances are grouped into a per-frame dictionary", "no per-frame grouping dictionary found", fi.where)
    for c in adds:
        key = c.func.value.slice if isinstance(c.func.value, ast.Subscript) else (c.func.value.args[0] if c.func.value.args else None)
        ke = astq.expand_at(fn, key, enclosing_stmt(c), keep=list(cols.values())) if key is not None else None
        nm = astq.names_in(ke) if ke is not None else set()
        res.ob(R, {cols["video_idx"], cols["frame_idx"]} <= nm, fi.qualname, "frames are keyed by (video index, frame index)",
               f"predicted instances are grouped under the key `{short(key, 40) if key is not None else '?'}`, which does not contain both the video and the frame index: "
               "frames of different videos that share a frame number are merged and one of them is missing from the result", f"{fi.module.relpath}:{c.lineno}")
    res.floor(R, 3)


def check(prog: Program, res: Result) -> None:
    check_group_key(prog, res)
    check_index_domain(prog, res)
    for r in READERS:
        check_reader(prog, res, r)
    check_ownership(prog, res)
    check_consumer(prog, res)
    check_range(prog, res)
    check_batch(prog, res)
    res.floor("C13-final", 10)
    res.floor("C13-once", 14)
    res.floor("C13-cons", 12)
    res.assumptions += [
        "an exception while reading a frame is an ordinary Exception raised inside the try body of run()",
        "the consumer is the only reader of the queue for the lifetime of the predictor (checked: who-may-call)",
    ]


P = "sleap_nn/data/providers.py"
Q = "sleap_nn/inference/predictors.py"
VARIANTS = [
    Variant("sentinel-moved-into-try", P,
            "        finally:\n            self.frame_buffer.put(\n                {\n                    \"image\": None,",
            "        else:\n            self.frame_buffer.put(\n                {\n                    \"image\": None,", "C13-final"),
    Variant("sentinel-only-on-error", P,
            "        except Exception as e:\n            logger.error(f\"Error when reading video frame. Stopping video reader.\\n{e}\")\n\n        finally:\n",
            "        except Exception as e:\n            logger.error(f\"Error when reading video frame. Stopping video reader.\\n{e}\")\n", "C13-final"),
    Variant("swallow-and-continue", P,
            "                img = self.video[idx]\n",
            "                try:\n                    img = self.video[idx]\n                except Exception:\n                    continue\n", "C13-once"),
    Variant("conditional-put", P,
            "                self.frame_buffer.put(sample)\n",
            "                if self.instances_key:\n                    self.frame_buffer.put(sample)\n", "C13-once"),
    Variant("lifo-queue", P, "from queue import Queue\n", "from queue import LifoQueue as Queue\n", "C13-own"),
    Variant("unbounded-queue", P, "frame_buffer = Queue(maxsize=queue_maxsize)\n        return cls(video",
            "frame_buffer = Queue()\n        return cls(video", "C13-own"),
    Variant("constant-frame-idx", P, "\"frame_idx\": torch.tensor(idx, dtype=torch.int32),",
            "\"frame_idx\": torch.tensor(self.start_idx, dtype=torch.int32),", "C13-once"),
    Variant("range-from-zero", P, "for idx in range(self.start_idx, self.end_idx):", "for idx in range(0, self.end_idx):", "C13-once"),
    Variant("sentinel-tested-after-normalisation", Q,
            "                if frame[\"image\"] is None:\n                    done = True\n                    break\n                frame[\"image\"] = apply_normalization(frame[\"image\"])\n",
            "                frame[\"image\"] = apply_normalization(frame[\"image\"])\n                if frame[\"image\"] is None:\n                    done = True\n                    break\n",
            "C13-cons"),
    Variant("flag-not-set", Q, "                    done = True\n                    break\n", "                    break\n", "C13-cons"),
    Variant("flush-skipped", Q, "            if imgs:\n                # TODO", "            if imgs and not done:\n                # TODO", "C13-cons"),
    Variant("second-producer", Q, "        self.pipeline.start()\n",
            "        self.pipeline.start()\n        self.pipeline.frame_buffer.put({\"image\": None})\n", "C13-own"),
    Variant("no-join", Q, "        self.pipeline.join()\n", "        pass\n", "C13-cons"),
    Variant("range-truthy-default", P, "        self.end_idx = end_idx\n        if self.start_idx is None:\n            self.start_idx = 0\n        if self.end_idx is None:\n            self.end_idx = self.video.shape[0]",
            "        self.end_idx = end_idx or self.video.shape[0]\n        if self.start_idx is None:\n            self.start_idx = 0", "C13-range"),
    Variant("range-if-not", P, "        if self.end_idx is None:\n            self.end_idx = self.video.shape[0]", "        if not self.end_idx:\n            self.end_idx = self.video.shape[0]", "C13-range"),
    Variant("range-factory-drops-end", P, "        return cls(video, frame_buffer, start_idx, end_idx)", "        return cls(video, frame_buffer, start_idx)", "C13-range"),
    Variant("range-forward-swapped", Q, "                start_idx=video_start_idx,\n                end_idx=video_end_idx,", "                start_idx=video_end_idx,\n                end_idx=video_start_idx,", "C13-range"),
    Variant("range-entry-drops-end", Q, "        provider, data_path, queue_maxsize, videoreader_start_idx, videoreader_end_idx\n", "        provider, data_path, queue_maxsize, videoreader_start_idx\n", "C13-range"),
    # behaviour-preserving
    Variant("bp-range-start-or-zero", P, "        self.start_idx = start_idx\n        self.end_idx = end_idx\n        if self.start_idx is None:\n            self.start_idx = 0\n",
            "        self.start_idx = start_idx or 0\n        self.end_idx = end_idx\n", None),
    Variant("bp-rename-loop-var", P, "for idx in range(self.start_idx, self.end_idx):\n                img = self.video[idx]",
            "for idx in range(self.start_idx, self.end_idx):\n                img = self.video[int(idx)]", None),
    Variant("bp-sentinel-via-name", P,
            "        finally:\n            self.frame_buffer.put(\n                {\n                    \"image\": None,\n                    \"frame_idx\": None,\n                    \"video_idx\": None,\n                    \"orig_size\": None,\n                }\n            )\n\n\nclass LabelsReader",
            "        finally:\n            end = {\n                    \"image\": None,\n                    \"frame_idx\": None,\n                    \"video_idx\": None,\n                    \"orig_size\": None,\n                }\n            self.frame_buffer.put(end)\n\n\nclass LabelsReader", None),
    Variant("bp-extra-logging", Q, "                    done = True\n                    break\n",
            "                    done = True\n                    logger.info(\"end of stream\")\n                    break\n", None),
]
