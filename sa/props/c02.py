"""C02 — single-instance / top-down decode returns original-image coordinates (E2 end to end)."""

from __future__ import annotations

import ast
from typing import Dict, List

from ..core import astq
from ..core.program import AnalysisError, Program, norm, short, walk_function
from ..engines.geomval import Cfg, Const, Geo, HDict, Mismatch, Mono, Num, Other, Ref, Top
from ..report import Result
from ..runner import Variant
from . import _infer, c12

PROP = "C02"
EXPLANATION = (
    "Abstract interpretation of the repository's own inference code over coordinate-frame values (units of measure): "
    "an image/points/box carries the monomial that scales it relative to the frame read from disk and the set of crop "
    "origins subtracted from it; symbolic scalars are named by configuration path or allocation site. For each entry point "
    "(predictor class x loaded models x provider) the interpreter runs _initialize_inference_model, make_pipeline, "
    "_predict_generator, the inference model's forward chain and _make_labeled_frames_from_generator and checks: (out) "
    "every coordinate handed to PredictedInstance.from_numpy (and the raw centroid/peak outputs) has monomial 1 and no "
    "pending crop origin - for EVERY value of image size, max_height/width (eff_scale), both input scales, strides, crop "
    "size and batch size, since the monomials cancel symbolically; (own) the image each network receives is scaled by "
    "exactly eff_scale x that model's own training scale, for both providers alike; (reg) crops are cut with boxes in the "
    "image's frame; (pad) padding is right/bottom only; (corner) the box corner subtracted and added back is corner 0; "
    "the network's true output stride is identified with the configuration path of the head it is paired with, so a "
    "mis-bound stride/scale does not cancel."
)
TRUSTED = [
    "CPython ast", "the external-leaf transfer table and contracts of sa/engines/geomleaf.py (resize factor, pad, crop_and_resize, size matching, peak finders, queue payload)",
    "a network's output grid is input/stride of its own head; training used data_config.preprocessing.scale of the same config",
]


def check_entries(prog: Program, res: Result, kinds, rule_out="C02-out", rule_own="C02-own", prefix="C02") -> None:
    n = 0
    for e in _infer.entries(kinds):
        n += 1
        run = _infer.run_entry(prog, e)
        I = run.I
        for q in I.calls_interpreted:
            if q in prog.functions:
                res.touch(prog.functions[q])
        # obligations recorded by the interpreter
        seen = set()
        for ob in I.obligations:
            rule = {"R-out": rule_out, "R-reg": f"{prefix}-reg", "R-centre": f"{prefix}-reg", "R-pad": f"{prefix}-pad", "R-corner": f"{prefix}-corner", "C03-lines": "C03-lines"}.get(ob.rule, ob.rule)
            key = (rule, ob.construct)
            if key in seen:
                continue
            seen.add(key)
            if ob.ok is None:
                res.inconclusive(f"[{e.name}] {rule}: {ob.message}")
                continue
            res.ob(rule, ob.ok, f"entry[{e.name}]", ob.construct, f"[{e.name}] {ob.message}", ob.where, derivation=ob.derivation,
                   sample={"entry": e.name, "obligation": ob.construct})
        # raw outputs (make_labels=False)
        el = I.elem_of(run.yielded)
        cells = I.obj(el).cells if isinstance(el, Ref) and isinstance(I.obj(el), HDict) else {}
        if not cells:
            res.inconclusive(f"[{e.name}] the generator yields {el!r}")
        for key in ("pred_instance_peaks", "centroids"):
            v = cells.get(key)
            if v is None:
                continue
            if isinstance(v, Ref):
                v = I.elem_of(v)
            if isinstance(v, Geo):
                # a pending crop origin is legitimate only when the very box is emitted alongside in the same frame
                offs_ok = True
                for (lab, m) in v.offs:
                    bb = cells.get("instance_bbox")
                    offs_ok = offs_ok and isinstance(bb, Geo) and bb.label == lab and bb.mono == m and bb.mono.is_one()
                ok = v.mono.is_one() and offs_ok
                res.ob(rule_out, ok, f"entry[{e.name}]", f"raw output '{key}': {v!r}",
                       f"[{e.name}] the raw output '{key}' is {v!r}: not in original-image units" + ("" if offs_ok else " / its crop origin is not the emitted instance_bbox"), "",
                       sample={"entry": e.name, key: repr(v), "instance_bbox": repr(cells.get("instance_bbox"))})
            elif isinstance(v, Mismatch):
                res.ob(rule_out, False, f"entry[{e.name}]", f"raw output '{key}' has one frame", f"[{e.name}] '{key}' has no single frame: {v!r}", "")
            elif isinstance(v, Top):
                res.inconclusive(f"[{e.name}] raw output '{key}' is {v!r}")
        # ownership of preprocessing: what each network sees
        for mc in I.leaves.model_calls:
            img = mc["image"]
            eff, rest = _infer.eff_of(img.mono)
            want = Mono.sym(_infer.SCALE[(e.cls, mc["model"])]) if (e.cls, mc["model"]) in _infer.SCALE else None
            ok = want is not None and rest == want and len(eff.e) == 1
            res.ob(rule_own, ok, f"entry[{e.name}]", f"input of {mc['model']}: {img!r}",
                   f"[{e.name}] the network `{mc['model']}` receives an image scaled by <{rest}> (besides size matching <{eff}>) but was trained at <{want}>: "
                   "preprocessing is applied by neither / both of the predictor and the inference model for this provider", mc["where"],
                   sample={"entry": e.name, "model": mc["model"], "image": repr(img)})
        res.extra.setdefault("entries", {})[e.name] = {
            "obligations": len(I.obligations), "functions_interpreted": len(I.calls_interpreted), "model_calls": [f"{m['model']}<-{m['image']!r}" for m in I.leaves.model_calls],
            "assumed_passthrough": dict(I.assumed_passthrough), "tops": I.tops[:5],
            "yielded": {k: repr(v) for k, v in cells.items() if k in ("pred_instance_peaks", "instance_bbox", "centroids", "image", "instance_image", "eff_scale")},
        }
    res.count(f"{prefix}-entries", n)


def check_conv(prog: Program, res: Result) -> None:
    fi = prog.func("sleap_nn.inference.predictors:Predictor._convert_tensors_to_numpy")
    res.touch(fi)
    allowed = {"items", "isinstance", "cpu", "numpy"}
    used = set()
    for c in walk_function(fi.node):
        if isinstance(c, ast.Call):
            used.add(c.func.attr if isinstance(c.func, ast.Attribute) else norm(c.func))
    arith = [n for n in walk_function(fi.node) if isinstance(n, (ast.BinOp, ast.AugAssign))]
    res.ob("C02-conv", used <= allowed and not arith, fi.qualname, "only converts tensor types (premise of the identity contract)",
           f"_convert_tensors_to_numpy does more than .cpu().numpy(): calls {sorted(used - allowed)}, arithmetic {len(arith)}", fi.where)
    # make_centered_bboxes lists the top-left corner first (premise of R-corner)
    mb = prog.func("sleap_nn.data.instance_cropping:make_centered_bboxes")
    res.touch(mb)
    rets = [n for n in walk_function(mb.node) if isinstance(n, ast.Return) and n.value is not None]
    ok = False
    if len(rets) == 1:
        full = astq.expand(mb.node, rets[0].value)
        stacks = [c for c in ast.walk(full) if isinstance(c, ast.Call) and norm(c.func).split(".")[-1] == "stack" and c.args and isinstance(c.args[0], (ast.List, ast.Tuple))
                  and len(c.args[0].elts) == 4]
        firsts = [c.args[0].elts[0] for c in stacks]
        if len({norm(f_) for f_ in firsts}) == 1:
            f0 = firsts[0]
            # the first corner is stack([x - w/2, y - h/2], last axis)
            dim = astq.call_arg(f0, 1, "dim") if isinstance(f0, ast.Call) else None
            pts = f0.args[0].elts if isinstance(f0, ast.Call) and norm(f0.func).split(".")[-1] == "stack" and f0.args and isinstance(f0.args[0], (ast.List, ast.Tuple)) else []
            ok = len(pts) == 2 and astq.const_value(dim) == -1 and [norm(p_).replace(" ", "") for p_ in pts] == ["centroids[...,0]-box_width/2", "centroids[...,1]-box_height/2"]
    res.ob("C02-corner", ok, mb.qualname, "corner 0 is (x - w/2, y - h/2), the top-left corner",
           "make_centered_bboxes no longer lists (x - box_width/2, y - box_height/2) as its first corner", mb.where)


def check(prog: Program, res: Result) -> None:
    from . import c14
    res.borrow(c14.check_state, "C02-state", prog)
    check_entries(prog, res, ("single", "topdown"))
    check_conv(prog, res)
    # crops inherit eff_scale / orig_size / image of the frame their centroid was found in (shared with C12-crop)
    c12.check_crop(prog, res, rule="C02-frame")
    # sub-pixel refinement crops the patch of each peak from that peak's own map (shared with C07-valid / C06-index)
    from . import c06, c07
    res.borrow(c07.check_valid, "C02-refine", prog)
    res.borrow(c06.check_refine, "C02-refine", prog)
    res.borrow(c12.check_align, "C02-frame", prog)
    res.borrow(c12.check_no_batch_wide_guard, "C02-frame", prog)   # every frame is corrected by its OWN eff_scale
    # premises of the units analysis: the library contracts it uses for apply_sizematcher / crop_bboxes hold (C04)
    from . import c04
    res.borrow(c04.check_contract_premises, "C02-leaf", prog)
    res.borrow(c04.check_size, "C02-leaf", prog)
    res.floor("C02-out", 8)
    res.floor("C02-own", 7)
    res.floor("C02-pad", 2)
    res.floor("C02-reg", 2)
    res.floor("C02-corner", 3)
    res.assumptions += ["half-stride accuracy, NaN/0 for invisible keypoints and pixel equality of the two providers are not decided",
                        "sio.PredictedInstance.from_numpy receives coordinates unchanged"]


Q = "sleap_nn/inference/predictors.py"
T = "sleap_nn/inference/topdown.py"
S_ = "sleap_nn/inference/single_instance.py"
VARIANTS = [
    Variant("frame-filtered-zip", T, "        for centroid, centroid_val, image, fidx, vidx, sz, eff_sc in zip(\n            self.refined_peaks_batched,",
            "        kept = [c for c in self.refined_peaks_batched if not torch.isnan(c).all()]\n        for centroid, centroid_val, image, fidx, vidx, sz, eff_sc in zip(\n            kept,", "C02-frame"),
    Variant("d6-labels-no-preprocess", Q, "            ][\"max_stride\"]\n\n            self.preprocess = True\n            self.preprocess_config = {\n                \"batch_size\": self.batch_size,\n                \"scale\": self.confmap_config.data_config.preprocessing.scale,",
            "            ][\"max_stride\"]\n\n            self.preprocess = False\n            self.preprocess_config = {\n                \"batch_size\": self.batch_size,\n                \"scale\": self.confmap_config.data_config.preprocessing.scale,", "C02-o"),
    Variant("d8-crops-before-resize", T, "                self.refined_peaks_batched = scaled_refined_peaks\n                crops_dict = self._generate_crops(inputs)\n                return crops_dict\n            else:\n                return inputs",
            "                crops_dict = self._generate_crops(inputs)\n                self.refined_peaks_batched = scaled_refined_peaks\n                return crops_dict\n            else:\n                return inputs", "C02-"),
    Variant("single-no-eff", S_, "        peak_points = peak_points / (\n            inputs[\"eff_scale\"].unsqueeze(dim=1).unsqueeze(dim=2)\n        ).to(peak_points.device)\n", "", "C02-out"),
    Variant("single-stride-twice", S_, "        peak_points = peak_points * self.output_stride\n", "        peak_points = peak_points * self.output_stride * self.output_stride\n", "C02-out"),
    Variant("single-scale-inverted", S_, "            peak_points = peak_points / self.input_scale", "            peak_points = peak_points * self.input_scale", "C02-out"),
    Variant("topdown-bbox-not-rescaled", T, "        inputs[\"instance_bbox\"] = inputs[\"instance_bbox\"] / self.input_scale\n\n", "", "C02-out"),
    Variant("topdown-centroid-stride-from-confmap", Q, "                output_stride=self.centroid_config.model_config.head_configs.centroid.confmaps.output_stride,",
            "                output_stride=self.confmap_config.model_config.head_configs.centered_instance.confmaps.output_stride,", "C02-reg"),
    Variant("topdown-precrop-from-centroid", Q, "            centroid_crop_layer.precrop_resize = (\n                self.confmap_config.data_config.preprocessing.scale\n            )",
            "            centroid_crop_layer.precrop_resize = (\n                self.centroid_config.data_config.preprocessing.scale\n            )", "C02-o"),
    Variant("topdown-no-bbox-offset", Q, "                pred_instances = pred_instances + bbox.squeeze(axis=0)[0, :]\n", "", "C02-out"),
    Variant("topdown-wrong-corner", Q, "                pred_instances = pred_instances + bbox.squeeze(axis=0)[0, :]\n", "                pred_instances = pred_instances + bbox.squeeze(axis=0)[2, :]\n", "C02-corner"),
    Variant("topdown-peaks-not-precrop-scaled", T, "                    scaled_refined_peaks.append(ref_peak * self.precrop_resize)\n                self.refined_peaks_batched = scaled_refined_peaks\n\n                inputs.update(",
            "                    scaled_refined_peaks.append(ref_peak)\n                self.refined_peaks_batched = scaled_refined_peaks\n\n                inputs.update(", "C02-reg"),
    Variant("generator-resize-without-scale", Q, "                            ex[\"image\"] = resize_image(ex[\"image\"], scale)", "                            ex[\"image\"] = resize_image(ex[\"image\"], scale * scale)", "C02-o"),
    Variant("pad-left", "sleap_nn/data/resizing.py", "            image = F.pad(\n                image,\n                (0, pad_width, 0, pad_height),\n                mode=\"constant\",\n            ).to(torch.float32)\n    return image",
            "            image = F.pad(\n                image,\n                (pad_width, 0, pad_height, 0),\n                mode=\"constant\",\n            ).to(torch.float32)\n    return image", "C02-pad"),
    Variant("gt-peaks-no-eff", T, "        if peaks.size(0) != 0:\n            peaks = peaks / (", "        if peaks.size(0) == -1:\n            peaks = peaks / (", "C02-out"),
    Variant("bp-divide-combined", S_, "        peak_points = peak_points * self.output_stride\n        if self.input_scale != 1.0:\n            peak_points = peak_points / self.input_scale\n",
            "        peak_points = peak_points * (self.output_stride / self.input_scale)\n", None),
    Variant("bp-eff-first", S_, "        peak_points = peak_points * self.output_stride\n", "        factor = self.output_stride\n        peak_points = factor * peak_points\n", None),
]
