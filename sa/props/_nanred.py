"""Reductions over keypoints must be NaN-aware: a missing keypoint is NaN, and a plain min/max/mean/median over the
nodes turns the whole box / centroid / area into NaN (or, with a masked reduction and a non-neutral `initial=`, clamps
it).  Accepted: np.nanmin/nanmax/nanmean/nanmedian/nansum (and the torch equivalents), or min/max/sum with
`where=<not-NaN mask>` and the neutral initial value (+inf for min, -inf for max, 0 for sum)."""

from __future__ import annotations

import ast
from typing import Iterable

from ..core import astq
from ..core.program import Program, norm, short, walk_function
from ..report import Result

NAN_AWARE = {"nanmin", "nanmax", "nanmean", "nanmedian", "nansum"}
PLAIN = {"min": "+inf", "max": "-inf", "amin": "+inf", "amax": "-inf", "sum": "0", "mean": None, "median": None}
INF = {"np.inf", "numpy.inf", "float('inf')", "math.inf", "torch.inf"}


def check_nan_reductions(prog: Program, res: Result, R: str, quals: Iterable[str], floor: int = 1) -> None:
    n = 0
    for q in quals:
        fi = prog.func(q)
        res.touch(fi)
        params = set(fi.pos_params)
        dep = astq.dep_closure(list(fi.node.body), params)
        for c in walk_function(fi.node):
            if not isinstance(c, ast.Call):
                continue
            name = norm(c.func).split(".")[-1]
            if name not in NAN_AWARE and name not in PLAIN:
                continue
            lib = norm(c.func).split(".")[0] in ("np", "numpy", "torch")
            operand = c.args[0] if (lib and c.args) else (c.func.value if isinstance(c.func, ast.Attribute) and not lib else None)
            if operand is None or not (astq.names_in(operand) & dep):
                continue
            n += 1
            where = f"{fi.module.relpath}:{c.lineno}"
            if name in NAN_AWARE:
                res.ob(R, True, fi.qualname, f"NaN-aware reduction {short(c, 40)}", "", where)
                continue
            kw = {k.arg: k.value for k in c.keywords}
            neutral = PLAIN[name]
            if "where" in kw and neutral is not None:
                init = norm(kw["initial"]) if "initial" in kw else None
                ok = (neutral == "+inf" and init in INF) or (neutral == "-inf" and init in {"-" + i for i in INF}) or (neutral == "0" and (init is None or astq.const_value(kw["initial"]) == 0))
                res.ob(R, ok, fi.qualname, f"masked {name} with the neutral initial value {neutral}",
                       f"`{short(c, 70)}`: a masked {name} must start from {neutral}; initial={init} clamps the result (a bounding box is stretched to the origin / the "
                       "maximum is never below 0), so the value changes under translation", where)
            else:
                res.ob(R, False, fi.qualname, f"NaN-aware reduction instead of {name}",
                       f"`{short(c, 60)}` reduces over the keypoints with a plain {name}: one missing (NaN) keypoint makes the whole result NaN "
                       "(IoU / distance NaN -> infinite cost -> the detection cannot be matched, or the solver raises)", where)
    res.ob(R, n >= floor, ",".join(q.split(":")[1] for q in quals), "keypoint reductions found", f"only {n} reductions over keypoints found", "")
