"""C09 — tracking never drops, duplicates or double-assigns detections, never crashes.

Structural necessary conditions T1..T6 (DESIGN.md C09)."""

from __future__ import annotations

import ast
from typing import Dict, List, Optional, Set, Tuple

from ..core import astq
from ..core.cfg import CFG
from ..core.program import AnalysisError, ClassInfo, FunctionInfo, Program, ancestors, enclosing_stmt, norm, short, walk_function
from ..engines.inftaint import InfTaint
from ..report import Result
from ..runner import Variant
from . import _match

PROP = "C09"
EXPLANATION = (
    "Necessary structural conditions of the tracker's contract, decided on the source of both candidate classes and of "
    "Tracker: (alloc) a new id is 0 or max(current_tracks)+1, and on every path of add_new_tracks from its allocation "
    "to the next iteration the id is stored on the instance and appended to current_tracks exactly once; current_tracks "
    "is appended only there and never shrinks; (truth) emptiness of the matcher's output is tested by length, never by "
    "any()/all() over index values; (arity) no call passes an element where the callee iterates a List[T] parameter; "
    "(once) track() emits each tracked instance through at most one append per iteration, skipping only instances "
    "without a track id, and returns that list; (iface) every self.candidate.<m>(...) call resolves with a fitting "
    "signature in BOTH candidate classes; (match) greedy_matching is one-to-one: in the edge-list idiom every edge sharing the "
    "chosen row OR column is deleted (backwards), in the masked arg-min idiom row AND column are masked on a private copy and "
    "a non-finite minimum leaves the loop; (inf) no infinite cost constant can flow into scipy linear_sum_assignment "
    "(inter-procedural taint through returns, arguments and the matching-method registry)."
)
TRUSTED = [
    "CPython ast", "networkx reachability",
    "scipy.optimize.linear_sum_assignment raises ValueError('cost matrix is infeasible') when no complete assignment avoids infinite entries",
]

FW = "sleap_nn.tracking.candidates.fixed_window:FixedWindowCandidates"
LQ = "sleap_nn.tracking.candidates.local_queues:LocalQueueCandidates"
TRK = "sleap_nn.tracking.tracker:Tracker"
CANDS = [FW, LQ]


# ---------------------------------------------------------------- alloc
def check_alloc(prog: Program, res: Result, rule: str = "C09-alloc") -> None:
    for cq in CANDS:
        ci = prog.cls(cq)
        for m in ("get_new_track_id", "add_new_tracks", "__init__"):
            if m not in ci.methods:
                raise AnalysisError(f"{cq}.{m} vanished")
        g = ci.methods["get_new_track_id"]
        res.touch(g)
        # every path of get_new_track_id (if/else, guard clause or conditional expression): the value returned and the
        # branch decisions it was returned under
        paths = []
        for conds, v in astq.path_returns(g.node) or []:
            todo = [(list(conds), v)]
            while todo:
                cs_, v_ = todo.pop()
                if isinstance(v_, ast.IfExp):
                    todo += [(cs_ + [(v_.test, True)], v_.body), (cs_ + [(v_.test, False)], v_.orelse)]
                else:
                    paths.append((cs_, v_))
        texts = sorted({norm(v) for _, v in paths if v is not None})
        # len(current_tracks) equals max+1 because ids are exactly 0..n-1 (registered once each, never removed: checked below)
        ok = texts in (["0", "max(self.current_tracks) + 1"], ["0", "len(self.current_tracks)"], ["len(self.current_tracks)"])
        res.ob(rule, ok, g.qualname, "new id is 0 or max(self.current_tracks) + 1",
               f"a new track id is computed as {texts}: ids may be reused or collide (two animals with one identity)", g.where,
               sample={"values": texts})

        def _says_empty(t_, taken_):
            """the decision (t_, taken_) says that self.current_tracks is empty"""
            neg_ = isinstance(t_, ast.UnaryOp) and isinstance(t_.op, ast.Not)
            core_ = t_.operand if neg_ else t_
            if norm(core_) == "self.current_tracks":
                return taken_ == neg_          # `not tracks` taken, or `tracks` not taken
            if isinstance(core_, ast.Compare) and len(core_.ops) == 1 and norm(core_.left) == "len(self.current_tracks)" and astq.const_value(core_.comparators[0]) == 0:
                is_eq = isinstance(core_.ops[0], ast.Eq)
                is_pos = isinstance(core_.ops[0], (ast.Gt, ast.NotEq))
                return (is_eq and taken_ != neg_) or (is_pos and taken_ == neg_)
            return False

        zeros = [(cs_, v_) for cs_, v_ in paths if v_ is not None and norm(v_) == "0"]
        zero_guard = bool(zeros) and all(any(_says_empty(t_, tk_) for t_, tk_ in cs_) for cs_, _ in zeros)
        res.ob(rule, zero_guard or texts == ["len(self.current_tracks)"], g.qualname, "id 0 only when no track exists",
               "id 0 is not guarded by `not self.current_tracks`", g.where)

        a = ci.methods["add_new_tracks"]
        res.touch(a)
        cfg = CFG(a.node)
        allocs = [c for c, q in prog.calls_in(a) if q == g.qualname]
        res.ob(rule, len(allocs) == 1, a.qualname, "one allocation site", f"{len(allocs)} allocation sites in add_new_tracks", a.where)
        for c in allocs:
            st = enclosing_stmt(c)
            if not (isinstance(st, ast.Assign) and isinstance(st.targets[0], ast.Name)):
                res.inconclusive(f"{a.qualname}: allocated id not bound to a name")
                continue
            idn = st.targets[0].id
            loops = astq.enclosing_loops(c)
            heads = cfg.nodes_of(loops[0]) if loops else []
            an = cfg.stmt_nodes_containing(c)
            appends = [x for x in astq.method_calls(a.node, "append") if norm(x.func.value) == "self.current_tracks"]
            good = [x for x in appends if len(x.args) == 1 and norm(x.args[0]) == idn]
            apn = {n for x in good for n in cfg.stmt_nodes_containing(x)}
            succ = [m for n in an for m in cfg.g.successors(n) if "exc" not in cfg.g[n][m]["labels"]]
            w = cfg.must_pass(succ, heads + [cfg.exit], apn,
                              drop_edge=lambda x, y, labels: "exc" in labels)
            res.ob(rule, bool(good) and w is None, a.qualname, f"allocated id `{idn}` registered in current_tracks in the same iteration",
                   f"after allocating `{idn}` a path reaches the next iteration without `self.current_tracks.append({idn})`: the next "
                   f"animal of the same frame gets the same id ({cfg.path_str(w) if w else 'no such append'})",
                   f"{a.module.relpath}:{c.lineno}", derivation={"path": cfg.path_str(w)} if w else None,
                   sample={"id": idn, "cfg": cfg.stats()})
            twice = any(cfg.reachable_from([m for m in cfg.g.successors(p)], avoid=heads) & apn for p in apn)
            res.ob(rule, not twice, a.qualname, "id appended once", "the allocated id can be appended twice in one iteration", a.where)
            # the id is stored on the instance
            stores = []
            for n in walk_function(a.node):
                if not (isinstance(n, ast.Assign) and len(n.targets) == 1):
                    continue
                t_, v_ = n.targets[0], n.value
                # x.track_id = id   or one component of   x.track_id, x.score = id, 1.0
                pairs_ = list(zip(t_.elts, v_.elts)) if isinstance(t_, (ast.Tuple, ast.List)) and isinstance(v_, (ast.Tuple, ast.List)) and len(t_.elts) == len(v_.elts) else [(t_, v_)]
                if any(isinstance(vv_, ast.Name) and vv_.id == idn and "track_id" in norm(tt_) for tt_, vv_ in pairs_):
                    stores.append(n)
            sn = {n for x in stores for n in cfg.stmt_nodes_containing(x)}
            w = cfg.must_pass(succ, heads + [cfg.exit], sn, drop_edge=lambda x, y, labels: "exc" in labels)
            res.ob(rule, bool(stores) and w is None, a.qualname, f"allocated id `{idn}` stored on the instance",
                   f"the allocated id is not assigned to the instance's track id on every path", f"{a.module.relpath}:{c.lineno}")
        # ownership of current_tracks
    n_mut = 0
    for fi in prog.all_functions():
        if not fi.module.name.startswith("sleap_nn.tracking") and "current_tracks" not in fi.module.src:
            continue
        for n in walk_function(fi.node):
            if isinstance(n, ast.Attribute) and n.attr == "current_tracks":
                par = getattr(n, "_parent", None)
                gp = getattr(par, "_parent", None)
                if isinstance(par, ast.Attribute) and isinstance(gp, ast.Call) and gp.func is par:
                    if par.attr == "append":
                        n_mut += 1
                        res.ob(rule, fi.name == "add_new_tracks" and fi.cls is not None and fi.cls.qualname in CANDS, fi.qualname,
                               f"{short(gp, 60)} only in add_new_tracks", "current_tracks is appended outside add_new_tracks",
                               f"{fi.module.relpath}:{n.lineno}")
                    elif par.attr in ("remove", "pop", "clear", "extend", "insert", "sort", "reverse"):
                        res.ob(rule, False, fi.qualname, f"{short(gp, 60)}",
                               f"current_tracks.{par.attr}(): the id list must only grow by registered allocations "
                               "(a removed id is handed out again; the score matrix is indexed by id)", f"{fi.module.relpath}:{n.lineno}")
                elif isinstance(n.ctx, (ast.Store, ast.Del)):
                    ok = fi.name == "__init__" and isinstance(par, ast.Assign) and norm(par.value) == "[]"
                    res.ob(rule, ok, fi.qualname, f"{short(par, 60)}", "current_tracks is rebound outside the constructor",
                           f"{fi.module.relpath}:{n.lineno}")
                elif isinstance(par, ast.Subscript) and isinstance(par.ctx, (ast.Store, ast.Del)):
                    res.ob(rule, False, fi.qualname, f"{short(par, 60)}", "current_tracks is modified by index", f"{fi.module.relpath}:{n.lineno}")
    res.floor(rule, 14)


# ---------------------------------------------------------------- truth
def index_containers(fn: ast.AST) -> Set[str]:
    """Names whose ELEMENTS are used as indices (subscript positions) in this function."""
    out: Set[str] = set()
    elem_of: Dict[str, Set[str]] = {}
    for n in walk_function(fn):
        if isinstance(n, (ast.For, ast.comprehension)):
            it, tgt = n.iter, n.target
            if isinstance(it, ast.Call) and norm(it.func) == "enumerate" and it.args and isinstance(tgt, ast.Tuple) and len(tgt.elts) == 2:
                it, tgt = it.args[0], tgt.elts[1]
            srcs = it.args if isinstance(it, ast.Call) and norm(it.func) == "zip" else [it]
            tgts = tgt.elts if isinstance(tgt, ast.Tuple) and len(srcs) == len(getattr(tgt, "elts", [])) else [tgt]
            if len(srcs) == len(tgts):
                for s, t in zip(srcs, tgts):
                    if isinstance(s, ast.Name) and isinstance(t, ast.Name):
                        elem_of.setdefault(t.id, set()).add(s.id)
    used_as_index: Set[str] = set()
    for n in walk_function(fn):
        if isinstance(n, ast.Subscript):
            for m in ast.walk(n.slice):
                if isinstance(m, ast.Name):
                    used_as_index.add(m.id)
        if isinstance(n, ast.Compare) and len(n.ops) == 1 and isinstance(n.ops[0], (ast.In, ast.NotIn)) and isinstance(n.comparators[0], ast.Name):
            # `x not in row_inds` with x ranging over positions
            out.add(n.comparators[0].id) if isinstance(n.left, ast.Name) else None
    for e, cs in elem_of.items():
        if e in used_as_index:
            out |= cs
    return out


def check_truth(prog: Program, res: Result) -> None:
    n_fn = 0
    for fi in prog.all_functions():
        if not fi.module.name.startswith("sleap_nn.tracking"):
            continue
        idx = index_containers(fi.node)
        if not idx:
            continue
        n_fn += 1
        res.touch(fi)
        for n in walk_function(fi.node):
            if not isinstance(n, ast.Call):
                continue
            fname = norm(n.func)
            arg = None
            if fname in ("np.any", "np.all", "numpy.any", "numpy.all", "any", "all", "bool") and n.args:
                arg = n.args[0]
            elif isinstance(n.func, ast.Attribute) and n.func.attr in ("any", "all") and not n.args:
                arg = n.func.value
            if isinstance(arg, ast.Name) and arg.id in idx:
                res.ob("C09-truth", False, fi.qualname, f"{short(n, 40)}",
                       f"`{short(n, 40)}` tests the VALUES of the index container `{arg.id}`: index 0 is falsy, so a match of "
                       "instance 0 / track 0 counts as 'no match' and the detection loses its track", f"{fi.module.relpath}:{n.lineno}")
        # the guards that are there are length tests
        for n in walk_function(fi.node):
            if isinstance(n, ast.If):
                for c in ast.walk(n.test):
                    if isinstance(c, ast.Call) and norm(c.func) == "len" and c.args and isinstance(c.args[0], ast.Name) and c.args[0].id in idx:
                        res.ob("C09-truth", True, fi.qualname, f"length test {short(n.test, 60)}", "", sample=short(n.test, 60))
                    if isinstance(c, ast.Name) and c.id in idx and isinstance(getattr(c, "_parent", None), (ast.If, ast.BoolOp, ast.UnaryOp)):
                        res.count("C09-truth")
    # track ids are integers starting at 0: "has a track" is `is not None`, never truthiness
    def _truthy_operands(t):
        if isinstance(t, ast.BoolOp):
            for v in t.values:
                yield from _truthy_operands(v)
        elif isinstance(t, ast.UnaryOp) and isinstance(t.op, ast.Not):
            yield from _truthy_operands(t.operand)
        elif isinstance(t, (ast.Name, ast.Attribute, ast.Subscript)):
            yield t

    n_tid = 0
    for fi in prog.all_functions():
        if not fi.module.name.startswith("sleap_nn.tracking"):
            continue
        for n in walk_function(fi.node):
            tests = [n.test] if isinstance(n, (ast.If, ast.While, ast.IfExp)) else ([i_ for g_ in n.generators for i_ in g_.ifs] if isinstance(n, (ast.ListComp, ast.GeneratorExp, ast.SetComp, ast.DictComp)) else [])
            for t in tests:
                for c in ast.walk(t):
                    if isinstance(c, ast.Compare) and any(isinstance(o, (ast.Is, ast.IsNot)) for o in c.ops) and "track_id" in norm(c.left):
                        n_tid += 1
                        res.ob("C09-truth", True, fi.qualname, f"track id tested by identity: {short(c, 50)}", "", sample=short(c, 60))
                for o in _truthy_operands(t):
                    if isinstance(o, ast.Name):
                        # a LIST of ids tested for emptiness is not an id tested for truth
                        binds = [getattr(b_, "value", None) for b_ in astq.assignments_to(fi.node, o.id)]
                        is_list = bool(binds) and all(isinstance(v_, (ast.List, ast.ListComp)) or (isinstance(v_, ast.Call) and norm(v_.func) == "list") for v_ in binds)
                        if is_list:
                            continue
                    x = astq.xnorm(fi.node, o)
                    if "track_id" in x and "track_ids)" not in x:
                        res.touch(fi)
                        res.ob("C09-truth", False, fi.qualname, f"truthiness of a track id: {short(o, 40)}",
                               f"`{short(t, 50)}` tests a track id by truthiness: track id 0 is falsy, so the animal holding track 0 is treated as untracked "
                               "(it gets a second identity / loses its track)", f"{fi.module.relpath}:{o.lineno}")
    res.extra["functions_with_index_containers"] = n_fn
    res.floor("C09-truth", 2)


# ---------------------------------------------------------------- arity
def _list_annotated(ann: Optional[ast.AST]) -> bool:
    return ann is not None and norm(ann).startswith(("List[", "typing.List[", "list["))


def check_arity(prog: Program, res: Result) -> None:
    for fi in prog.all_functions():
        if not fi.module.name.startswith("sleap_nn.tracking"):
            continue
        caller_ann = fi.annotations()
        for call, q in prog.calls_in(fi):
            targets: List[FunctionInfo] = []
            if q in prog.functions:
                targets = [prog.functions[q]]
            elif isinstance(call.func, ast.Attribute) and astq.self_alias(fi.node, call.func.value) == "self.candidate":
                targets = [m for m in (prog.cls(c).methods.get(call.func.attr) for c in CANDS) if m is not None]
            for callee in targets:
                bound = astq.bind_args(callee, call, skip_self=callee.cls is not None)
                cann = callee.annotations()
                for pname, arg in bound.items():
                    if not _list_annotated(cann.get(pname)):
                        continue
                    iterates = any(isinstance(n, (ast.For, ast.comprehension)) and isinstance(n.iter, ast.Name) and n.iter.id == pname
                                   for n in walk_function(callee.node))
                    if not iterates:
                        continue
                    is_elem = (
                        isinstance(arg, ast.Subscript) and not isinstance(arg.slice, ast.Slice) and isinstance(arg.value, ast.Name)
                        and _list_annotated(caller_ann.get(arg.value.id))
                    )
                    res.ob("C09-arity", not is_elem, fi.qualname, f"{callee.name}({pname}={short(arg, 40)})",
                           f"`{short(arg, 40)}` is one element of the list `{getattr(getattr(arg, 'value', None), 'id', '?')}` but "
                           f"{callee.qualname} iterates its parameter `{pname}: {norm(cann[pname])}` -> TypeError: object is not iterable",
                           f"{fi.module.relpath}:{call.lineno}", sample={"callee": callee.qualname, "arg": short(arg, 40)})
    res.floor("C09-arity", 4)


# ----------------------------------------------------------------- once
def check_once(prog: Program, res: Result) -> None:
    ci = prog.cls(TRK)
    fi = ci.methods.get("track")
    if fi is None:
        raise AnalysisError("Tracker.track vanished")
    res.touch(fi)
    fn = fi.node
    cfg = CFG(fn)
    rets = [n for n in walk_function(fn) if isinstance(n, ast.Return) and n.value is not None]
    res.ob("C09-once", 1 <= len(rets) <= 2 and all(isinstance(r.value, ast.Name) for r in rets), fi.qualname, "every return yields an output list",
           "track() does not return its output list(s) by name", fi.where)
    if not rets or not all(isinstance(r.value, ast.Name) for r in rets):
        return
    outs = {r.value.id for r in rets}
    res.ob("C09-once", len(outs) == 1, fi.qualname, "one output list name", f"returns {sorted(outs)}", fi.where)
    out = rets[0].value.id
    appends = [c for c in astq.method_calls(fn, "append") if isinstance(c.func.value, ast.Name) and c.func.value.id == out]
    # with one return per branch, each return is reached by exactly one of the append loops
    if len(rets) == 2:
        for r in rets:
            rn = set(cfg.stmt_nodes_containing(r))
            reach = [c for c in appends if cfg.reachable_from(cfg.stmt_nodes_containing(c)) & rn]
            res.ob("C09-once", len(reach) == 1, fi.qualname, "each return is fed by one emitting loop", f"{len(reach)} emitting loops reach `{short(r, 40)}`", f"{fi.module.relpath}:{r.lineno}")
    others = [c for n in walk_function(fn) if isinstance(n, ast.Call) and isinstance(n.func, ast.Attribute)
              and isinstance(n.func.value, ast.Name) and n.func.value.id == out and n.func.attr not in ("append",) for c in [n]]
    res.ob("C09-once", not others, fi.qualname, "output list only appended to", f"the output list is modified by {[short(o, 30) for o in others]}", fi.where)
    res.ob("C09-once", len(appends) == 2, fi.qualname, "one append per candidate-method branch", f"{len(appends)} appends to the output list", fi.where)
    tracked = None
    for st in walk_function(fn):
        if isinstance(st, ast.Assign) and isinstance(st.value, ast.Call) and norm(st.value.func) in ("self.assign_tracks", "self.candidate.add_new_tracks"):
            tracked = st.targets[0].id if isinstance(st.targets[0], ast.Name) else tracked
    for c in appends:
        loops = astq.enclosing_loops(c)
        res.ob("C09-once", len(loops) == 1, fi.qualname, f"append in one loop: {short(c, 50)}", "append is not inside exactly one loop", f"{fi.module.relpath}:{c.lineno}")
        if len(loops) != 1:
            continue
        loop = loops[0]
        heads = cfg.nodes_of(loop)
        an = set(cfg.stmt_nodes_containing(c))
        twice = any(cfg.reachable_from(list(cfg.g.successors(p)), avoid=heads) & an for p in an)
        res.ob("C09-once", not twice, fi.qualname, f"at most one append per iteration: {short(c, 50)}",
               "an instance can be appended twice in one iteration (duplicate detection in the output)", f"{fi.module.relpath}:{c.lineno}")
        # the loop ranges over the tracked instances of this frame
        it = loop.iter
        base = it.args[0] if isinstance(it, ast.Call) and norm(it.func) == "enumerate" and it.args else it
        ok_iter = tracked is not None and tracked in astq.names_in(base)
        res.ob("C09-once", ok_iter, fi.qualname, f"loop over this frame's tracked instances: {short(it, 50)}",
               f"the emitting loop iterates `{short(it, 50)}`, not the instances tracked in this call", f"{fi.module.relpath}:{loop.lineno}")
        # the appended object is the loop element's source instance
        seeds = astq.target_names(loop.target)
        dep = astq.dep_closure(loop.body, seeds)
        arg = c.args[0] if c.args else None
        res.ob("C09-once", arg is not None and bool(astq.loads_in(arg) & dep), fi.qualname, f"appended value derives from the loop element: {short(arg, 40) if arg else ''}",
               "the appended instance does not come from the loop element (an instance that was not given may be returned)", f"{fi.module.relpath}:{c.lineno}")
        # guards that may skip the append: only `<track id> is not None`
        guards = [a for a in ancestors(c) if isinstance(a, ast.If) and astq.in_body_of(a, loop, "body")]
        for g in guards:
            t = g.test
            ok = isinstance(t, ast.Compare) and len(t.ops) == 1 and isinstance(t.ops[0], ast.IsNot) and isinstance(t.comparators[0], ast.Constant) \
                and t.comparators[0].value is None and "track_id" in norm(t.left)
            res.ob("C09-once", ok, fi.qualname, f"only untracked instances are skipped: if {short(t, 40)}",
                   f"the append is guarded by `{short(t, 50)}`: tracked detections can be dropped from the output", f"{fi.module.relpath}:{g.lineno}")
        # no break / continue / return inside the loop body that skips elements
        def _untracked_skip(j) -> bool:
            """`continue` taken only for an element without a track id (`if <track id> is None: continue`)."""
            if not isinstance(j, ast.Continue):
                return False
            gs = [a for a in ancestors(j) if isinstance(a, ast.If) and astq.in_body_of(a, loop, "body")]
            if len(gs) != 1 or not astq.in_body_of(j, gs[0], "body"):
                return False
            x = astq.is_none_test(gs[0].test)
            return x is not None and "track_id" in astq.xnorm(fn, x, keep=list(seeds))

        jumps = [n for st in loop.body for n in ast.walk(st) if isinstance(n, (ast.Break, ast.Continue, ast.Return)) and not _untracked_skip(n)]
        res.ob("C09-once", not jumps, fi.qualname, "no break/continue/return in the emitting loop (other than skipping untracked elements)",
               "the emitting loop can be left early (detections dropped)", f"{fi.module.relpath}:{loop.lineno}")
    res.floor("C09-once", 12)


# ---------------------------------------------------------------- iface
def check_iface(prog: Program, res: Result) -> None:
    used_attrs: Set[str] = set()
    for fi in prog.all_functions():
        if not fi.module.name.startswith("sleap_nn.tracking.tracker"):
            continue
        for n in walk_function(fi.node):
            if isinstance(n, ast.Attribute) and astq.self_alias(fi.node, n.value) == "self.candidate":
                par = getattr(n, "_parent", None)
                if isinstance(par, ast.Call) and par.func is n:
                    res.touch(fi)
                    # a call under `if self.is_local_queue:` concerns that candidate class only
                    only = None
                    for a in ancestors(n):
                        if isinstance(a, ast.If) and norm(a.test) == "self.is_local_queue":
                            only = LQ if astq.in_body_of(n, a, "body") else FW
                            break
                    for cq in CANDS:
                        if only is not None and cq != only:
                            continue
                        ci = prog.cls(cq)
                        m = prog.lookup_method(ci, n.attr)
                        ok = m is not None
                        why = f"{ci.name} has no method `{n.attr}`"
                        if m is not None:
                            pos = [p for p in m.pos_params if p != "self"]
                            defaults = m.param_defaults()
                            given_pos = len(par.args)
                            kw = {k.arg for k in par.keywords if k.arg}
                            missing = [p for i, p in enumerate(pos) if i >= given_pos and p not in kw and p not in defaults]
                            unknown = [k for k in kw if k not in pos]
                            ok = given_pos <= len(pos) and not missing and not unknown
                            why = f"{ci.name}.{n.attr}{tuple(pos)} does not accept this call (missing {missing}, unknown {unknown})"
                        res.ob("C09-iface", ok, fi.qualname, f"self.candidate.{n.attr}(...) fits {ci.name}", why + " -> TypeError/AttributeError for that candidate method",
                               f"{fi.module.relpath}:{n.lineno}")
                else:
                    used_attrs.add(n.attr)
    for cq in CANDS:
        ci = prog.cls(cq)
        init = ci.methods["__init__"]
        assigned = {norm(t)[5:] for n in walk_function(init.node) if isinstance(n, ast.Assign) for t in n.targets if norm(t).startswith("self.")}
        for a in sorted(used_attrs):
            res.ob("C09-iface", a in assigned or a in ci.methods, ci.qualname, f"attribute {a} provided", f"{ci.name} does not provide `{a}` used by Tracker",
                   f"{ci.module.relpath}:{ci.node.lineno}")
    res.floor("C09-iface", 12)


# ------------------------------------------------------------------ inf
def check_inf(prog: Program, res: Result, rule: str, scope_prefix: str) -> None:
    it = InfTaint(prog)
    n = 0
    for f in it.findings(scope_prefix):
        n += 1
        res.ob(rule, False, f["function"], f["construct"], f["message"], f["where"], derivation=f["chain"])
    res.extra.setdefault("inf_taint", {})[scope_prefix] = it.stats(scope_prefix)
    res.count(rule, it.stats(scope_prefix)["sink_call_sites"])
    for fi in it.touched:
        res.touch(fi)
    res.floor(rule, 1)


def _unwrap_index_set(fn: ast.AST, e: ast.AST, depth: int = 4) -> ast.AST:
    """Strip set()/list()/frozenset()/np.asarray()/.tolist() wrappers and follow single-assignment names."""
    while depth > 0:
        depth -= 1
        if isinstance(e, ast.Call) and e.args and norm(e.func).split(".")[-1] in ("set", "list", "frozenset", "tuple", "asarray", "array", "unique"):
            e = e.args[0]
        elif isinstance(e, ast.Call) and isinstance(e.func, ast.Attribute) and e.func.attr in ("tolist", "copy"):
            e = e.func.value
        elif isinstance(e, ast.Name):
            d = astq.deref(fn, e, 1)
            if d is e or d is None:
                break
            e = d
        else:
            break
    return e


def check_unmatched(prog: Program, res: Result) -> None:
    """Detections the matcher left unassigned are the indices of current_instances NOT among the matched ROW indices
    (rows index detections, columns index track ids): only those may receive a fresh track."""
    R = "C09-unmatched"
    for cq in CANDS:
        u = prog.cls(cq).methods.get("update_tracks")
        if u is None:
            raise AnalysisError(f"{cq}.update_tracks vanished")
        res.touch(u)
        params = u.pos_params
        if len(params) < 4:
            raise AnalysisError(f"{u.qualname}: unexpected signature {params}")
        inst_p, row_p, col_p = params[1], params[2], params[3]
        tests = [c for c in walk_function(u.node) if isinstance(c, ast.Compare) and len(c.ops) == 1 and isinstance(c.ops[0], (ast.In, ast.NotIn))
                 and norm(_unwrap_index_set(u.node, c.comparators[0])) in (row_p, col_p)]
        if not tests:
            raise AnalysisError(f"{u.qualname}: no membership test of a detection index against the matched indices was found")
        for t in tests:
            where = f"{u.module.relpath}:{t.lineno}"
            src = norm(_unwrap_index_set(u.node, t.comparators[0]))
            res.ob(R, src == row_p, u.qualname, f"unmatched = indices not in the matched rows `{row_p}`",
                   f"`{short(t, 60)}` tests membership in `{src}`; the matched DETECTION indices are `{row_p}` (`{col_p}` holds track ids): a matched detection is "
                   "given a second, new track and the truly new one is returned without a track", where)
            # the tested index ranges over all current detections
            var = norm(t.left)
            src_it = None
            for a in ancestors(t):
                gens = a.generators if isinstance(a, (ast.ListComp, ast.GeneratorExp, ast.SetComp)) else []
                for g in gens:
                    if var in astq.target_names(g.target):
                        src_it = (g.iter, g.target)
                if isinstance(a, ast.For) and var in astq.target_names(a.target):
                    src_it = (a.iter, a.target)
                if src_it is not None:
                    break
            ok = False
            if src_it is not None:
                it, tg = src_it
                itx = astq.expand(u.node, it)
                if isinstance(itx, ast.Call) and norm(itx.func) == "range" and len(itx.args) == 1:
                    ok = norm(itx.args[0]).startswith(f"len({inst_p}")
                elif isinstance(itx, ast.Call) and norm(itx.func) == "enumerate" and itx.args and isinstance(tg, ast.Tuple) and norm(tg.elts[0]) == var:
                    ok = norm(itx.args[0]).startswith(inst_p)
            res.ob(R, ok, u.qualname, f"candidates range over all current detections: {short(src_it[0], 50) if src_it else '?'}",
                   f"unmatched detections are searched in `{short(src_it[0], 50) if src_it else '?'}`, not in all of `{inst_p}`", where)
    res.floor(R, 4)


def check_pass(prog: Program, res: Result) -> None:
    """(pass) Tracker.assign_tracks hands the matcher's COMPLETE output to update_tracks: a match removed in between is a
    detection that is neither assigned nor - because of update_tracks' `len(row_inds) > 0` guard - given a new track.
    (queue) FixedWindowCandidates.add_new_tracks appends the frame to the window only when it created a track in this
    call: a track-less first frame in the queue makes track() take the matching branch with zero tracks forever."""
    R = "C09-pass"
    tr = prog.cls(TRK).methods.get("assign_tracks")
    if tr is None:
        raise AnalysisError("Tracker.assign_tracks vanished")
    res.touch(tr)
    ups = [c for c in walk_function(tr.node) if isinstance(c, ast.Call) and isinstance(c.func, ast.Attribute) and c.func.attr == "update_tracks"
           and astq.self_alias(tr.node, c.func.value) == "self.candidate"]
    res.ob(R, len(ups) == 1, tr.qualname, "one hand-over to the candidate's update_tracks", f"{len(ups)} update_tracks calls", tr.where)
    for c in ups:
        ut = prog.cls(FW).methods["update_tracks"]
        b = astq.bind_args(ut, c, skip_self=True)
        st = enclosing_stmt(c)
        pr = ut.pos_params
        vals = [astq.expand_at(tr.node, b.get(pr[k]), st, unpack_calls=True) for k in (2, 3)] if len(pr) >= 4 else []
        ok = len(vals) == 2 and all(isinstance(v, ast.Subscript) and isinstance(v.value, ast.Call) and astq.const_value(v.slice) == k for k, v in enumerate(vals)) \
            and norm(vals[0].value) == norm(vals[1].value) and "cost_matrix" in norm(vals[0].value)
        if ok:
            fx = norm(vals[0].value.func)
            ok = "matching_method" in fx or "_track_matching_methods" in fx
        res.ob(R, ok, tr.qualname, "(row_inds, col_inds) are exactly what the matching method returned",
               f"update_tracks receives `{short(vals[0], 50) if vals else '?'}` / `{short(vals[1], 50) if len(vals) > 1 else '?'}`: matches are filtered or rebuilt between the "
               "matcher and update_tracks, so a detection can end up neither assigned nor registered as a new track", f"{tr.module.relpath}:{c.lineno}")
    an = prog.cls(FW).methods.get("add_new_tracks")
    res.touch(an)
    apps = [c for c in astq.method_calls(an.node, "append") if norm(c.func.value) == "self.tracker_queue"]
    res.ob(R, len(apps) == 1, an.qualname, "one append of the frame to the window", f"{len(apps)} queue appends in add_new_tracks", an.where)
    for c in apps:
        gs = [a for a in ancestors(c) if isinstance(a, ast.If)]
        conj = []
        for g in gs:
            conj += list(g.test.values) if isinstance(g.test, ast.BoolOp) and isinstance(g.test.op, ast.And) else [g.test]
        params = set(an.pos_params)
        extra = [t for t in conj if not (isinstance(t, ast.Name) and t.id in params)]
        ok = bool(extra)
        for t in extra:
            if isinstance(t, ast.Name):
                # a witness of "a track was created": a flag (False before the loop, True only where a new id is allocated)
                # or a list (empty before the loop, appended to only where a new id is allocated)
                def _with_alloc(s_):
                    """s_ runs exactly when an id is allocated: the allocation call is in the same block, or in an enclosing if-body."""
                    is_alloc = lambda n_: any(isinstance(x, ast.Call) and norm(x.func).endswith("get_new_track_id") for x in ast.walk(n_))
                    from ..core.program import enclosing_stmt as _es
                    cur = s_ if isinstance(s_, ast.stmt) else _es(s_)
                    while cur is not None and not isinstance(cur, (ast.FunctionDef, ast.For, ast.While)):
                        par = getattr(cur, "_parent", None)
                        for fld in ("body", "orelse"):
                            blk = getattr(par, fld, None)
                            if isinstance(blk, list) and cur in blk and not isinstance(par, (ast.FunctionDef,)):
                                if any(is_alloc(x) for x in blk if not isinstance(x, (ast.If, ast.For, ast.While)) or x is cur):
                                    return True
                        cur = par if isinstance(par, ast.If) else None
                    return False

                sets = [s_ for s_ in walk_function(an.node) if isinstance(s_, ast.Assign) and norm(s_.targets[0]) == t.id]
                # raised to True - or to a boolean PARAMETER (flag = add_to_queue where a track is created: "created and add_to_queue")
                trues = [s_ for s_ in sets if astq.const_value(s_.value) is True or (isinstance(s_.value, ast.Name) and s_.value.id in params)]
                falses = [s_ for s_ in sets if astq.const_value(s_.value) is False]
                empties = [s_ for s_ in sets if isinstance(s_.value, ast.List) and not s_.value.elts]
                adds = [c_ for c_ in astq.method_calls(an.node, "append") if norm(c_.func.value) == t.id]
                if empties:
                    ok = ok and len(sets) == 1 and not astq.enclosing_loops(empties[0]) and bool(adds) and all(_with_alloc(c_) for c_ in adds)
                else:
                    ok = ok and len(sets) == len(trues) + len(falses) and len(falses) == 1 and bool(trues) and all(_with_alloc(s_) for s_ in trues) and not astq.enclosing_loops(falses[0])
        res.ob(R, ok, an.qualname, "the frame enters the window only if this call created a track",
               f"`{short(c, 50)}` is guarded by `{' and '.join(short(t, 30) for t in conj) or 'nothing'}`: a frame in which no track was created (empty / below threshold) is queued, "
               "after which track() keeps matching against zero tracks and never creates one", f"{an.module.relpath}:{c.lineno}")
    res.floor(R, 4)


def check_features_aligned(prog: Program, res: Result) -> None:
    """Tracker.get_features hands the candidate store two PARALLEL lists - features and the detections they were computed
    from; the stores zip them / index them by the same position.  The feature list has exactly one entry per detection,
    in order (a filtered list pairs features with the wrong detections and drops the last ones)."""
    R = "C09-align"
    fi = prog.cls(TRK).methods.get("get_features")
    if fi is None:
        raise AnalysisError("Tracker.get_features vanished")
    res.touch(fi)
    calls = [c for c in walk_function(fi.node) if isinstance(c, ast.Call) and isinstance(c.func, ast.Attribute) and c.func.attr == "get_track_instances"
             and astq.self_alias(fi.node, c.func.value) == "self.candidate"]
    res.ob(R, len(calls) == 1, fi.qualname, "one hand-over to get_track_instances", f"{len(calls)} get_track_instances calls", fi.where)
    for c in calls:
        gt = prog.cls(FW).methods["get_track_instances"]
        b = astq.bind_args(gt, c, skip_self=True)
        feats, insts = b.get("feature_list"), b.get("untracked_instances")
        prm = norm(insts) if insts is not None else None
        ok_i = isinstance(insts, ast.Name) and prm in fi.params and not astq.assignments_to(fi.node, prm)
        res.ob(R, ok_i, fi.qualname, "the detections are handed over as received", f"get_track_instances receives `{short(insts, 40) if insts is not None else '?'}` as the detection list", f"{fi.module.relpath}:{c.lineno}")
        builds = astq.list_builds(fi.node, feats.id) if isinstance(feats, ast.Name) else []
        binds = [s_ for s_ in astq.assignments_to(fi.node, feats.id)] if isinstance(feats, ast.Name) else []
        ok_f = len(builds) == 1 and not builds[0].conds and len(builds[0].gens) == 1 and len(binds) == 1
        if ok_f:
            le = astq.loop_elems(builds[0].gens[0], fi.node)
            ok_f = le is not None and norm(le.seq) == prm and isinstance(builds[0].elt, ast.Call) and len(builds[0].elt.args) == 1 and le.is_elem(builds[0].elt.args[0])
        res.ob(R, ok_f, fi.qualname, "one feature per detection, in order",
               f"the feature list `{short(feats, 30) if feats is not None else '?'}` is not built as exactly one feature per element of `{prm}` "
               f"({len(builds)} builds, {len(binds)} bindings{', filtered' if builds and builds[0].conds else ''}): features and detections go out of step", f"{fi.module.relpath}:{c.lineno}")
    res.floor(R, 3)


def check_total_candidates(prog: Program, res: Result) -> None:
    """Tracker.get_scores reads candidates_feature_dict[track_id] for EVERY id in current_tracks - also for a track whose
    instances have all left the window (it must score NaN, not raise).  Every update_candidates implementation therefore
    returns a mapping that is total over track ids: a defaultdict(list) (possibly made by a helper), unless get_scores
    itself reads with .get(id, [])."""
    R = "C09-total"
    gs = prog.cls(TRK).methods.get("get_scores")
    if gs is None:
        raise AnalysisError("Tracker.get_scores vanished")
    res.touch(gs)
    prm = [p for p in gs.pos_params if "candidate" in p and "dict" in p]
    if not prm:
        raise AnalysisError("Tracker.get_scores: candidates dictionary parameter not found")
    d = prm[0]
    plain = [n for n in walk_function(gs.node) if isinstance(n, ast.Subscript) and norm(n.value) == d and isinstance(n.ctx, ast.Load)]
    res.count(R, 1)
    if not plain:
        return  # reads go through .get(...) / membership tests: nothing to require of the producers

    def total(fi, depth=0) -> bool:
        rets = [n for n in walk_function(fi.node) if isinstance(n, ast.Return) and n.value is not None]
        if not rets:
            return False
        for r in rets:
            v = r.value
            if isinstance(v, ast.Name):
                binds = astq.assignments_to(fi.node, v.id)
                v = binds[0].value if len(binds) == 1 and isinstance(binds[0], ast.Assign) else None
            if isinstance(v, ast.Call) and norm(v.func).split(".")[-1] == "defaultdict" and v.args and norm(v.args[0]) == "list":
                continue
            if isinstance(v, ast.DictComp) and len(v.generators) == 1 and not v.generators[0].ifs and "current_tracks" in norm(v.generators[0].iter) \
                    and norm(v.key) == norm(v.generators[0].target):
                continue  # {track_id: ... for track_id in current_tracks}: a key for every current track
            if isinstance(v, ast.Call) and depth < 3:
                q = prog.resolve_call(fi, v)
                callee = prog.functions.get(q) if q else None
                if callee is not None and total(callee, depth + 1):
                    continue
            return False
        return True

    impls = [c.methods["update_candidates"] for c in [prog.cls(TRK)] + prog.subclasses(prog.cls(TRK)) if "update_candidates" in c.methods]
    for fi in impls:
        res.touch(fi)
        res.ob(R, total(fi), fi.qualname, "returns a defaultdict(list): total over track ids",
               f"{fi.qualname.split(':')[1]} does not return a defaultdict(list) while get_scores indexes `{d}[track_id]` for every current track: a track with no instance "
               "left in the window raises KeyError in track() instead of scoring NaN", fi.where)
    res.floor(R, 3)


def check_track_keys(prog: Program, res: Result, rule: str = "C09-total") -> None:
    """The per-track candidate dictionaries (a `defaultdict(list)` built and returned by Tracker.update_candidates /
    FlowShiftTracker.get_shifted_instances_from_prv_frames) are read by get_scores as `d[track_id]` for every current
    track.  So every entry is filed under a TRACK ID: the key of each store / append is the `.track_id` (`.track_ids[i]`) of
    the candidate it files, or the variable of a loop over the current tracks.  Filing under another index (the position of
    the instance in its frame, say) leaves a track without candidates - an all-inf column, an infeasible assignment."""
    n = 0
    for fi in prog.all_functions():
        if not fi.module.name.startswith("sleap_nn.tracking.tracker"):
            continue
        dd = [s_ for s_ in walk_function(fi.node) if isinstance(s_, ast.Assign) and len(s_.targets) == 1 and isinstance(s_.targets[0], ast.Name)
              and isinstance(s_.value, ast.Call) and norm(s_.value.func).split(".")[-1] == "defaultdict"]
        rets = [r for r in walk_function(fi.node) if isinstance(r, ast.Return) and isinstance(r.value, ast.Name)]
        for d in dd:
            D = d.targets[0].id
            if not any(r.value.id == D for r in rets):
                continue
            for sub in walk_function(fi.node):
                if not (isinstance(sub, ast.Subscript) and isinstance(sub.value, ast.Name) and sub.value.id == D):
                    continue
                par = getattr(sub, "_parent", None)
                is_write = isinstance(sub.ctx, ast.Store) or (isinstance(par, ast.Attribute) and par.attr in ("append", "extend") and isinstance(getattr(par, "_parent", None), ast.Call))
                if not is_write:
                    continue
                n += 1
                res.touch(fi)
                k = astq.expand_at(fi.node, sub.slice, enclosing_stmt(sub), keep=[t for lp in astq.enclosing_loops(sub) for t in astq.target_names(lp.target)])
                txt = norm(k)
                ok = ".track_id" in txt or txt == "track_id" or txt.endswith("_track_id")
                if not ok and isinstance(k, ast.Name):
                    lps = [lp for lp in astq.enclosing_loops(sub) if isinstance(lp, ast.For) and k.id in astq.target_names(lp.target)]
                    ok = any("current_tracks" in norm(lp.iter) or "track_id" in norm(lp.iter) for lp in lps)
                res.ob(rule, ok, fi.qualname, f"`{D}[{short(sub.slice, 30)}]` is filed under a track id",
                       f"`{short(enclosing_stmt(sub), 70)}` files a candidate under `{short(k, 40)}`, which is not a track id: get_scores reads the dictionary by track id, so the "
                       "track the candidate belongs to has no candidates (all-inf column, 'cost matrix is infeasible') and another track gets foreign ones", f"{fi.module.relpath}:{sub.lineno}")
    res.count(rule, 0)


def check_matcher_axes(prog: Program, res: Result, rule: str = "C09-axes") -> None:
    """`rows, cols = <matcher>(M)` returns positions along axis 0 and axis 1 of M (detections x tracks).  Wherever M is read
    back at a matched pair, the first index must come from `rows` and the second from `cols`: M[col, row] is silently wrong
    on square matrices and an IndexError as soon as the number of detections differs from the number of tracks."""
    n = 0
    for fi in prog.all_functions():
        if not fi.module.name.startswith("sleap_nn.tracking"):
            continue
        for st in walk_function(fi.node):
            if not (isinstance(st, ast.Assign) and len(st.targets) == 1 and isinstance(st.targets[0], ast.Tuple) and len(st.targets[0].elts) == 2
                    and all(isinstance(e, ast.Name) for e in st.targets[0].elts) and isinstance(st.value, ast.Call) and len(st.value.args) == 1 and isinstance(st.value.args[0], ast.Name)):
                continue
            callee = norm(st.value.func).split(".")[-1]
            if not (callee in ("linear_sum_assignment", "hungarian_matching", "greedy_matching") or "matching" in callee):
                continue
            M = st.value.args[0].id
            rows, cols = (e.id for e in st.targets[0].elts)
            role = {}   # loop variable -> "row" | "col"
            for g in walk_function(fi.node):
                it, tg = (g.iter, g.target) if isinstance(g, (ast.For, ast.comprehension)) else (None, None)
                if it is None:
                    continue
                if isinstance(it, ast.Call) and norm(it.func) == "zip" and isinstance(tg, ast.Tuple) and len(tg.elts) == len(it.args):
                    for a, t in zip(it.args, tg.elts):
                        if isinstance(a, ast.Name) and isinstance(t, ast.Name) and a.id in (rows, cols):
                            role[t.id] = "row" if a.id == rows else "col"
                elif isinstance(it, ast.Name) and it.id in (rows, cols) and isinstance(tg, ast.Name):
                    role[tg.id] = "row" if it.id == rows else "col"
            role[rows], role[cols] = "row", "col"       # M[rows, cols] (fancy indexing with the two arrays themselves)
            for sub in walk_function(fi.node):
                pair = None
                if isinstance(sub, ast.Subscript) and isinstance(sub.value, ast.Name) and sub.value.id == M and isinstance(sub.slice, ast.Tuple) and len(sub.slice.elts) == 2:
                    pair = list(sub.slice.elts)
                elif isinstance(sub, ast.Subscript) and isinstance(sub.value, ast.Subscript) and isinstance(sub.value.value, ast.Name) and sub.value.value.id == M \
                        and not isinstance(sub.value.slice, (ast.Tuple, ast.Slice)) and not isinstance(sub.slice, (ast.Tuple, ast.Slice)):
                    pair = [sub.value.slice, sub.slice]      # M[r][c]
                if pair is not None and all(isinstance(e, ast.Name) and e.id in role for e in pair):
                    n += 1
                    res.touch(fi)
                    got = [role[e.id] for e in pair]
                    res.ob(rule, got == ["row", "col"], fi.qualname, f"`{short(sub, 30)}` is read at (matched row, matched column)",
                           f"`{short(sub, 40)}` indexes the matched matrix `{M}` as ({got[0]}, {got[1]}) of the matcher's result: it must be [{rows}-element, {cols}-element]; with a "
                           "different number of detections and tracks this raises IndexError (or reads another pair's cost)", f"{fi.module.relpath}:{sub.lineno}")
    res.count(rule, 0)   # no floor: code that never reads the matrix back at the matched pairs has nothing to get wrong here


def check(prog: Program, res: Result) -> None:
    from . import _state as _st2
    _st2.check_no_stale_loop_var(prog, res, "C09-state", ["sleap_nn.tracking"])
    from . import _state
    _state.check_no_cross_call_state(prog, res, "C09-state", ["sleap_nn.tracking.tracker:Tracker.get_features", "sleap_nn.tracking.tracker:Tracker.update_candidates", "sleap_nn.tracking.tracker:Tracker.get_scores", "sleap_nn.tracking.tracker:Tracker.scores_to_cost_matrix", "sleap_nn.tracking.tracker:Tracker.assign_tracks", "sleap_nn.tracking.tracker:FlowShiftTracker.update_candidates", "sleap_nn.tracking.tracker:FlowShiftTracker.get_shifted_instances_from_prv_frames"], floor=7)
    from . import _parallel
    _parallel.check_parallel_index(prog, res, "C09-index")
    check_matcher_axes(prog, res)
    from . import _iou
    _iou.check_iou(prog, res, "C09-iou")
    check_alloc(prog, res)
    check_features_aligned(prog, res)
    check_total_candidates(prog, res)
    check_track_keys(prog, res)
    # the score matrix is allocated (detections x tracks) even when there are no detections: a matrix assembled from nested
    # lists degenerates to shape (0,) for an empty frame and the matcher raises (shared with C10-col)
    from . import c10 as _c10
    res.borrow(_c10.check_col, "C09-col", prog)
    check_truth(prog, res)
    check_arity(prog, res)
    check_once(prog, res)
    check_iface(prog, res)
    check_inf(prog, res, "C09-inf", "sleap_nn.tracking")
    from . import _nanred
    _nanred.check_nan_reductions(prog, res, "C09-nan", ["sleap_nn.tracking.utils:get_bbox", "sleap_nn.tracking.utils:get_centroid"], floor=3)
    _match.check_greedy(prog, res, "C09-match")
    check_unmatched(prog, res)
    check_pass(prog, res)
    res.assumptions += [
        "the behaviour over histories beyond these necessary conditions (e.g. that the right track is chosen) is not decided",
    ]


FWF = "sleap_nn/tracking/candidates/fixed_window.py"
LQF = "sleap_nn/tracking/candidates/local_queues.py"
TRF = "sleap_nn/tracking/tracker.py"
UTF = "sleap_nn/tracking/utils.py"
VARIANTS = [
    Variant("truth-track-id-falsy", FWF, "                and current_instances.track_ids[i] is None", "                and not current_instances.track_ids[i]", "C09-truth"),
    Variant("truth-any", FWF, "        if len(row_inds) > 0 and len(col_inds) > 0:", "        if np.any(row_inds) and np.any(col_inds):", "C09-truth"),
    Variant("truth-method-any", LQF, "        if len(row_inds) > 0 and len(col_inds) > 0:", "        if row_inds.any() and len(col_inds) > 0:", "C09-truth"),
    Variant("arity-element", LQF, "                    self.add_new_tracks([current_instances[ind]])", "                    self.add_new_tracks(current_instances[ind])", "C09-arity"),
    Variant("alloc-not-registered", LQF, "                self.current_tracks.append(new_track_id)\n", "", "C09-alloc"),
    Variant("alloc-registered-conditionally", FWF, "                self.current_tracks.append(new_tracks_id)\n",
            "                if add_to_queue:\n                    self.current_tracks.append(new_tracks_id)\n", "C09-alloc"),
    Variant("alloc-len", FWF, "            new_track_id = max(self.current_tracks) + 1", "            new_track_id = len(self.tracker_queue)", "C09-alloc"),
    Variant("alloc-prune", LQF, "        return current_instances\n\n    def get_instances_groupby_frame_idx",
            "        self.current_tracks = [t for t in self.current_tracks if len(self.tracker_queue[t]) > 0]\n        return current_instances\n\n    def get_instances_groupby_frame_idx", "C09-alloc"),
    Variant("once-dup", TRF, "                new_pred_instances.append(instance.src_instance)\n", "                new_pred_instances.append(instance.src_instance)\n                if instance.track_id is None:\n                    new_pred_instances.append(instance.src_instance)\n", "C09-once"),
    Variant("once-drop-low-score", TRF, "                if track_id is not None:\n                    if track_id not in self._track_objects:",
            "                if track_id is not None and inst.score > 0.5:\n                    if track_id not in self._track_objects:", "C09-once"),
    Variant("once-wrong-list", TRF, "            for instance in current_tracked_instances:\n                if instance.track_id is not None:",
            "            for instance in current_instances[:-1]:\n                if instance.track_id is not None:", "C09-once"),
    Variant("iface-kw", TRF, "            current_tracked_instances = self.candidate.add_new_tracks(current_instances)",
            "            current_tracked_instances = self.candidate.add_new_tracks(current_instances, add_to_queue=True)", "C09-iface"),
    Variant("inf-second-source", TRF, "        scores = np.zeros(\n            (len(current_instances_features), len(self.candidate.current_tracks))\n        )",
            "        scores = np.full(\n            (len(current_instances_features), len(self.candidate.current_tracks)), -np.inf\n        )", "C09-inf"),
    # behaviour preserving
    Variant("queue-flag-removed", FWF, "        if add_to_queue and is_new_track:", "        if add_to_queue:", "C09-pass"),
    Variant("pass-filtered-matches", TRF, "        row_inds, col_inds = matching_method(cost_matrix)\n", "        row_inds, col_inds = matching_method(cost_matrix)\n        keep = [k for k, (r, c) in enumerate(zip(row_inds, col_inds)) if np.isfinite(cost_matrix[r, c])]\n        row_inds, col_inds = [row_inds[k] for k in keep], [col_inds[k] for k in keep]\n", "C09-pass"),
    Variant("match-mask-unguarded", UTF, '    # Sort edges by ascending cost.\n    rows, cols = np.unravel_index(np.argsort(cost_matrix, axis=None), cost_matrix.shape)\n    unassigned_edges = list(zip(rows, cols))\n\n    # Greedily assign edges.\n    row_inds, col_inds = [], []\n    while len(unassigned_edges) > 0:\n        # Assign the lowest cost edge.\n        row_ind, col_ind = unassigned_edges.pop(0)\n        row_inds.append(row_ind)\n        col_inds.append(col_ind)\n\n        # Remove all other edges that contain either node (in reverse order).\n        for i in range(len(unassigned_edges) - 1, -1, -1):\n            if unassigned_edges[i][0] == row_ind or unassigned_edges[i][1] == col_ind:\n                del unassigned_edges[i]\n', '    cost = np.array(cost_matrix, dtype="float64")\n    row_inds, col_inds = [], []\n    for _ in range(min(cost.shape)):\n        row_ind, col_ind = np.unravel_index(np.argmin(cost), cost.shape)\n        row_inds.append(row_ind)\n        col_inds.append(col_ind)\n        cost[row_ind, :] = np.inf\n        cost[:, col_ind] = np.inf\n', "C09-match"),
    Variant("match-mask-row-only", UTF, '    # Sort edges by ascending cost.\n    rows, cols = np.unravel_index(np.argsort(cost_matrix, axis=None), cost_matrix.shape)\n    unassigned_edges = list(zip(rows, cols))\n\n    # Greedily assign edges.\n    row_inds, col_inds = [], []\n    while len(unassigned_edges) > 0:\n        # Assign the lowest cost edge.\n        row_ind, col_ind = unassigned_edges.pop(0)\n        row_inds.append(row_ind)\n        col_inds.append(col_ind)\n\n        # Remove all other edges that contain either node (in reverse order).\n        for i in range(len(unassigned_edges) - 1, -1, -1):\n            if unassigned_edges[i][0] == row_ind or unassigned_edges[i][1] == col_ind:\n                del unassigned_edges[i]\n', '    cost = np.array(cost_matrix, dtype="float64")\n    row_inds, col_inds = [], []\n    for _ in range(min(cost.shape)):\n        row_ind, col_ind = np.unravel_index(np.argmin(cost), cost.shape)\n        if not np.isfinite(cost[row_ind, col_ind]):\n            break\n        row_inds.append(row_ind)\n        col_inds.append(col_ind)\n        cost[row_ind, :] = np.inf\n', "C09-match"),
    Variant("unmatched-by-track-id", LQF, "            new_current_instances_inds = [\n                x for x in range(len(current_instances)) if x not in row_inds\n            ]",
            "            matched_inds = set(col_inds)\n            new_current_instances_inds = [\n                x for x in range(len(current_instances)) if x not in matched_inds\n            ]", "C09-unmatched"),
    Variant("unmatched-cols", LQF, "                x for x in range(len(current_instances)) if x not in row_inds", "                x for x in range(len(current_instances)) if x not in set(col_inds)", "C09-unmatched"),
    Variant("bp-unmatched-set", FWF, "            new_current_instances_inds = [\n                x for x in range(len(current_instances.features)) if x not in row_inds\n            ]",
            "            matched = set(row_inds)\n            new_current_instances_inds = [\n                x for x in range(len(current_instances.features)) if x not in matched\n            ]", None),
    Variant("match-used-sets-and", UTF, '    # Sort edges by ascending cost.\n    rows, cols = np.unravel_index(np.argsort(cost_matrix, axis=None), cost_matrix.shape)\n    unassigned_edges = list(zip(rows, cols))\n\n    # Greedily assign edges.\n    row_inds, col_inds = [], []\n    while len(unassigned_edges) > 0:\n        # Assign the lowest cost edge.\n        row_ind, col_ind = unassigned_edges.pop(0)\n        row_inds.append(row_ind)\n        col_inds.append(col_ind)\n\n        # Remove all other edges that contain either node (in reverse order).\n        for i in range(len(unassigned_edges) - 1, -1, -1):\n            if unassigned_edges[i][0] == row_ind or unassigned_edges[i][1] == col_ind:\n                del unassigned_edges[i]\n', '    used_rows, used_cols = set(), set()\n    row_inds, col_inds = [], []\n    rows, cols = np.unravel_index(np.argsort(cost_matrix, axis=None), cost_matrix.shape)\n    for row_ind, col_ind in zip(rows, cols):\n        if row_ind in used_rows and col_ind in used_cols:\n            continue\n        row_inds.append(row_ind)\n        col_inds.append(col_ind)\n        used_rows.add(row_ind)\n        used_cols.add(col_ind)\n', "C09-match"),
    Variant("match-filter-or", UTF, '    # Sort edges by ascending cost.\n    rows, cols = np.unravel_index(np.argsort(cost_matrix, axis=None), cost_matrix.shape)\n    unassigned_edges = list(zip(rows, cols))\n\n    # Greedily assign edges.\n    row_inds, col_inds = [], []\n    while len(unassigned_edges) > 0:\n        # Assign the lowest cost edge.\n        row_ind, col_ind = unassigned_edges.pop(0)\n        row_inds.append(row_ind)\n        col_inds.append(col_ind)\n\n        # Remove all other edges that contain either node (in reverse order).\n        for i in range(len(unassigned_edges) - 1, -1, -1):\n            if unassigned_edges[i][0] == row_ind or unassigned_edges[i][1] == col_ind:\n                del unassigned_edges[i]\n', '    rows, cols = np.unravel_index(np.argsort(cost_matrix, axis=None), cost_matrix.shape)\n    unassigned_edges = list(zip(rows, cols))\n    row_inds, col_inds = [], []\n    while unassigned_edges:\n        row_ind, col_ind = unassigned_edges.pop(0)\n        row_inds.append(row_ind)\n        col_inds.append(col_ind)\n        unassigned_edges = [(row, col) for row, col in unassigned_edges if row != row_ind or col != col_ind]\n', "C09-match"),
    Variant("bp-match-used-sets", UTF, '    # Sort edges by ascending cost.\n    rows, cols = np.unravel_index(np.argsort(cost_matrix, axis=None), cost_matrix.shape)\n    unassigned_edges = list(zip(rows, cols))\n\n    # Greedily assign edges.\n    row_inds, col_inds = [], []\n    while len(unassigned_edges) > 0:\n        # Assign the lowest cost edge.\n        row_ind, col_ind = unassigned_edges.pop(0)\n        row_inds.append(row_ind)\n        col_inds.append(col_ind)\n\n        # Remove all other edges that contain either node (in reverse order).\n        for i in range(len(unassigned_edges) - 1, -1, -1):\n            if unassigned_edges[i][0] == row_ind or unassigned_edges[i][1] == col_ind:\n                del unassigned_edges[i]\n', '    used_rows, used_cols = set(), set()\n    row_inds, col_inds = [], []\n    rows, cols = np.unravel_index(np.argsort(cost_matrix, axis=None), cost_matrix.shape)\n    for row_ind, col_ind in zip(rows, cols):\n        if row_ind in used_rows or col_ind in used_cols:\n            continue\n        row_inds.append(row_ind)\n        col_inds.append(col_ind)\n        used_rows.add(row_ind)\n        used_cols.add(col_ind)\n', None),
    Variant("bp-match-filter", UTF, '    # Sort edges by ascending cost.\n    rows, cols = np.unravel_index(np.argsort(cost_matrix, axis=None), cost_matrix.shape)\n    unassigned_edges = list(zip(rows, cols))\n\n    # Greedily assign edges.\n    row_inds, col_inds = [], []\n    while len(unassigned_edges) > 0:\n        # Assign the lowest cost edge.\n        row_ind, col_ind = unassigned_edges.pop(0)\n        row_inds.append(row_ind)\n        col_inds.append(col_ind)\n\n        # Remove all other edges that contain either node (in reverse order).\n        for i in range(len(unassigned_edges) - 1, -1, -1):\n            if unassigned_edges[i][0] == row_ind or unassigned_edges[i][1] == col_ind:\n                del unassigned_edges[i]\n', '    rows, cols = np.unravel_index(np.argsort(cost_matrix, axis=None), cost_matrix.shape)\n    unassigned_edges = list(zip(rows, cols))\n    row_inds, col_inds = [], []\n    while unassigned_edges:\n        row_ind, col_ind = unassigned_edges.pop(0)\n        row_inds.append(row_ind)\n        col_inds.append(col_ind)\n        unassigned_edges = [(row, col) for row, col in unassigned_edges if not (row == row_ind or col == col_ind)]\n', None),
    Variant("match-and", UTF, "            if unassigned_edges[i][0] == row_ind or unassigned_edges[i][1] == col_ind:", "            if unassigned_edges[i][0] == row_ind and unassigned_edges[i][1] == col_ind:", "C09-match"),
    Variant("bp-match-mask-guarded", UTF, '    # Sort edges by ascending cost.\n    rows, cols = np.unravel_index(np.argsort(cost_matrix, axis=None), cost_matrix.shape)\n    unassigned_edges = list(zip(rows, cols))\n\n    # Greedily assign edges.\n    row_inds, col_inds = [], []\n    while len(unassigned_edges) > 0:\n        # Assign the lowest cost edge.\n        row_ind, col_ind = unassigned_edges.pop(0)\n        row_inds.append(row_ind)\n        col_inds.append(col_ind)\n\n        # Remove all other edges that contain either node (in reverse order).\n        for i in range(len(unassigned_edges) - 1, -1, -1):\n            if unassigned_edges[i][0] == row_ind or unassigned_edges[i][1] == col_ind:\n                del unassigned_edges[i]\n', '    cost = np.array(cost_matrix, dtype="float64")\n    row_inds, col_inds = [], []\n    for _ in range(min(cost.shape)):\n        row_ind, col_ind = np.unravel_index(np.argmin(cost), cost.shape)\n        if not np.isfinite(cost[row_ind, col_ind]):\n            break\n        row_inds.append(row_ind)\n        col_inds.append(col_ind)\n        cost[row_ind, :] = np.inf\n        cost[:, col_ind] = np.inf\n', None),
    Variant("bp-alloc-len-current", FWF, "            new_track_id = max(self.current_tracks) + 1", "            new_track_id = len(self.current_tracks)", None),
    Variant("bp-len-form", FWF, "        if len(row_inds) > 0 and len(col_inds) > 0:", "        if len(row_inds) != 0 and len(col_inds) != 0:", None),
    Variant("bp-list-wrap-name", LQF, "                    self.add_new_tracks([current_instances[ind]])", "                    newcomer = [current_instances[ind]]\n                    self.add_new_tracks(newcomer)", None),
    Variant("bp-alloc-reorder", LQF, "                t.track_id = new_track_id\n                t.tracking_score = 1.0\n                self.current_tracks.append(new_track_id)",
            "                self.current_tracks.append(new_track_id)\n                t.track_id = new_track_id\n                t.tracking_score = 1.0", None),
    Variant("bp-total-dict-comprehension", TRF, "        candidates_feature_dict = defaultdict(list)\n        for track_id in self.candidate.current_tracks:\n            candidates_feature_dict[track_id].extend(\n                self.candidate.get_features_from_track_id(track_id, candidates_list)\n            )\n        return candidates_feature_dict",
            "        candidates_feature_dict = {\n            track_id: list(self.candidate.get_features_from_track_id(track_id, candidates_list))\n            for track_id in self.candidate.current_tracks\n        }\n        return candidates_feature_dict", None),
    Variant("total-plain-dict", TRF, "        candidates_feature_dict = defaultdict(list)\n        for track_id in self.candidate.current_tracks:", "        candidates_feature_dict = {}\n        for track_id in self.candidate.current_tracks[:1]:", "C09-total"),
    Variant("bp-features-comprehension", TRF, "        feature_list = []\n        for pred_instance in untracked_instances:\n            feature_list.append(feature_method(pred_instance))\n", "        feature_list = [feature_method(pred_instance) for pred_instance in untracked_instances]\n", None),
    Variant("features-filtered", TRF, "        feature_list = []\n        for pred_instance in untracked_instances:\n            feature_list.append(feature_method(pred_instance))\n", "        feature_list = [feature_method(p) for p in untracked_instances if p.score > 0]\n", "C09-align"),
]
