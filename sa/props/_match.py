"""One-to-one-ness of tracking/utils.greedy_matching, shared by C09 (no double assignment) and C15.

Two implementation idioms are recognised; anything else is reported as not analysable (exit 2), never as a violation.
 A  edge list: sort all edges by cost, repeatedly pop the head, delete every remaining edge sharing its row OR column
    (iterating backwards so that deletion does not skip elements).
 B  masking: repeatedly take the arg-min of a private copy of the matrix and overwrite the chosen row AND column with
    +inf.  The arg-min of an exhausted or non-finite matrix is an already used cell, so the choice must be guarded by a
    finiteness test that leaves the loop (infinite costs do reach the matchers: C09-inf).
"""

from __future__ import annotations

import ast
from typing import Dict, Optional

from ..core import astq
from ..core.program import AnalysisError, Program, ancestors, enclosing_stmt, norm, short, walk_function
from ..report import Result

INF = ("np.inf", "numpy.inf", "float('inf')", "math.inf", "np.Inf", "np.infty")


def _idiom_a(fi, res: Result, R: str) -> None:
    pops = [c for c in astq.method_calls(fi.node, "pop")]
    ok = len(pops) == 1 and isinstance(pops[0].func.value, ast.Name) and len(pops[0].args) == 1 and astq.const_value(pops[0].args[0]) == 0
    res.ob(R, ok, fi.qualname, "lowest-cost edge taken first", "the next edge is not popped from the head of the sorted edge list", fi.where)
    if not ok:
        return
    E = pops[0].func.value.id  # the edge list
    # every cell of the matrix is a candidate edge: the list is not built through a filter (costs of either sign occur - a
    # distance is positive, a negated similarity negative - so a test on the cost removes all edges for some scoring method)
    eb = [s_ for s_ in astq.assignments_to(fi.node, E) if isinstance(s_, ast.Assign)]
    filt = [c_ for s_ in eb for c_ in ast.walk(s_.value) if isinstance(c_, ast.comprehension) and c_.ifs] + \
           [c_ for s_ in eb for c_ in ast.walk(s_.value) if isinstance(c_, ast.Call) and norm(c_.func) == "filter"]
    res.ob(R, not filt, fi.qualname, "all (row, column) pairs are candidate edges",
           f"the edge list `{E}` is built through a filter (`{short(filt[0].ifs[0], 40) if filt and isinstance(filt[0], ast.comprehension) else 'filter(...)'}`): for a scoring method whose "
           "costs fail that test no detection is ever matched", fi.where)
    param = fi.node.args.args[0].arg if fi.node.args.args else "cost_matrix"
    st = enclosing_stmt(pops[0])
    rc = [norm(e) for e in st.targets[0].elts] if isinstance(st, ast.Assign) and isinstance(st.targets[0], ast.Tuple) else []
    dels = [n for n in walk_function(fi.node) if isinstance(n, ast.Delete)]
    res.ob(R, len(dels) == 1 and len(rc) == 2, fi.qualname, "one removal statement", f"{len(dels)} del statements", fi.where)
    if len(dels) != 1 or len(rc) != 2:
        return
    lp = astq.enclosing_loops(dels[0])
    iv = norm(lp[0].target) if lp and isinstance(lp[0], ast.For) else "?"
    g = [a for a in ancestors(dels[0]) if isinstance(a, ast.If)]
    t = g[0].test if g else None
    ok = isinstance(t, ast.BoolOp) and isinstance(t.op, ast.Or) and len(t.values) == 2
    if ok:
        def _eq(v):
            if isinstance(v, ast.Compare) and len(v.ops) == 1 and isinstance(v.ops[0], ast.Eq):
                return frozenset((norm(v.left), norm(v.comparators[0])))
            return None
        parts = {_eq(v) for v in t.values}
        ok = parts == {frozenset((f"{E}[{iv}][0]", rc[0])), frozenset((f"{E}[{iv}][1]", rc[1]))}
    ok = ok and norm(dels[0].targets[0]) == f"{E}[{iv}]"
    res.ob(R, ok, fi.qualname, "edges sharing the chosen row OR column are removed",
           f"after choosing ({', '.join(rc)}) edges are removed under `{short(t, 70) if t is not None else '?'}`: a row or a column can be assigned twice",
           f"{fi.module.relpath}:{dels[0].lineno}")
    it = norm(lp[0].iter) if lp and isinstance(lp[0], ast.For) else "?"
    ok = it in (f"range(len({E}) - 1, -1, -1)", f"reversed(range(len({E})))")
    res.ob(R, ok, fi.qualname, "removal iterates backwards",
           f"removal iterates `{short(lp[0].iter, 50) if lp else '?'}`: deleting while iterating forwards skips edges", f"{fi.module.relpath}:{dels[0].lineno}")
    srt = [c for c in walk_function(fi.node) if isinstance(c, ast.Call) and norm(c.func).split(".")[-1] == "argsort"]
    ok = len(srt) == 1 and srt[0].args and norm(srt[0].args[0]) == param and any(k.arg == "axis" and norm(k.value) == "None" for k in srt[0].keywords) \
        and not any(k.arg in ("descending",) for k in srt[0].keywords)
    res.ob(R, ok, fi.qualname, "edges sorted by ascending cost over the whole matrix", "edges are not sorted by ascending cost over the flattened matrix", fi.where)
    apps = {norm(c.func.value): norm(c.args[0]) for c in astq.method_calls(fi.node, "append")}
    rets = [n for n in walk_function(fi.node) if isinstance(n, ast.Return) and isinstance(n.value, ast.Tuple) and len(n.value.elts) == 2]
    ok = bool(rets) and all(apps.get(norm(r.value.elts[0])) == rc[0] and apps.get(norm(r.value.elts[1])) == rc[1] for r in rets)
    res.ob(R, ok, fi.qualname, "chosen row/col recorded and returned as (rows, cols)", f"row/col lists receive {apps}", fi.where)


def _idiom_b(fi, res: Result, R: str, argmins) -> None:
    res.ob(R, len(argmins) == 1, fi.qualname, "one arg-min choice", f"{len(argmins)} arg-min calls", fi.where)
    if len(argmins) != 1:
        return
    am = argmins[0]
    mat = norm(am.args[0]) if am.args else (norm(am.func.value) if isinstance(am.func, ast.Attribute) else "?")
    st = enclosing_stmt(am)
    rc = [e.id for e in st.targets[0].elts if isinstance(e, ast.Name)] if isinstance(st, ast.Assign) and isinstance(st.targets[0], ast.Tuple) else []
    loops = astq.enclosing_loops(st)
    if len(rc) != 2 or not loops or "unravel_index" not in norm(st.value):
        raise AnalysisError(f"greedy_matching: arg-min choice `{short(st, 60)}` not recognised")
    loop = loops[0]
    where = f"{fi.module.relpath}:{st.lineno}"
    row_masked = col_masked = False
    for s in ast.walk(loop):
        if isinstance(s, ast.Assign) and isinstance(s.targets[0], ast.Subscript) and norm(s.targets[0].value) == mat and s.lineno > st.lineno:
            sl = s.targets[0].slice
            if isinstance(sl, ast.Tuple) and len(sl.elts) == 2 and norm(s.value) in INF:
                a, b = sl.elts
                if norm(a) == rc[0] and isinstance(b, ast.Slice) and b.lower is None and b.upper is None:
                    row_masked = True
                if norm(b) == rc[1] and isinstance(a, ast.Slice) and a.lower is None and a.upper is None:
                    col_masked = True
    res.ob(R, row_masked and col_masked, fi.qualname, "chosen row AND column are masked with +inf",
           f"after choosing ({rc[0]}, {rc[1]}) {'the row' if not row_masked else 'the column'} is not masked: it can be assigned twice", where)
    # private copy
    defs = [d for d in astq.assignments_to(fi.node, mat) if isinstance(d, ast.Assign)]
    # (a parameter re-bound to a copy before the loop is private too)
    fresh = bool(defs) and all(isinstance(d.value, ast.Call) and norm(d.value.func).split(".")[-1] in ("array", "copy", "astype", "full_like", "deepcopy")
                               and d.lineno < loop.lineno for d in defs)
    res.ob(R, fresh, fi.qualname, "masking works on a private copy", f"`{mat}` is masked in place but is not a private copy of the caller's matrix", where)
    # finiteness guard leaving the loop before the choice is recorded
    guard = False
    for s in ast.walk(loop):
        if isinstance(s, ast.If) and s.lineno > st.lineno:
            t = norm(s.test)
            mentions = (f"{mat}[{rc[0]}, {rc[1]}]" in t) or any(
                isinstance(d, ast.Assign) and f"{mat}[{rc[0]}, {rc[1]}]" in norm(d.value) and any(n in astq.names_in(s.test) for n in astq.target_names(d.targets[0]))
                for d in ast.walk(loop) if isinstance(d, ast.Assign))
            leaves = any(isinstance(x, (ast.Break, ast.Return)) for x in s.body)
            nonfinite = ("not np.isfinite" in t) or ("np.isinf" in t and "not np.isinf" not in t) or any(f"== {i}" in t or f">= {i}" in t for i in INF)
            apps = [c for c in astq.method_calls(loop, "append")]
            before = all(c.lineno > s.lineno for c in apps)
            if mentions and leaves and nonfinite and before:
                guard = True
    res.ob(R, guard, fi.qualname, "the loop is left when the minimum is not finite",
           f"the arg-min of `{mat}` is recorded without testing that it is finite: with +inf/NaN costs (see C09-inf) or an exhausted matrix the "
           "arg-min is an already assigned cell, so one row/column is assigned twice", where)
    apps = {norm(c.func.value): norm(c.args[0]) for c in astq.method_calls(loop, "append")}
    rets = [n for n in walk_function(fi.node) if isinstance(n, ast.Return) and isinstance(n.value, ast.Tuple) and len(n.value.elts) == 2]
    ok = bool(rets) and all(apps.get(norm(r.value.elts[0])) == rc[0] and apps.get(norm(r.value.elts[1])) == rc[1] for r in rets)
    res.ob(R, ok, fi.qualname, "chosen row/col recorded and returned as (rows, cols)", f"the recorded choices {apps} are not returned as (rows, cols)", fi.where)
    res.ob(R, True, fi.qualname, "idiom: masked arg-min", "", fi.where)


def _truth(e: ast.AST, atoms, env) -> Optional[bool]:
    """Evaluate a boolean combination of the given atoms (functions AST -> Optional[str] naming an atom, possibly
    negated as '!name') under the assignment env: name -> bool.  None when something else occurs."""
    if isinstance(e, ast.BoolOp):
        vals = [_truth(v, atoms, env) for v in e.values]
        if any(v is None for v in vals):
            return None
        return all(vals) if isinstance(e.op, ast.And) else any(vals)
    if isinstance(e, ast.UnaryOp) and isinstance(e.op, ast.Not):
        v = _truth(e.operand, atoms, env)
        return None if v is None else not v
    a = atoms(e)
    if a is None:
        return None
    return (not env[a[1:]]) if a.startswith("!") else env[a]


def _table(e: ast.AST, atoms) -> Optional[Dict[tuple, bool]]:
    out = {}
    for r in (False, True):
        for c in (False, True):
            v = _truth(e, atoms, {"row": r, "col": c})
            if v is None:
                return None
            out[(r, c)] = v
    return out


def _sorted_edges(fi, res: Result, R: str, param: str) -> None:
    srt = [c for c in walk_function(fi.node) if isinstance(c, ast.Call) and norm(c.func).split(".")[-1] == "argsort"]
    ok = len(srt) == 1 and srt[0].args and norm(srt[0].args[0]) == param and any(k.arg == "axis" and norm(k.value) == "None" for k in srt[0].keywords) \
        and not any(k.arg in ("descending",) for k in srt[0].keywords)
    res.ob(R, ok, fi.qualname, "edges sorted by ascending cost over the whole matrix", "edges are not sorted by ascending cost over the flattened matrix", fi.where)
    un = [c for c in walk_function(fi.node) if isinstance(c, ast.Call) and norm(c.func).split(".")[-1] == "unravel_index"]
    ok = len(un) == 1 and len(un[0].args) == 2 and srt and un[0].args[0] is srt[0] and norm(un[0].args[1]) == f"{param}.shape"
    res.ob(R, ok, fi.qualname, "flat order converted to (row, col) with the matrix shape", "the sorted flat indices are not unravelled with the matrix shape", fi.where)


def _idiom_filter(fi, res: Result, R: str) -> None:
    """A': pop the head of the sorted edge list, then re-bind the list to the edges sharing neither row nor column."""
    param = fi.node.args.args[0].arg
    # the head of the sorted edge list: `r, c = E.pop(0)` or `r, c = E[0]` (then the filter below also drops the head)
    st = None
    E = None
    for s_ in walk_function(fi.node):
        if isinstance(s_, ast.Assign) and isinstance(s_.targets[0], ast.Tuple) and len(s_.targets[0].elts) == 2:
            v = s_.value
            if isinstance(v, ast.Call) and isinstance(v.func, ast.Attribute) and v.func.attr == "pop" and isinstance(v.func.value, ast.Name) and len(v.args) == 1 and astq.const_value(v.args[0]) == 0:
                st, E = s_, v.func.value.id
            elif isinstance(v, ast.Subscript) and isinstance(v.value, ast.Name) and astq.const_value(v.slice) == 0 and astq.enclosing_loops(s_):
                st, E = s_, v.value.id
    rc = [norm(e) for e in st.targets[0].elts] if st is not None else []
    ok = st is not None and len(rc) == 2
    res.ob(R, ok, fi.qualname, "lowest-cost edge taken first", "the next edge is not taken from the head of the sorted edge list", fi.where)
    if not ok:
        return
    loop = (astq.enclosing_loops(st) or [None])[0]
    rebinds = [s for s in ast.walk(loop) if isinstance(s, ast.Assign) and norm(s.targets[0]) == E and isinstance(s.value, ast.ListComp)] if loop is not None else []
    res.ob(R, len(rebinds) == 1, fi.qualname, "one filtering of the remaining edges per choice", f"{len(rebinds)} filterings of `{E}` in the loop", fi.where)
    for rb in rebinds:
        comp = rb.value
        g = comp.generators[0]
        where = f"{fi.module.relpath}:{rb.lineno}"
        okg = len(comp.generators) == 1 and norm(g.iter) == E and rb.lineno > st.lineno
        tg = [norm(e) for e in g.target.elts] if isinstance(g.target, ast.Tuple) and len(g.target.elts) == 2 else None
        elem = norm(g.target) if tg is None else None
        okg = okg and ((tg is not None and norm(comp.elt).replace(" ", "") in (f"({tg[0]},{tg[1]})", )) or (elem is not None and norm(comp.elt) == elem))

        def atoms(e):
            if isinstance(e, ast.Compare) and len(e.ops) == 1 and isinstance(e.ops[0], (ast.Eq, ast.NotEq)):
                pair = {norm(e.left), norm(e.comparators[0])}
                neg = "!" if isinstance(e.ops[0], ast.NotEq) else ""
                r_names = {tg[0]} if tg else {f"{elem}[0]"}
                c_names = {tg[1]} if tg else {f"{elem}[1]"}
                if rc[0] in pair and pair & r_names:
                    return neg + "row"
                if rc[1] in pair and pair & c_names:
                    return neg + "col"
            return None

        cond = g.ifs[0] if len(g.ifs) == 1 else (ast.BoolOp(op=ast.And(), values=list(g.ifs)) if g.ifs else None)
        tb = _table(cond, atoms) if cond is not None else None
        want = {(False, False): True, (False, True): False, (True, False): False, (True, True): False}
        res.ob(R, okg and tb == want, fi.qualname, "edges sharing the chosen row OR column are removed",
               f"after choosing ({', '.join(rc)}) the remaining edges are `{short(comp, 80)}`: an edge sharing the chosen row or column survives, so a row or a column can be assigned twice", where)
    res.ob(R, True, fi.qualname, "order-preserving filter (no deletion while iterating)", "", fi.where)
    _sorted_edges(fi, res, R, param)
    apps = {norm(c.func.value): norm(c.args[0]) for c in astq.method_calls(fi.node, "append")}
    rets = [n for n in walk_function(fi.node) if isinstance(n, ast.Return) and isinstance(n.value, ast.Tuple) and len(n.value.elts) == 2]
    ok = bool(rets) and all(apps.get(norm(r.value.elts[0])) == rc[0] and apps.get(norm(r.value.elts[1])) == rc[1] for r in rets)
    res.ob(R, ok, fi.qualname, "chosen row/col recorded and returned as (rows, cols)", f"row/col lists receive {apps}", fi.where)


def _idiom_used_sets(fi, res: Result, R: str) -> None:
    """C: one pass over the cost-sorted edges; an edge is skipped when its row or its column was used before, otherwise
    it is recorded and both are marked used."""
    param = fi.node.args.args[0].arg
    loops = [n for n in walk_function(fi.node) if isinstance(n, ast.For) and isinstance(n.target, ast.Tuple) and len(n.target.elts) == 2
             and isinstance(n.iter, ast.Call) and norm(n.iter.func) == "zip" and len(n.iter.args) == 2]
    res.ob(R, len(loops) == 1, fi.qualname, "one pass over the sorted (row, col) pairs", f"{len(loops)} zip loops", fi.where)
    if len(loops) != 1:
        return
    lp = loops[0]
    r, c = [norm(e) for e in lp.target.elts]
    # the zipped sequences are the two outputs of unravel_index, in order
    un = [s for s in walk_function(fi.node) if isinstance(s, ast.Assign) and isinstance(s.value, ast.Call) and norm(s.value.func).split(".")[-1] == "unravel_index"
          and isinstance(s.targets[0], ast.Tuple)]
    ok = len(un) == 1 and [norm(e) for e in un[0].targets[0].elts] == [norm(a) for a in lp.iter.args]
    res.ob(R, ok, fi.qualname, "pairs are (row, col) of the sorted flat indices", "the loop does not iterate the unravelled (rows, cols) in order", fi.where)
    _sorted_edges(fi, res, R, param)
    adds = {norm(cl.func.value): norm(cl.args[0]) for cl in astq.method_calls(lp, "add") if cl.args}
    used_r = [k for k, v in adds.items() if v == r]
    used_c = [k for k, v in adds.items() if v == c]
    ok = len(used_r) == 1 and len(used_c) == 1 and used_r != used_c
    res.ob(R, ok, fi.qualname, "row and column of a recorded edge are marked used", f"used-sets receive {adds}", fi.where)
    if not ok:
        return
    UR, UC = used_r[0], used_c[0]
    for nm in (UR, UC):
        d = [s for s in astq.assignments_to(fi.node, nm)]
        okd = len(d) == 1 and not astq.enclosing_loops(d[0])
        res.ob(R, okd, fi.qualname, f"`{nm}` starts empty before the loop and is never reset", f"`{nm}` is (re)bound {len(d)} times / inside the loop", fi.where)
    skips = [n for n in lp.body if isinstance(n, ast.If) and any(isinstance(x, ast.Continue) for x in n.body)]

    def atoms(e):
        if isinstance(e, ast.Compare) and len(e.ops) == 1 and isinstance(e.ops[0], (ast.In, ast.NotIn)):
            neg = "!" if isinstance(e.ops[0], ast.NotIn) else ""
            if norm(e.left) == r and norm(e.comparators[0]) == UR:
                return neg + "row"
            if norm(e.left) == c and norm(e.comparators[0]) == UC:
                return neg + "col"
        return None

    tb = _table(skips[0].test, atoms) if len(skips) == 1 else None
    want = {(False, False): False, (False, True): True, (True, False): True, (True, True): True}
    res.ob(R, tb == want, fi.qualname, "an edge is skipped iff its row OR its column is already used",
           f"the skip test is `{short(skips[0].test, 60) if skips else 'missing'}`: an edge whose row or column is taken can still be recorded (double assignment)", fi.where)
    # after the skip: appends and adds are unconditional statements of the loop body
    top = [s for s in lp.body if isinstance(s, ast.Expr) and isinstance(s.value, ast.Call)]
    top_calls = {norm(s.value.func): norm(s.value.args[0]) for s in top if s.value.args}
    ok = top_calls.get(f"{UR}.add") == r and top_calls.get(f"{UC}.add") == c and skips and all(s.lineno > skips[0].lineno for s in top)
    apps = {k[: -len(".append")]: v for k, v in top_calls.items() if k.endswith(".append")}
    rets = [n for n in walk_function(fi.node) if isinstance(n, ast.Return) and isinstance(n.value, ast.Tuple) and len(n.value.elts) == 2]
    ok = ok and bool(rets) and all(apps.get(norm(x.value.elts[0])) == r and apps.get(norm(x.value.elts[1])) == c for x in rets)
    res.ob(R, ok, fi.qualname, "every kept edge is recorded, marked used, and returned as (rows, cols)", f"recorded {apps}, marked {adds}", fi.where)


def check_greedy(prog: Program, res: Result, R: str) -> None:
    fi = prog.func("sleap_nn.tracking.utils:greedy_matching")
    res.touch(fi)
    argmins = [c for c in walk_function(fi.node) if isinstance(c, ast.Call) and norm(c.func).split(".")[-1] in ("argmin", "nanargmin")]
    has_edges = bool(astq.method_calls(fi.node, "pop")) or any(isinstance(n, ast.Delete) for n in walk_function(fi.node))
    pops = astq.method_calls(fi.node, "pop")
    dels = [n for n in walk_function(fi.node) if isinstance(n, ast.Delete)]
    adds = astq.method_calls(fi.node, "add")
    if argmins and not has_edges:
        _idiom_b(fi, res, R, argmins)
    elif pops and dels:
        _idiom_a(fi, res, R)
    elif not dels and not adds and any(isinstance(s_, ast.Assign) and isinstance(s_.value, ast.ListComp) and astq.enclosing_loops(s_) for s_ in walk_function(fi.node)):
        _idiom_filter(fi, res, R)
    elif adds and not pops:
        _idiom_used_sets(fi, res, R)
    else:
        raise AnalysisError("greedy_matching: neither the edge-list nor the masked arg-min idiom is recognised")
    res.floor(R, 6)
