"""One-to-one-ness of tracking/utils.greedy_matching, shared by C09 (no double assignment) and C15.

Two implementation idioms are recognised; anything else is reported as not analysable (exit 2), never as a violation.
 A  edge list: sort all edges by cost, repeatedly pop the head, delete every remaining edge sharing its row OR column
    (iterating backwards so that deletion does not skip elements).
 B  masking: repeatedly take the arg-min of a private copy of the matrix and overwrite the chosen row AND column with
    +inf.  The arg-min of an exhausted or non-finite matrix is an already used cell, so the choice must be guarded by a
    finiteness test that leaves the loop (infinite costs do reach the matchers: C09-inf).
"""

from __future__ import annotations

import ast

from ..core import astq
from ..core.program import AnalysisError, Program, ancestors, enclosing_stmt, norm, short, walk_function
from ..report import Result

INF = ("np.inf", "numpy.inf", "float('inf')", "math.inf", "np.Inf", "np.infty")


def _idiom_a(fi, res: Result, R: str) -> None:
    pops = [c for c in astq.method_calls(fi.node, "pop")]
    ok = len(pops) == 1 and isinstance(pops[0].func.value, ast.Name) and len(pops[0].args) == 1 and astq.const_value(pops[0].args[0]) == 0
    res.ob(R, ok, fi.qualname, "lowest-cost edge taken first", "the next edge is not popped from the head of the sorted edge list", fi.where)
    if not ok:
        return
    E = pops[0].func.value.id  # the edge list
    param = fi.node.args.args[0].arg if fi.node.args.args else "cost_matrix"
    st = enclosing_stmt(pops[0])
    rc = [norm(e) for e in st.targets[0].elts] if isinstance(st, ast.Assign) and isinstance(st.targets[0], ast.Tuple) else []
    dels = [n for n in walk_function(fi.node) if isinstance(n, ast.Delete)]
    res.ob(R, len(dels) == 1 and len(rc) == 2, fi.qualname, "one removal statement", f"{len(dels)} del statements", fi.where)
    if len(dels) != 1 or len(rc) != 2:
        return
    lp = astq.enclosing_loops(dels[0])
    iv = norm(lp[0].target) if lp and isinstance(lp[0], ast.For) else "?"
    g = [a for a in ancestors(dels[0]) if isinstance(a, ast.If)]
    t = g[0].test if g else None
    ok = isinstance(t, ast.BoolOp) and isinstance(t.op, ast.Or) and len(t.values) == 2
    if ok:
        def _eq(v):
            if isinstance(v, ast.Compare) and len(v.ops) == 1 and isinstance(v.ops[0], ast.Eq):
                return frozenset((norm(v.left), norm(v.comparators[0])))
            return None
        parts = {_eq(v) for v in t.values}
        ok = parts == {frozenset((f"{E}[{iv}][0]", rc[0])), frozenset((f"{E}[{iv}][1]", rc[1]))}
    ok = ok and norm(dels[0].targets[0]) == f"{E}[{iv}]"
    res.ob(R, ok, fi.qualname, "edges sharing the chosen row OR column are removed",
           f"after choosing ({', '.join(rc)}) edges are removed under `{short(t, 70) if t is not None else '?'}`: a row or a column can be assigned twice",
           f"{fi.module.relpath}:{dels[0].lineno}")
    it = norm(lp[0].iter) if lp and isinstance(lp[0], ast.For) else "?"
    ok = it in (f"range(len({E}) - 1, -1, -1)", f"reversed(range(len({E})))")
    res.ob(R, ok, fi.qualname, "removal iterates backwards",
           f"removal iterates `{short(lp[0].iter, 50) if lp else '?'}`: deleting while iterating forwards skips edges", f"{fi.module.relpath}:{dels[0].lineno}")
    srt = [c for c in walk_function(fi.node) if isinstance(c, ast.Call) and norm(c.func).split(".")[-1] == "argsort"]
    ok = len(srt) == 1 and srt[0].args and norm(srt[0].args[0]) == param and any(k.arg == "axis" and norm(k.value) == "None" for k in srt[0].keywords) \
        and not any(k.arg in ("descending",) for k in srt[0].keywords)
    res.ob(R, ok, fi.qualname, "edges sorted by ascending cost over the whole matrix", "edges are not sorted by ascending cost over the flattened matrix", fi.where)
    apps = {norm(c.func.value): norm(c.args[0]) for c in astq.method_calls(fi.node, "append")}
    rets = [n for n in walk_function(fi.node) if isinstance(n, ast.Return) and isinstance(n.value, ast.Tuple) and len(n.value.elts) == 2]
    ok = bool(rets) and all(apps.get(norm(r.value.elts[0])) == rc[0] and apps.get(norm(r.value.elts[1])) == rc[1] for r in rets)
    res.ob(R, ok, fi.qualname, "chosen row/col recorded and returned as (rows, cols)", f"row/col lists receive {apps}", fi.where)


def _idiom_b(fi, res: Result, R: str, argmins) -> None:
    res.ob(R, len(argmins) == 1, fi.qualname, "one arg-min choice", f"{len(argmins)} arg-min calls", fi.where)
    if len(argmins) != 1:
        return
    am = argmins[0]
    mat = norm(am.args[0]) if am.args else (norm(am.func.value) if isinstance(am.func, ast.Attribute) else "?")
    st = enclosing_stmt(am)
    rc = [e.id for e in st.targets[0].elts if isinstance(e, ast.Name)] if isinstance(st, ast.Assign) and isinstance(st.targets[0], ast.Tuple) else []
    loops = astq.enclosing_loops(st)
    if len(rc) != 2 or not loops or "unravel_index" not in norm(st.value):
        raise AnalysisError(f"greedy_matching: arg-min choice `{short(st, 60)}` not recognised")
    loop = loops[0]
    where = f"{fi.module.relpath}:{st.lineno}"
    row_masked = col_masked = False
    for s in ast.walk(loop):
        if isinstance(s, ast.Assign) and isinstance(s.targets[0], ast.Subscript) and norm(s.targets[0].value) == mat and s.lineno > st.lineno:
            sl = s.targets[0].slice
            if isinstance(sl, ast.Tuple) and len(sl.elts) == 2 and norm(s.value) in INF:
                a, b = sl.elts
                if norm(a) == rc[0] and isinstance(b, ast.Slice) and b.lower is None and b.upper is None:
                    row_masked = True
                if norm(b) == rc[1] and isinstance(a, ast.Slice) and a.lower is None and a.upper is None:
                    col_masked = True
    res.ob(R, row_masked and col_masked, fi.qualname, "chosen row AND column are masked with +inf",
           f"after choosing ({rc[0]}, {rc[1]}) {'the row' if not row_masked else 'the column'} is not masked: it can be assigned twice", where)
    # private copy
    defs = [d for d in astq.assignments_to(fi.node, mat) if isinstance(d, ast.Assign)]
    # (a parameter re-bound to a copy before the loop is private too)
    fresh = bool(defs) and all(isinstance(d.value, ast.Call) and norm(d.value.func).split(".")[-1] in ("array", "copy", "astype", "full_like", "deepcopy")
                               and d.lineno < loop.lineno for d in defs)
    res.ob(R, fresh, fi.qualname, "masking works on a private copy", f"`{mat}` is masked in place but is not a private copy of the caller's matrix", where)
    # finiteness guard leaving the loop before the choice is recorded
    guard = False
    for s in ast.walk(loop):
        if isinstance(s, ast.If) and s.lineno > st.lineno:
            t = norm(s.test)
            mentions = (f"{mat}[{rc[0]}, {rc[1]}]" in t) or any(
                isinstance(d, ast.Assign) and f"{mat}[{rc[0]}, {rc[1]}]" in norm(d.value) and any(n in astq.names_in(s.test) for n in astq.target_names(d.targets[0]))
                for d in ast.walk(loop) if isinstance(d, ast.Assign))
            leaves = any(isinstance(x, (ast.Break, ast.Return)) for x in s.body)
            nonfinite = ("not np.isfinite" in t) or ("np.isinf" in t and "not np.isinf" not in t) or any(f"== {i}" in t or f">= {i}" in t for i in INF)
            apps = [c for c in astq.method_calls(loop, "append")]
            before = all(c.lineno > s.lineno for c in apps)
            if mentions and leaves and nonfinite and before:
                guard = True
    res.ob(R, guard, fi.qualname, "the loop is left when the minimum is not finite",
           f"the arg-min of `{mat}` is recorded without testing that it is finite: with +inf/NaN costs (see C09-inf) or an exhausted matrix the "
           "arg-min is an already assigned cell, so one row/column is assigned twice", where)
    apps = {norm(c.func.value): norm(c.args[0]) for c in astq.method_calls(loop, "append")}
    rets = [n for n in walk_function(fi.node) if isinstance(n, ast.Return) and isinstance(n.value, ast.Tuple) and len(n.value.elts) == 2]
    ok = bool(rets) and all(apps.get(norm(r.value.elts[0])) == rc[0] and apps.get(norm(r.value.elts[1])) == rc[1] for r in rets)
    res.ob(R, ok, fi.qualname, "chosen row/col recorded and returned as (rows, cols)", f"the recorded choices {apps} are not returned as (rows, cols)", fi.where)
    res.ob(R, True, fi.qualname, "idiom: masked arg-min", "", fi.where)


def check_greedy(prog: Program, res: Result, R: str) -> None:
    fi = prog.func("sleap_nn.tracking.utils:greedy_matching")
    res.touch(fi)
    argmins = [c for c in walk_function(fi.node) if isinstance(c, ast.Call) and norm(c.func).split(".")[-1] in ("argmin", "nanargmin")]
    has_edges = bool(astq.method_calls(fi.node, "pop")) or any(isinstance(n, ast.Delete) for n in walk_function(fi.node))
    if argmins and not has_edges:
        _idiom_b(fi, res, R, argmins)
    elif has_edges:
        _idiom_a(fi, res, R)
    else:
        raise AnalysisError("greedy_matching: neither the edge-list nor the masked arg-min idiom is recognised")
    res.floor(R, 6)
