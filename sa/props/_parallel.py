"""Parallel arrays are read at one position.

The tracking stores keep per-detection data in parallel lists on one object (TrackInstances.features / .src_instances /
.track_ids / .tracking_scores / .instance_scores).  A record assembled from them - a constructor call whose arguments
index several of those lists of the SAME object - must read every list at the same index expression: an argument that
indexes by a different variable (the track id instead of the position of that id, say) pairs one animal's pose with
another animal's identity as soon as ids and positions differ.  (Cross-checking sibling arguments of one call site;
Engler et al.'s "deviant" rule, exact here because the siblings are in the same expression.)"""

from __future__ import annotations

import ast
from typing import Dict, List

from ..core import astq
from ..core.program import Program, enclosing_stmt, norm, short, walk_function
from ..report import Result


def check_parallel_index(prog: Program, res: Result, rule: str, module_prefix: str = "sleap_nn.tracking", floor: int = 1) -> None:
    n = 0
    for fi in prog.all_functions():
        if not fi.module.name.startswith(module_prefix):
            continue
        for c in walk_function(fi.node):
            if not isinstance(c, ast.Call):
                continue
            groups: Dict[str, List[ast.Subscript]] = {}
            for a in list(c.args) + [k.value for k in c.keywords]:
                if isinstance(a, ast.Name):  # a named intermediate: read through it
                    try:
                        a = astq.expand_at(fi.node, a, enclosing_stmt(c), depth=2) or a
                    except Exception:
                        pass
                if isinstance(a, ast.Subscript) and isinstance(a.value, ast.Attribute) and isinstance(a.value.value, ast.Name) \
                        and isinstance(a.slice, (ast.Name, ast.Constant)):
                    groups.setdefault(a.value.value.id, []).append(a)
            for base, subs in groups.items():
                if len({s.value.attr for s in subs}) < 2:
                    continue
                n += 1
                res.touch(fi)
                idx = sorted({norm(s.slice) for s in subs})
                res.ob(rule, len(idx) == 1, fi.qualname, f"{norm(c.func)}(...): {len(subs)} parallel lists of `{base}` read at [{idx[0]}]",
                       f"`{short(c, 60)}` reads the parallel lists of `{base}` at different positions {idx} "
                       f"({', '.join(norm(s) for s in subs)}): the record mixes the data of two detections", f"{fi.module.relpath}:{c.lineno}",
                       sample={"call": norm(c.func), "index": idx})
    res.floor(rule, floor)
