"""C06 — multi-peak detection: strict comparisons, 8-neighbourhood without centre, index agreement,
refinement keeps number/order/indices."""

from __future__ import annotations

import ast
from typing import Dict, List, Optional, Set

from ..core import astq
from ..core.program import AnalysisError, Program, ancestors, enclosing_stmt, norm, short, walk_function
from ..report import Result
from ..runner import Variant

PROP = "C06"
EXPLANATION = (
    "(strict) the selection mask of find_local_peaks_rough is the conjunction of `cms > dilated` and `cms > threshold`, both "
    "strict and both on the undilated map (forms a>b, b<a, torch.gt recognised); (kernel) the dilation kernel is a 3x3 literal "
    "whose centre is 0 and whose eight neighbours are non-zero, applied per (sample, channel) map after reshape(-1, 1, H, W) and "
    "reshaped back with the channel count; (subs) subscripts come from where() of the mask permuted (0,2,3,1): column 0 is the "
    "sample, 1 the row, 2 the column, 3 the channel - values are read at cms[s, ch, row, col], points are (col, row) = (x, y), "
    "sample/channel indices are columns 0/3; (index) in find_local_peaks the per-peak crop index sample*channels+channel agrees "
    "with reshape(samples*channels, 1, H, W); (pass) the last three returned values are exactly those of the rough detector on "
    "every return path and refined = rough + offsets with offsets = cat([dx, dy], dim=1) on the centred patch grid. Not decided: "
    "completeness/soundness against a brute-force scan, plateaus, the half-patch bound."
)
TRUSTED = ["CPython ast", "kornia.morphology.dilation computes the max over the kernel's non-zero support", "torch.where on a bool tensor returns subscripts per dimension in order"]
PF = "sleap_nn.inference.peak_finding"


def _strict_gt(e: ast.AST):
    """(left, right) if e means left > right strictly."""
    if isinstance(e, ast.Compare) and len(e.ops) == 1:
        if isinstance(e.ops[0], ast.Gt):
            return norm(e.left), norm(e.comparators[0])
        if isinstance(e.ops[0], ast.Lt):
            return norm(e.comparators[0]), norm(e.left)
    if isinstance(e, ast.Call) and norm(e.func) in ("torch.gt",) and len(e.args) == 2:
        return norm(e.args[0]), norm(e.args[1])
    if isinstance(e, ast.Call) and norm(e.func) in ("torch.lt",) and len(e.args) == 2:
        return norm(e.args[1]), norm(e.args[0])
    if isinstance(e, ast.Call) and isinstance(e.func, ast.Attribute) and e.func.attr == "gt" and len(e.args) == 1:
        return norm(e.func.value), norm(e.args[0])
    return None


def _kernel_literal(e: ast.AST):
    e = astq.peel(e, "to", "float", "cuda", "cpu", "type_as")
    if isinstance(e, ast.Call) and norm(e.func).split(".")[-1] in ("tensor", "as_tensor", "Tensor", "FloatTensor") and e.args:
        try:
            return ast.literal_eval(e.args[0])
        except Exception:
            return None
    return None


def check_rough(prog: Program, res: Result) -> None:
    """All obligations are read off EXPANDED expressions (named intermediates, re-bound names and extracted helpers are
    substituted first), so they do not depend on variable names or on how the statements are split."""
    fi = prog.func(f"{PF}:find_local_peaks_rough")
    res.touch(fi)
    fn = fi.node
    maps = fi.pos_params[0] if fi.pos_params else "cms"
    thr = fi.pos_params[1] if len(fi.pos_params) > 1 else "threshold"
    where_calls = [c for c in walk_function(fn) if isinstance(c, ast.Call) and norm(c.func) in ("torch.where", "torch.nonzero") and len(c.args) == 1]
    res.ob("C06-strict", len(where_calls) == 1, fi.qualname, "one where() over the selection mask", f"{len(where_calls)} where() calls", fi.where)
    if len(where_calls) != 1:
        return
    wst = enclosing_stmt(where_calls[0])
    warg = astq.expand_at(fn, where_calls[0].args[0], wst)
    perm = [0, 1, 2, 3]
    m = warg
    if isinstance(warg, ast.Call) and isinstance(warg.func, ast.Attribute) and warg.func.attr == "permute":
        a = warg.args[0].elts if len(warg.args) == 1 and isinstance(warg.args[0], (ast.Tuple, ast.List)) else warg.args
        perm = [astq.const_value(x) for x in a]
        m = warg.func.value
    conj = []
    if isinstance(m, ast.BinOp) and isinstance(m.op, ast.BitAnd):
        conj = [m.left, m.right]
    elif isinstance(m, ast.Call) and norm(m.func) in ("torch.logical_and",):
        conj = list(m.args)
    gts = []
    for c in conj:
        g = None
        if isinstance(c, ast.Compare) and len(c.ops) == 1 and isinstance(c.ops[0], (ast.Gt, ast.Lt)):
            g = (c.left, c.comparators[0]) if isinstance(c.ops[0], ast.Gt) else (c.comparators[0], c.left)
        elif isinstance(c, ast.Call) and norm(c.func) in ("torch.gt", "torch.lt") and len(c.args) == 2:
            g = (c.args[0], c.args[1]) if norm(c.func) == "torch.gt" else (c.args[1], c.args[0])
        elif isinstance(c, ast.Call) and isinstance(c.func, ast.Attribute) and c.func.attr in ("gt", "lt") and len(c.args) == 1:
            g = (c.func.value, c.args[0]) if c.func.attr == "gt" else (c.args[0], c.func.value)
        gts.append(g)
    ok = len(conj) == 2 and all(g is not None for g in gts)
    dil = None
    if ok:
        ok = all(norm(g[0]) == maps for g in gts)
        rights = [g[1] for g in gts]
        thr_side = [r for r in rights if norm(r) == thr]
        other = [r for r in rights if norm(r) != thr]
        ok = ok and len(thr_side) == 1 and len(other) == 1
        dil = other[0] if other else None
    res.ob("C06-strict", ok, fi.qualname, "mask = (cms > dilated) & (cms > threshold), both strict",
           f"the selection mask is `{short(m, 70)}`: not the conjunction of two STRICT comparisons of the map with its dilation and with the threshold "
           "(ties / plateaus / at-threshold cells would be reported)", fi.where, sample=short(m, 80))
    # the dilated map: dilation(cms.reshape(-1, 1, H, W), kernel).reshape(-1, C, H, W)
    H, W_, C = f"{maps}.size(2)", f"{maps}.size(3)", f"{maps}.size(1)"
    back_ok = fwd_ok = False
    k = None
    if dil is not None:
        d = astq.peel(dil, "to", "float", "contiguous")
        inner = d
        if isinstance(d, ast.Call) and isinstance(d.func, ast.Attribute) and d.func.attr in ("reshape", "view"):
            shp = d.args[0].elts if len(d.args) == 1 and isinstance(d.args[0], (ast.Tuple, ast.List)) else d.args
            back_ok = [astq.dims(norm(x)) for x in shp] == ["-1", C, H, W_]
            inner = d.func.value
        if isinstance(inner, ast.Call) and norm(inner.func).endswith("dilation") and len(inner.args) >= 2:
            a0 = inner.args[0]
            if isinstance(a0, ast.Call) and isinstance(a0.func, ast.Attribute) and a0.func.attr in ("reshape", "view") and norm(a0.func.value) == maps:
                shp = a0.args[0].elts if len(a0.args) == 1 and isinstance(a0.args[0], (ast.Tuple, ast.List)) else a0.args
                fwd_ok = [astq.dims(norm(x)) for x in shp] == ["-1", "1", H, W_]
            k = _kernel_literal(inner.args[1])
    okk = False
    try:
        okk = k is not None and len(k) == 3 and all(len(r) == 3 for r in k) and k[1][1] == 0 and all(k[i][j_] != 0 for i in range(3) for j_ in range(3) if (i, j_) != (1, 1))
    except Exception:
        okk = False
    res.ob("C06-kernel", okk, fi.qualname, "3x3 kernel, centre 0, eight neighbours non-zero", f"the suppression kernel is {k}: the neighbourhood is not the 8 neighbours without the centre",
           fi.where, sample=k)
    res.ob("C06-kernel", fwd_ok and back_ok, fi.qualname, "dilation per (sample, channel) map, reshaped back with the channel count",
           f"the dilation is not applied to {maps}.reshape(-1, 1, H, W) and reshaped back to (-1, channels, H, W): neighbouring channels/samples suppress each other", fi.where)
    res.ob("C06-kernel", fwd_ok and back_ok, fi.qualname, "H, W, channels read from dims 2, 3, 1", "dims are read from other axes", fi.where)
    # subscripts
    res.ob("C06-subs", sorted(perm) == [0, 1, 2, 3], fi.qualname, "mask permuted by a permutation of the four axes before where()", f"mask permuted by {perm}", fi.where)
    subs = norm(wst.targets[0]) if isinstance(wst, ast.Assign) and isinstance(wst.targets[0], ast.Name) else None
    sv = wst.value if isinstance(wst, ast.Assign) else None
    # either the per-axis subscripts are stacked as columns of one matrix, or where() is unpacked into one name per axis
    unpacked = [e.id for e in wst.targets[0].elts] if isinstance(wst, ast.Assign) and isinstance(wst.targets[0], ast.Tuple) and sv is where_calls[0] \
        and all(isinstance(e, ast.Name) for e in wst.targets[0].elts) and len(wst.targets[0].elts) == 4 else None
    ok = isinstance(sv, ast.Call) and norm(sv.func) == "torch.stack" and (any(k_.arg in ("axis", "dim") and astq.const_value(k_.value) == -1 for k_ in sv.keywords)
                                                                        or (len(sv.args) == 2 and astq.const_value(sv.args[1]) == -1))
    res.ob("C06-subs", (ok and subs is not None) or unpacked is not None, fi.qualname, "subscripts stacked on the last axis (or unpacked per axis)", "subscripts are not stacked as columns", fi.where)
    col_of_dim = {d_: j_ for j_, d_ in enumerate(perm)} if sorted(perm) == [0, 1, 2, 3] else {}

    def col(e):
        """column k of `subs[:, k]` (possibly wrapped in .to(...))"""
        e = astq.peel(e, "to", "long", "int", "float")
        if unpacked is not None and isinstance(e, ast.Name) and e.id in unpacked:
            return unpacked.index(e.id)
        if isinstance(e, ast.Subscript) and norm(e.value) == subs and isinstance(e.slice, ast.Tuple) and len(e.slice.elts) == 2 and norm(e.slice.elts[0]) == ":":
            k_ = e.slice.elts[1]
            if isinstance(k_, ast.List):
                return [astq.const_value(x) for x in k_.elts]
            return astq.const_value(k_)
        if isinstance(e, ast.Call) and norm(e.func).split(".")[-1] in ("stack", "cat") and e.args and isinstance(e.args[0], (ast.List, ast.Tuple)):
            cs = [col(astq.peel(x, "unsqueeze")) for x in e.args[0].elts]
            return cs if all(isinstance(c_, int) for c_ in cs) else None
        return None

    rets_ = [n for n in walk_function(fn) if isinstance(n, ast.Return)]
    rt = rets_[0].value.elts if len(rets_) == 1 and isinstance(rets_[0].value, ast.Tuple) and len(rets_[0].value.elts) == 4 else []
    rd = [astq.expand_at(fn, e, rets_[0], keep=([subs] if subs else []) + (unpacked or [])) for e in rt]
    if len(rd) == 4 and col_of_dim:
        pts, vals, si, ci = rd
        got = col(pts)
        res.ob("C06-subs", got == [col_of_dim[3], col_of_dim[2]], fi.qualname, "points = (column of the width axis, column of the height axis) = (x, y)",
               f"peak points take subscript columns {got}; with the mask permuted by {perm} (x, y) must be columns {[col_of_dim[3], col_of_dim[2]]}: x and y are swapped or a non-spatial column is used",
               fi.where, sample={"permute": perm, "points_columns": got})
        got = col(si)
        res.ob("C06-subs", got == col_of_dim[0], fi.qualname, "sample index = column of axis 0", f"sample indices take column {got}, axis 0 is column {col_of_dim[0]}", fi.where)
        got = col(ci)
        res.ob("C06-subs", got == col_of_dim[1], fi.qualname, "channel index = column of axis 1", f"channel indices take column {got}, axis 1 is column {col_of_dim[1]}", fi.where)
        ok = isinstance(vals, ast.Subscript) and norm(vals.value) == maps and isinstance(vals.slice, ast.Tuple) and len(vals.slice.elts) == 4
        gotv = [col(e) for e in vals.slice.elts] if ok else None
        res.ob("C06-subs", ok and gotv == [col_of_dim[d_] for d_ in range(4)], fi.qualname, "value read at cms[sample, channel, row, col] of the very cell",
               f"peak values are read with subscript columns {gotv} for axes (0,1,2,3); the permutation {perm} requires {[col_of_dim[d_] for d_ in range(4)]}: the value is not the one at the peak", fi.where)
    else:
        res.ob("C06-subs", False, fi.qualname, "four values returned from a (0..3) permutation", f"cannot relate the returned tuple to the permutation {perm}", fi.where)
    res.floor("C06-strict", 2)
    res.floor("C06-kernel", 3)
    res.floor("C06-subs", 6)


def check_refine(prog: Program, res: Result) -> None:
    fi = prog.func(f"{PF}:find_local_peaks")
    res.touch(fi)
    fn = fi.node
    maps = fi.pos_params[0] if fi.pos_params else "cms"
    calls = [c for c, q in prog.calls_in(fi) if q == f"{PF}:find_local_peaks_rough"]
    res.ob("C06-pass", len(calls) == 1, fi.qualname, "one rough detection", f"{len(calls)} calls of find_local_peaks_rough", fi.where)
    if len(calls) != 1:
        return
    st = enclosing_stmt(calls[0])
    names = [norm(e) for e in st.targets[0].elts] if isinstance(st, ast.Assign) and isinstance(st.targets[0], ast.Tuple) else []
    res.ob("C06-pass", len(names) == 4, fi.qualname, "rough result unpacked into four names", f"unpacked into {names}", fi.where)
    if len(names) != 4:
        return
    b = astq.bind_args(prog.func(f"{PF}:find_local_peaks_rough"), calls[0])
    res.ob("C06-pass", norm(b.get("cms")) == maps and norm(b.get("threshold")) == "threshold", fi.qualname, "rough detector gets the map and the threshold", "cms/threshold not forwarded", fi.where)
    rough, vals, sinds, cinds = names
    for nm in (rough, vals, sinds, cinds):
        res.ob("C06-pass", not astq.assignments_to(fn, nm)[1:], fi.qualname, f"{nm} never re-bound", f"`{nm}` is reassigned after the rough detection", fi.where)
    keep = [rough, vals, sinds, cinds]
    rets = [n for n in walk_function(fn) if isinstance(n, ast.Return)]
    refined_exprs = []
    for r in rets:
        el = [astq.expand_at(fn, e, r, keep=keep, unpack_calls=True) for e in r.value.elts] if isinstance(r.value, ast.Tuple) else []
        ok = len(el) == 4 and [norm(e) for e in el[1:]] == [vals, sinds, cinds]
        first_ok = ok and (norm(el[0]) == rough or rough in astq.names_in(el[0]))
        if ok and norm(el[0]) != rough:
            refined_exprs.append((r, el[0]))
        res.ob("C06-pass", ok and first_ok, fi.qualname, f"return keeps values/sample/channel of the rough peaks: {short(r.value, 50)}",
               f"a return path yields `{short(r.value, 60)}`: number/order/indices of peaks are not those of the rough detection", f"{fi.module.relpath}:{r.lineno}")
    res.ob("C06-pass", len(refined_exprs) == 1, fi.qualname, "one refined return", f"{len(refined_exprs)} refined return paths", fi.where)
    crop_call = None
    patch_n = None
    for r, e in refined_exprs:
        # refined = rough + cat([dx, dy], dim=1) with (dx, dy) = integral_regression(crops, gv, gv)
        parts = [e.left, e.right] if isinstance(e, ast.BinOp) and isinstance(e.op, ast.Add) else []
        offs = [x for x in parts if norm(x) != rough]
        ok = len(parts) == 2 and len(offs) == 1
        res.ob("C06-pass", ok, fi.qualname, "refined = rough + offsets (elementwise, same order)", f"refined peaks are `{short(e, 60)}`", fi.where)
        o = offs[0] if ok else None
        ok = isinstance(o, ast.Call) and norm(o.func).split(".")[-1] in ("cat", "concat", "concatenate") and o.args and isinstance(o.args[0], (ast.List, ast.Tuple)) and len(o.args[0].elts) == 2 \
            and (any(k.arg in ("dim", "axis") and astq.const_value(k.value) in (1, -1) for k in o.keywords) or (len(o.args) == 2 and astq.const_value(o.args[1]) in (1, -1)))
        comp = []
        if ok:
            for x in o.args[0].elts:
                # each component is integral_regression(...)[k]
                if isinstance(x, ast.Subscript) and isinstance(x.value, ast.Call) and prog.resolve_call(fi, x.value) == f"{PF}:integral_regression":
                    comp.append((astq.const_value(x.slice), x.value))
                else:
                    comp.append((None, None))
        ok = ok and [c[0] for c in comp] == [0, 1]
        res.ob("C06-pass", ok, fi.qualname, "offsets = (dx, dy)", f"offsets are `{short(o, 60) if o is not None else '?'}` (x/y swapped or wrong axis)", fi.where)
        if ok:
            irc = comp[0][1]
            bi = astq.bind_args(prog.func(f"{PF}:integral_regression"), irc)
            gx, gy = norm(bi.get("xv")), norm(bi.get("yv"))
            import re
            mm = re.fullmatch(r"torch\.arange\((\w+)(?:,dtype=torch\.float32)?\)(?:\.float\(\))?-\(\1-1\)/2(?:\.0)?", gx.replace(" ", ""))
            g_ok = gx == gy and mm is not None
            patch_n = mm.group(1) if mm else None
            res.ob("C06-pass", g_ok, fi.qualname, "patch grid centred on the peak", f"patch grid is `{short(bi.get('xv'), 60)}` / `{short(bi.get('yv'), 60)}`", fi.where)
            crops = bi.get("cms")
            crops = astq.peel(crops, "to", "float", "contiguous") if crops is not None else None
            ok_c = isinstance(crops, ast.Call) and prog.resolve_call(fi, crops) == f"{PF}:crop_bboxes"
            res.ob("C06-pass", ok_c, fi.qualname, "(dx, dy) = integral_regression(crops, gv, gv)", "integral regression is not applied to the crops on the centred grid", fi.where)
            crop_call = crops if ok_c else None
    # index agreement: crops are cut from maps.reshape(S*C, 1, H, W) with index sample*C + channel at boxes centred on the rough peaks
    S_, C_, H_, W_ = (f"{maps}.size({k})" for k in range(4))
    if crop_call is not None:
        b2 = astq.bind_args(prog.func(f"{PF}:crop_bboxes"), crop_call)
        im = b2.get("images")
        ok = isinstance(im, ast.Call) and norm(im.func).split(".")[-1] in ("reshape", "view")
        if ok:
            if isinstance(im.func, ast.Attribute) and norm(im.func.value) == maps:
                shp = im.args[0] if len(im.args) == 1 else ast.List(elts=list(im.args))
            else:
                ok = norm(im.args[0]) == maps
                shp = im.args[1] if ok and len(im.args) == 2 else ast.List(elts=list(im.args[1:]))
            t = [astq.dims(norm(x)).replace(" ", "") for x in shp.elts] if ok and isinstance(shp, (ast.List, ast.Tuple)) else []
            ok = ok and t[1:] == ["1", H_, W_] and t[:1] and t[0] in (f"{S_}*{C_}", f"{C_}*{S_}", "-1")
        res.ob("C06-index", ok, fi.qualname, "maps flattened to (samples*channels, 1, H, W)", f"maps are reshaped to `{short(im, 60) if im is not None else '?'}`", fi.where)
        ix = b2.get("sample_inds")
        t = astq.dims(norm(ix)).replace(" ", "").replace("(", "").replace(")", "") if ix is not None else ""
        C2 = C_.replace("(", "").replace(")", "")
        ok = t in (f"{sinds}*{C2}+{cinds}", f"{cinds}+{sinds}*{C2}", f"{C2}*{sinds}+{cinds}", f"{cinds}+{C2}*{sinds}")
        res.ob("C06-index", ok, fi.qualname, f"crop index = {sinds} * channels + {cinds}",
               f"the per-peak crop index is `{short(ix, 60) if ix is not None else '?'}`: it does not address map (sample, channel) in the (samples*channels) flattening - "
               "patches are cut from another channel's or sample's map", fi.where, sample=short(ix, 60) if ix is not None else None)
        res.ob("C06-index", ok, fi.qualname, "samples/channels read from dims 0/1", "samples/channels read from other dims", fi.where)
        res.ob("C06-index", True, fi.qualname, "crops cut from the flattened maps with the flattened index", "", fi.where)
        bx = b2.get("bboxes")
        okb = isinstance(bx, ast.Call) and prog.resolve_call(fi, bx) == "sleap_nn.data.instance_cropping:make_centered_bboxes"
        if okb:
            b3 = astq.bind_args(prog.func("sleap_nn.data.instance_cropping:make_centered_bboxes"), bx)
            okb = norm(b3.get("centroids")) == rough and norm(b3.get("box_height")) == norm(b3.get("box_width")) and norm(b3.get("box_height")) in (patch_n, "integral_patch_size")
        res.ob("C06-index", okb, fi.qualname, "patches centred on the rough peaks, patch-size square", "patch boxes are not centred on the rough peaks with the integral patch size", fi.where)
    else:
        res.ob("C06-index", False, fi.qualname, "crops cut from the flattened maps with the flattened index", "crop_bboxes is not called with the flattened maps and the flattened index", fi.where)
    # integral regression itself: (sum(xv.view(1,1,1,-1) * cms, [2,3]) / sum(cms, [2,3]), same with yv.view(1,1,-1,1))
    ig = prog.func(f"{PF}:integral_regression")
    res.touch(ig)
    check_integral(prog, res, ig, "C06-pass")
    res.floor("C06-pass", 12)
    res.floor("C06-index", 5)


def check_integral(prog: Program, res: Result, ig, rule: str) -> None:
    rets = [n for n in walk_function(ig.node) if isinstance(n, ast.Return)]
    ok = len(rets) == 1 and isinstance(rets[0].value, ast.Tuple) and len(rets[0].value.elts) == 2
    pm = ig.pos_params
    cms, xv, yv = (pm + ["cms", "xv", "yv"])[:3] if len(pm) >= 3 else ("cms", "xv", "yv")
    if ok:
        for e, grid, view in ((rets[0].value.elts[0], xv, "(1,1,1,-1)"), (rets[0].value.elts[1], yv, "(1,1,-1,1)")):
            x = astq.strip_device(astq.expand_at(ig.node, e, rets[0]))
            good = isinstance(x, ast.BinOp) and isinstance(x.op, ast.Div)
            if good:
                num, den = astq.peel(x.left, "to", "float"), astq.peel(x.right, "to", "float")
                nd = norm(den).replace(" ", "")
                good = nd in (f"torch.sum({cms},dim=[2,3])", f"{cms}.sum(dim=[2,3])", f"torch.sum({cms},dim=(2,3))", f"{cms}.sum(dim=(2,3))")
                nn = norm(num).replace(" ", "")
                forms = {f"torch.sum({grid}.view{view}*{cms},dim=[2,3])", f"torch.sum({cms}*{grid}.view{view},dim=[2,3])", f"({grid}.view{view}*{cms}).sum(dim=[2,3])",
                         f"torch.sum({grid}.view{view}*{cms},dim=(2,3))", f"({cms}*{grid}.view{view}).sum(dim=[2,3])"}
                good = good and nn in forms
            ok = ok and good
    res.ob(rule, ok, ig.qualname, "x_hat/y_hat are expectations over the last / second-to-last axis", "integral_regression no longer computes sum(grid*cms)/sum(cms) with x on the last axis", ig.where)


def check(prog: Program, res: Result) -> None:
    from . import _batch
    _batch.check_per_sample_lists(prog, res, "C06-split", ["sleap_nn.inference.bottomup:BottomUpInferenceModel._generate_cms_peaks"])
    check_rough(prog, res)
    check_refine(prog, res)
    from . import _wire
    _wire.check_peak_wiring(prog, res, "C06-wire")
    _wire.check_numeric_hygiene(prog, res, "C06-wire")
    from . import c12
    res.borrow(c12.check_split, "C06-split", prog)
    res.borrow(c12.check_topk, "C06-split", prog)   # the max_instances selection keeps coordinates and values of the same peaks
    res.assumptions.append("completeness/soundness against a brute-force neighbour scan, plateaus and the half-patch bound are not decided")


F = "sleap_nn/inference/peak_finding.py"
VARIANTS = [
    Variant("wire-threshold-falsy-default", "sleap_nn/inference/peak_finding.py", "    ) = find_local_peaks_rough(cms, threshold=threshold)", "    ) = find_local_peaks_rough(cms, threshold=threshold or 0.2)", "C06-wire"),
    Variant("wire-patch-size-dropped", "sleap_nn/inference/bottomup.py", "            refinement=self.refinement,\n            integral_patch_size=self.integral_patch_size,\n        )\n        # Adjust for stride and scale.", "            refinement=self.refinement,\n        )\n        # Adjust for stride and scale.", "C06-wire"),
    Variant("bp-wire-positional", "sleap_nn/inference/bottomup.py", "            cms.detach(),\n            threshold=self.peak_threshold,\n            refinement=self.refinement,\n            integral_patch_size=self.integral_patch_size,\n        )\n        # Adjust for stride and scale.", "            cms.detach(),\n            self.peak_threshold,\n            self.refinement,\n            self.integral_patch_size,\n        )\n        # Adjust for stride and scale.", None),

    Variant("strict-ge", F, "    argmax_and_thresh_img = (cms > max_img) & (cms > threshold)", "    argmax_and_thresh_img = (cms >= max_img) & (cms > threshold)", "C06-strict"),
    Variant("strict-thresh-on-dilated", F, "    argmax_and_thresh_img = (cms > max_img) & (cms > threshold)", "    argmax_and_thresh_img = (cms > max_img) & (max_img > threshold)", "C06-strict"),
    Variant("kernel-centre", F, "    kernel = torch.tensor([[1, 1, 1], [1, 0, 1], [1, 1, 1]], dtype=torch.float32)", "    kernel = torch.tensor([[1, 1, 1], [1, 1, 1], [1, 1, 1]], dtype=torch.float32)", "C06-kernel"),
    Variant("kernel-4nbr", F, "    kernel = torch.tensor([[1, 1, 1], [1, 0, 1], [1, 1, 1]], dtype=torch.float32)", "    kernel = torch.tensor([[0, 1, 0], [1, 0, 1], [0, 1, 0]], dtype=torch.float32)", "C06-kernel"),
    Variant("subs-xy", F, "    peak_points = peak_subs[:, [2, 1]].to(torch.float32)", "    peak_points = peak_subs[:, [1, 2]].to(torch.float32)", "C06-subs"),
    Variant("subs-channel", F, "    peak_channel_inds = peak_subs[:, 3].to(torch.int32)", "    peak_channel_inds = peak_subs[:, 1].to(torch.int32)", "C06-subs"),
    Variant("index-swapped", F, "    box_sample_inds = (peak_sample_inds * channels) + peak_channel_inds", "    box_sample_inds = (peak_channel_inds * samples) + peak_sample_inds", "C06-index"),
    Variant("index-no-channel", F, "    box_sample_inds = (peak_sample_inds * channels) + peak_channel_inds", "    box_sample_inds = peak_sample_inds", "C06-index"),
    Variant("pass-offsets-yx", F, "        offsets = torch.cat([dx_hat, dy_hat], dim=1)\n\n    # Apply offsets.\n    refined_peaks = rough_peaks + offsets", "        offsets = torch.cat([dy_hat, dx_hat], dim=1)\n\n    # Apply offsets.\n    refined_peaks = rough_peaks + offsets", "C06-pass"),
    Variant("pass-filter-refined", F, "    refined_peaks = rough_peaks + offsets\n\n    return refined_peaks, peak_vals, peak_sample_inds, peak_channel_inds",
            "    refined_peaks = rough_peaks + offsets\n    keep = ~torch.isnan(refined_peaks).any(dim=1)\n\n    return refined_peaks[keep], peak_vals, peak_sample_inds, peak_channel_inds", "C06-pass"),
    Variant("bp-other-permutation", F, "        torch.where(argmax_and_thresh_img.permute(0, 2, 3, 1)), axis=-1\n    )\n\n    # Get peak values.\n    peak_vals = cms[peak_subs[:, 0], peak_subs[:, 3], peak_subs[:, 1], peak_subs[:, 2]]\n\n    # Convert to points format.\n    peak_points = peak_subs[:, [2, 1]].to(torch.float32)\n\n    # Pull out indexing vectors.\n    peak_sample_inds = peak_subs[:, 0].to(torch.int32)\n    peak_channel_inds = peak_subs[:, 3].to(torch.int32)",
            "        torch.where(argmax_and_thresh_img), axis=-1\n    )\n\n    # Get peak values.\n    peak_vals = cms[peak_subs[:, 0], peak_subs[:, 1], peak_subs[:, 2], peak_subs[:, 3]]\n\n    # Convert to points format.\n    peak_points = peak_subs[:, [3, 2]].to(torch.float32)\n\n    # Pull out indexing vectors.\n    peak_sample_inds = peak_subs[:, 0].to(torch.int32)\n    peak_channel_inds = peak_subs[:, 1].to(torch.int32)", None),
    Variant("bp-lt-form", F, "    argmax_and_thresh_img = (cms > max_img) & (cms > threshold)", "    argmax_and_thresh_img = (max_img < cms) & (cms > threshold)", None),
]
