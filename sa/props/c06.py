"""C06 — multi-peak detection: strict comparisons, 8-neighbourhood without centre, index agreement,
refinement keeps number/order/indices."""

from __future__ import annotations

import ast
from typing import Dict, List, Optional, Set

from ..core import astq
from ..core.program import AnalysisError, Program, ancestors, enclosing_stmt, norm, short, walk_function
from ..report import Result
from ..runner import Variant

PROP = "C06"
EXPLANATION = (
    "(strict) the selection mask of find_local_peaks_rough is the conjunction of `cms > dilated` and `cms > threshold`, both "
    "strict and both on the undilated map (forms a>b, b<a, torch.gt recognised); (kernel) the dilation kernel is a 3x3 literal "
    "whose centre is 0 and whose eight neighbours are non-zero, applied per (sample, channel) map after reshape(-1, 1, H, W) and "
    "reshaped back with the channel count; (subs) subscripts come from where() of the mask permuted (0,2,3,1): column 0 is the "
    "sample, 1 the row, 2 the column, 3 the channel - values are read at cms[s, ch, row, col], points are (col, row) = (x, y), "
    "sample/channel indices are columns 0/3; (index) in find_local_peaks the per-peak crop index sample*channels+channel agrees "
    "with reshape(samples*channels, 1, H, W); (pass) the last three returned values are exactly those of the rough detector on "
    "every return path and refined = rough + offsets with offsets = cat([dx, dy], dim=1) on the centred patch grid. Not decided: "
    "completeness/soundness against a brute-force scan, plateaus, the half-patch bound."
)
TRUSTED = ["CPython ast", "kornia.morphology.dilation computes the max over the kernel's non-zero support", "torch.where on a bool tensor returns subscripts per dimension in order"]
PF = "sleap_nn.inference.peak_finding"


def _strict_gt(e: ast.AST):
    """(left, right) if e means left > right strictly."""
    if isinstance(e, ast.Compare) and len(e.ops) == 1:
        if isinstance(e.ops[0], ast.Gt):
            return norm(e.left), norm(e.comparators[0])
        if isinstance(e.ops[0], ast.Lt):
            return norm(e.comparators[0]), norm(e.left)
    if isinstance(e, ast.Call) and norm(e.func) in ("torch.gt",) and len(e.args) == 2:
        return norm(e.args[0]), norm(e.args[1])
    if isinstance(e, ast.Call) and norm(e.func) in ("torch.lt",) and len(e.args) == 2:
        return norm(e.args[1]), norm(e.args[0])
    if isinstance(e, ast.Call) and isinstance(e.func, ast.Attribute) and e.func.attr == "gt" and len(e.args) == 1:
        return norm(e.func.value), norm(e.args[0])
    return None


def check_rough(prog: Program, res: Result) -> None:
    fi = prog.func(f"{PF}:find_local_peaks_rough")
    res.touch(fi)
    defs: Dict[str, ast.AST] = {}
    for st in walk_function(fi.node):
        if isinstance(st, ast.Assign) and isinstance(st.targets[0], ast.Name):
            defs.setdefault(st.targets[0].id, []).append(st.value)
    # the mask
    where_calls = [c for c in walk_function(fi.node) if isinstance(c, ast.Call) and norm(c.func) == "torch.where" and len(c.args) == 1]
    res.ob("C06-strict", len(where_calls) == 1, fi.qualname, "one where() over the selection mask", f"{len(where_calls)} where() calls", fi.where)
    if len(where_calls) != 1:
        return
    warg = where_calls[0].args[0]
    perm = None
    mask_name = None
    if isinstance(warg, ast.Call) and isinstance(warg.func, ast.Attribute) and warg.func.attr == "permute":
        perm = [astq.const_value(a) for a in warg.args]
        mask_name = norm(warg.func.value)
    elif isinstance(warg, ast.Name):
        perm = [0, 1, 2, 3]
        mask_name = warg.id
    mvals = defs.get(mask_name, [])
    m = mvals[-1] if len(mvals) == 1 else None
    conj = []
    if isinstance(m, ast.BinOp) and isinstance(m.op, ast.BitAnd):
        conj = [m.left, m.right]
    elif isinstance(m, ast.Call) and norm(m.func) in ("torch.logical_and",):
        conj = list(m.args)
    gts = [_strict_gt(c) for c in conj]
    ok = len(conj) == 2 and all(g is not None for g in gts)
    dil_name = None
    if ok:
        rights = {g[1] for g in gts}
        lefts = {g[0] for g in gts}
        ok = lefts == {"cms"} and "threshold" in rights and len(rights) == 2
        dil_name = next(iter(rights - {"threshold"}), None)
    res.ob("C06-strict", ok, fi.qualname, "mask = (cms > dilated) & (cms > threshold), both strict",
           f"the selection mask is `{short(m, 70) if m is not None else '?'}`: not the conjunction of two STRICT comparisons of the map with its dilation and with the threshold "
           "(ties / plateaus / at-threshold cells would be reported)", fi.where, sample=short(m, 80) if m is not None else None)
    # kernel
    kd = defs.get("kernel", [])
    ok = False
    k = None
    if len(kd) == 1 and isinstance(kd[0], ast.Call) and norm(kd[0].func) == "torch.tensor" and kd[0].args:
        try:
            k = ast.literal_eval(kd[0].args[0])
            ok = len(k) == 3 and all(len(r) == 3 for r in k) and k[1][1] == 0 and all(k[i][j] != 0 for i in range(3) for j in range(3) if (i, j) != (1, 1))
        except Exception:
            ok = False
    res.ob("C06-kernel", ok, fi.qualname, "3x3 kernel, centre 0, eight neighbours non-zero", f"the suppression kernel is {k}: the neighbourhood is not the 8 neighbours without the centre",
           fi.where, sample=k)
    # dilation wiring
    dcalls = [c for c in walk_function(fi.node) if isinstance(c, ast.Call) and norm(c.func).endswith("morphology.dilation")]
    ok = len(dcalls) == 1
    if ok:
        a0 = dcalls[0].args[0]
        a1 = dcalls[0].args[1]
        fl = defs.get(norm(a0), [None])[-1]
        ok = isinstance(fl, ast.Call) and norm(fl.func) == "cms.reshape" and [norm(x) for x in fl.args] == ["-1", "1", "height", "width"] and norm(a1).startswith("kernel")
        back = defs.get(dil_name or "", [])
        ok = ok and len(back) == 2 and any(isinstance(b, ast.Call) and isinstance(b.func, ast.Attribute) and b.func.attr == "reshape"
                                             and [norm(x) for x in b.args] == ["-1", "channels", "height", "width"] for b in back)
    res.ob("C06-kernel", ok, fi.qualname, "dilation per (sample, channel) map, reshaped back with the channel count",
           "the dilation is not applied to cms.reshape(-1, 1, H, W) and reshaped back to (-1, channels, H, W): neighbouring channels/samples suppress each other", fi.where)
    hw = {n: norm(v[-1]) for n, v in defs.items() if n in ("height", "width", "channels")}
    res.ob("C06-kernel", hw == {"height": "cms.size(2)", "width": "cms.size(3)", "channels": "cms.size(1)"}, fi.qualname, "H, W, channels read from dims 2, 3, 1", f"dims are {hw}", fi.where)
    # subscripts
    res.ob("C06-subs", perm is not None and sorted(perm) == [0, 1, 2, 3], fi.qualname, "mask permuted by a permutation of the four axes before where()", f"mask permuted by {perm}", fi.where)
    # the subscripts variable: stack(where(mask.permute(p)), axis=-1); column j of it indexes dimension p[j] of cms
    st_where = enclosing_stmt(where_calls[0])
    subs = norm(st_where.targets[0]) if isinstance(st_where, ast.Assign) else None
    sv = st_where.value if isinstance(st_where, ast.Assign) else None
    ok = isinstance(sv, ast.Call) and norm(sv.func) == "torch.stack" and any(k_.arg in ("axis", "dim") and astq.const_value(k_.value) == -1 for k_ in sv.keywords)
    res.ob("C06-subs", ok, fi.qualname, "subscripts stacked on the last axis", "subscripts are not stacked as columns", fi.where)
    p = perm or []
    col_of_dim = {d: j for j, d in enumerate(p)} if sorted(p) == [0, 1, 2, 3] else {}

    def col(e):
        """column k of `subs[:, k]` (possibly wrapped in .to(...))"""
        while isinstance(e, ast.Call) and isinstance(e.func, ast.Attribute) and e.func.attr in ("to", "long", "int", "float"):
            e = e.func.value
        if isinstance(e, ast.Subscript) and norm(e.value) == subs and isinstance(e.slice, ast.Tuple) and len(e.slice.elts) == 2 and norm(e.slice.elts[0]) == ":":
            k_ = e.slice.elts[1]
            if isinstance(k_, ast.List):
                return [astq.const_value(x) for x in k_.elts]
            return astq.const_value(k_)
        return None

    rets_ = [n for n in walk_function(fi.node) if isinstance(n, ast.Return)]
    rt = rets_[0].value.elts if len(rets_) == 1 and isinstance(rets_[0].value, ast.Tuple) and len(rets_[0].value.elts) == 4 else []
    rd = [astq.deref(fi.node, e) for e in rt]
    if len(rd) == 4 and col_of_dim:
        pts, vals, si, ci = rd
        got = col(pts)
        res.ob("C06-subs", got == [col_of_dim[3], col_of_dim[2]], fi.qualname, "points = (column of the width axis, column of the height axis) = (x, y)",
               f"peak points take subscript columns {got}; with the mask permuted by {p} (x, y) must be columns {[col_of_dim[3], col_of_dim[2]]}: x and y are swapped or a non-spatial column is used",
               fi.where, sample={"permute": p, "points_columns": got})
        got = col(si)
        res.ob("C06-subs", got == col_of_dim[0], fi.qualname, "sample index = column of axis 0", f"sample indices take column {got}, axis 0 is column {col_of_dim[0]}", fi.where)
        got = col(ci)
        res.ob("C06-subs", got == col_of_dim[1], fi.qualname, "channel index = column of axis 1", f"channel indices take column {got}, axis 1 is column {col_of_dim[1]}", fi.where)
        ok = isinstance(vals, ast.Subscript) and norm(vals.value) == "cms" and isinstance(vals.slice, ast.Tuple) and len(vals.slice.elts) == 4
        gotv = [col(e) for e in vals.slice.elts] if ok else None
        res.ob("C06-subs", ok and gotv == [col_of_dim[d] for d in range(4)], fi.qualname, "value read at cms[sample, channel, row, col] of the very cell",
               f"peak values are read with subscript columns {gotv} for axes (0,1,2,3); the permutation {p} requires {[col_of_dim[d] for d in range(4)]}: the value is not the one at the peak", fi.where)
    else:
        res.ob("C06-subs", False, fi.qualname, "four values returned from a (0..3) permutation", f"cannot relate the returned tuple to the permutation {p}", fi.where)
    rets = [n for n in walk_function(fi.node) if isinstance(n, ast.Return)]
    ok = len(rets) == 1 and norm(rets[0].value).strip("()") == "peak_points, peak_vals, peak_sample_inds, peak_channel_inds"
    res.ob("C06-subs", ok, fi.qualname, "returns (points, values, sample indices, channel indices)", "the return tuple order changed", fi.where)
    res.floor("C06-strict", 2)
    res.floor("C06-kernel", 3)
    res.floor("C06-subs", 6)


def check_refine(prog: Program, res: Result) -> None:
    fi = prog.func(f"{PF}:find_local_peaks")
    res.touch(fi)
    calls = [c for c, q in prog.calls_in(fi) if q == f"{PF}:find_local_peaks_rough"]
    res.ob("C06-pass", len(calls) == 1, fi.qualname, "one rough detection", f"{len(calls)} calls of find_local_peaks_rough", fi.where)
    if len(calls) != 1:
        return
    st = enclosing_stmt(calls[0])
    names = [norm(e) for e in st.targets[0].elts] if isinstance(st.targets[0], ast.Tuple) else []
    res.ob("C06-pass", len(names) == 4, fi.qualname, "rough result unpacked into four names", f"unpacked into {names}", fi.where)
    if len(names) != 4:
        return
    b = astq.bind_args(prog.func(f"{PF}:find_local_peaks_rough"), calls[0])
    res.ob("C06-pass", norm(b.get("cms")) == "cms" and norm(b.get("threshold")) == "threshold", fi.qualname, "rough detector gets the map and the threshold", "cms/threshold not forwarded", fi.where)
    rough, vals, sinds, cinds = names
    for nm in (vals, sinds, cinds):
        res.ob("C06-pass", not astq.assignments_to(fi.node, nm)[1:], fi.qualname, f"{nm} never re-bound", f"`{nm}` is reassigned after the rough detection", fi.where)
    rets = [n for n in walk_function(fi.node) if isinstance(n, ast.Return)]
    for r in rets:
        el = [norm(e) for e in r.value.elts] if isinstance(r.value, ast.Tuple) else []
        ok = len(el) == 4 and el[1:] == [vals, sinds, cinds] and el[0] in (rough, "refined_peaks")
        res.ob("C06-pass", ok, fi.qualname, f"return keeps values/sample/channel of the rough peaks: {short(r.value, 50)}",
               f"a return path yields `{short(r.value, 60)}`: number/order/indices of peaks are not those of the rough detection", f"{fi.module.relpath}:{r.lineno}")
    rd = [s for s in astq.assignments_to(fi.node, "refined_peaks") if isinstance(s, ast.Assign)]
    ok = len(rd) == 1 and norm(rd[0].value) in (f"{rough} + offsets", f"offsets + {rough}")
    res.ob("C06-pass", ok, fi.qualname, "refined = rough + offsets (elementwise, same order)", f"refined peaks are `{short(rd[0].value, 40) if rd else '?'}`", fi.where)
    od = [s for s in astq.assignments_to(fi.node, "offsets") if isinstance(s, ast.Assign)]
    ok = len(od) == 1 and norm(od[0].value) == "torch.cat([dx_hat, dy_hat], dim=1)"
    res.ob("C06-pass", ok, fi.qualname, "offsets = (dx, dy)", f"offsets are `{short(od[0].value, 40) if od else '?'}` (x/y swapped or wrong axis)", fi.where)
    ir = [c for c, q in prog.calls_in(fi) if q == f"{PF}:integral_regression"]
    ok = len(ir) == 1
    if ok:
        st2 = enclosing_stmt(ir[0])
        ok = [norm(e) for e in st2.targets[0].elts] == ["dx_hat", "dy_hat"] and {k.arg: norm(k.value) for k in ir[0].keywords} == {"xv": "gv", "yv": "gv"} and norm(ir[0].args[0]) == "cm_crops"
    res.ob("C06-pass", ok, fi.qualname, "(dx, dy) = integral_regression(crops, gv, gv)", "integral regression is not applied to the crops on the centred grid", fi.where)
    gv = [s for s in astq.assignments_to(fi.node, "gv") if isinstance(s, ast.Assign)]
    ok = len(gv) == 1 and norm(gv[0].value).replace(" ", "") == "torch.arange(crop_size,dtype=torch.float32)-(crop_size-1)/2"
    res.ob("C06-pass", ok, fi.qualname, "patch grid centred on the peak", f"patch grid is `{short(gv[0].value, 60) if gv else '?'}`", fi.where)
    # index agreement
    rs = [c for c in walk_function(fi.node) if isinstance(c, ast.Call) and norm(c.func) == "torch.reshape" and norm(c.args[0]) == "cms"]
    ok = len(rs) == 1 and norm(rs[0].args[1]).replace(" ", "") == "[samples*channels,1,cms.size(2),cms.size(3)]"
    res.ob("C06-index", ok, fi.qualname, "maps flattened to (samples*channels, 1, H, W)", f"maps are reshaped to `{short(rs[0].args[1], 50) if rs else '?'}`", fi.where)
    bi = [s for s in astq.assignments_to(fi.node, "box_sample_inds") if isinstance(s, ast.Assign)]
    ok = len(bi) == 1 and norm(bi[0].value).replace(" ", "").replace("(", "").replace(")", "") in (f"{sinds}*channels+{cinds}", f"{cinds}+{sinds}*channels", f"channels*{sinds}+{cinds}")
    res.ob("C06-index", ok, fi.qualname, f"crop index = {sinds} * channels + {cinds}",
           f"the per-peak crop index is `{short(bi[0].value, 50) if bi else '?'}`: it does not address map (sample, channel) in the (samples*channels) flattening - "
           "patches are cut from another channel's or sample's map", fi.where, sample=short(bi[0].value, 60) if bi else None)
    sc = {n: norm(s.value) for n in ("samples", "channels") for s in astq.assignments_to(fi.node, n) if isinstance(s, ast.Assign)}
    res.ob("C06-index", sc == {"samples": "cms.size(0)", "channels": "cms.size(1)"}, fi.qualname, "samples/channels read from dims 0/1", f"{sc}", fi.where)
    cb = [c for c, q in prog.calls_in(fi) if q == f"{PF}:crop_bboxes"]
    ok = len(cb) == 1
    if ok:
        b2 = astq.bind_args(prog.func(f"{PF}:crop_bboxes"), cb[0])
        ok = norm(b2.get("images")) == "cms" and norm(b2.get("bboxes")) == "bboxes" and norm(b2.get("sample_inds")) == "box_sample_inds"
        # the reshape precedes the crop
        ok = ok and rs and enclosing_stmt(rs[0]).lineno < cb[0].lineno
    res.ob("C06-index", ok, fi.qualname, "crops cut from the flattened maps with the flattened index", "crop_bboxes is not called with the flattened maps and the flattened index", fi.where)
    bb = [c for c, q in prog.calls_in(fi) if q == "sleap_nn.data.instance_cropping:make_centered_bboxes"]
    ok = len(bb) == 1 and norm(bb[0].args[0]) == rough and {k.arg: norm(k.value) for k in bb[0].keywords} == {"box_height": "crop_size", "box_width": "crop_size"}
    res.ob("C06-index", ok, fi.qualname, "patches centred on the rough peaks, patch-size square", "patch boxes are not centred on the rough peaks with the integral patch size", fi.where)
    # integral regression itself
    ig = prog.func(f"{PF}:integral_regression")
    res.touch(ig)
    d = {norm(s.targets[0]): norm(s.value).replace(" ", "") for s in walk_function(ig.node) if isinstance(s, ast.Assign)}
    ok = d.get("x_hat") == "torch.sum(xv.view(1,1,1,-1)*cms,dim=[2,3])/z" and d.get("y_hat") == "torch.sum(yv.view(1,1,-1,1)*cms,dim=[2,3])/z" and d.get("z", "").startswith("torch.sum(cms,dim=[2,3])")
    res.ob("C06-pass", ok, ig.qualname, "x_hat/y_hat are expectations over the last / second-to-last axis", "integral_regression no longer computes sum(grid*cms)/sum(cms) with x on the last axis", ig.where)
    res.floor("C06-pass", 12)
    res.floor("C06-index", 5)


def check(prog: Program, res: Result) -> None:
    check_rough(prog, res)
    check_refine(prog, res)
    res.assumptions.append("completeness/soundness against a brute-force neighbour scan, plateaus and the half-patch bound are not decided")


F = "sleap_nn/inference/peak_finding.py"
VARIANTS = [
    Variant("strict-ge", F, "    argmax_and_thresh_img = (cms > max_img) & (cms > threshold)", "    argmax_and_thresh_img = (cms >= max_img) & (cms > threshold)", "C06-strict"),
    Variant("strict-thresh-on-dilated", F, "    argmax_and_thresh_img = (cms > max_img) & (cms > threshold)", "    argmax_and_thresh_img = (cms > max_img) & (max_img > threshold)", "C06-strict"),
    Variant("kernel-centre", F, "    kernel = torch.tensor([[1, 1, 1], [1, 0, 1], [1, 1, 1]], dtype=torch.float32)", "    kernel = torch.tensor([[1, 1, 1], [1, 1, 1], [1, 1, 1]], dtype=torch.float32)", "C06-kernel"),
    Variant("kernel-4nbr", F, "    kernel = torch.tensor([[1, 1, 1], [1, 0, 1], [1, 1, 1]], dtype=torch.float32)", "    kernel = torch.tensor([[0, 1, 0], [1, 0, 1], [0, 1, 0]], dtype=torch.float32)", "C06-kernel"),
    Variant("subs-xy", F, "    peak_points = peak_subs[:, [2, 1]].to(torch.float32)", "    peak_points = peak_subs[:, [1, 2]].to(torch.float32)", "C06-subs"),
    Variant("subs-channel", F, "    peak_channel_inds = peak_subs[:, 3].to(torch.int32)", "    peak_channel_inds = peak_subs[:, 1].to(torch.int32)", "C06-subs"),
    Variant("index-swapped", F, "    box_sample_inds = (peak_sample_inds * channels) + peak_channel_inds", "    box_sample_inds = (peak_channel_inds * samples) + peak_sample_inds", "C06-index"),
    Variant("index-no-channel", F, "    box_sample_inds = (peak_sample_inds * channels) + peak_channel_inds", "    box_sample_inds = peak_sample_inds", "C06-index"),
    Variant("pass-offsets-yx", F, "        offsets = torch.cat([dx_hat, dy_hat], dim=1)\n\n    # Apply offsets.\n    refined_peaks = rough_peaks + offsets", "        offsets = torch.cat([dy_hat, dx_hat], dim=1)\n\n    # Apply offsets.\n    refined_peaks = rough_peaks + offsets", "C06-pass"),
    Variant("pass-filter-refined", F, "    refined_peaks = rough_peaks + offsets\n\n    return refined_peaks, peak_vals, peak_sample_inds, peak_channel_inds",
            "    refined_peaks = rough_peaks + offsets\n    keep = ~torch.isnan(refined_peaks).any(dim=1)\n\n    return refined_peaks[keep], peak_vals, peak_sample_inds, peak_channel_inds", "C06-pass"),
    Variant("bp-other-permutation", F, "        torch.where(argmax_and_thresh_img.permute(0, 2, 3, 1)), axis=-1\n    )\n\n    # Get peak values.\n    peak_vals = cms[peak_subs[:, 0], peak_subs[:, 3], peak_subs[:, 1], peak_subs[:, 2]]\n\n    # Convert to points format.\n    peak_points = peak_subs[:, [2, 1]].to(torch.float32)\n\n    # Pull out indexing vectors.\n    peak_sample_inds = peak_subs[:, 0].to(torch.int32)\n    peak_channel_inds = peak_subs[:, 3].to(torch.int32)",
            "        torch.where(argmax_and_thresh_img), axis=-1\n    )\n\n    # Get peak values.\n    peak_vals = cms[peak_subs[:, 0], peak_subs[:, 1], peak_subs[:, 2], peak_subs[:, 3]]\n\n    # Convert to points format.\n    peak_points = peak_subs[:, [3, 2]].to(torch.float32)\n\n    # Pull out indexing vectors.\n    peak_sample_inds = peak_subs[:, 0].to(torch.int32)\n    peak_channel_inds = peak_subs[:, 1].to(torch.int32)", None),
    Variant("bp-lt-form", F, "    argmax_and_thresh_img = (cms > max_img) & (cms > threshold)", "    argmax_and_thresh_img = (max_img < cms) & (cms > threshold)", None),
]
