"""C15 — OKS and instance matching obey their contracts (structural / sign part)."""

from __future__ import annotations

import ast
from typing import List, Optional, Set

from ..core import astq
from ..core.cfg import CFG
from ..core.program import AnalysisError, Program, ancestors, enclosing_stmt, norm, short, walk_function
from ..engines import sign as S
from ..report import Result
from ..runner import Variant
from . import _match, c11

PROP = "C15"
EXPLANATION = (
    "(dep) in compute_oks the distance of keypoints missing in the PREDICTION is overwritten with +inf by a masked store "
    "that dominates the exponential (complete miss, similarity exp(-inf)=0), the similarity of keypoints missing in the "
    "GROUND TRUTH is zeroed by a masked store between the exponential and the sum (ignored), both masks are isnan() of "
    "the respective argument reduced over the coordinate axis, and the sum is divided by the count of visible ground-truth "
    "keypoints; (range) a sign/interval evaluation of the expression tree gives similarity = exp(non-positive) in [0,1] "
    "under stddev>0 and scale>=0, so with (dep) the mean over visible keypoints is in [0,1]; (pure) no helper of "
    "evaluation.py / tracking/utils.py mutates an argument (alias engine); (pair) in match_instances every appended "
    "positive pair is preceded on its path by a pop() of the matched ground-truth index from the available pool, the popped "
    "instance is the one appended, predictions are visited once each in a permutation (argsort), and the false negatives "
    "are exactly the pool after the loop; (greedy) greedy_matching removes, after each choice, every edge sharing the chosen "
    "row or column, iterating backwards; (shape) every boolean-mask index in compute_oks has exactly the shape of the axes it "
    "indexes, compared symbolically over the shapes the function asserts (NumPy masks do not broadcast). Not decided: OKS=1 for identical poses, monotonicity, translation invariance."
)
TRUSTED = ["CPython ast", "networkx reachability", "numpy: exp(-inf) == 0, argsort returns a permutation, list.pop(i) removes exactly element i"]

EV = "sleap_nn.evaluation"
TABLE = {"sleap_nn.evaluation": ["compute_instance_area", "compute_oks"],
         "sleap_nn.tracking.utils": ["get_keypoints", "get_centroid", "get_bbox", "compute_euclidean_distance", "compute_iou", "compute_cosine_sim",
                                      "hungarian_matching", "greedy_matching"]}


def _isnan_mask_of(fi, name: str, param: str) -> bool:
    """Is `name` defined as any(isnan(<param>), axis=-1) (possibly wrapped)?"""
    defs = [s for s in astq.assignments_to(fi.node, name) if isinstance(s, ast.Assign)]
    if len(defs) != 1:
        return False
    v = defs[0].value
    txt = norm(v)
    has_isnan = any(isinstance(c, ast.Call) and norm(c.func).endswith("isnan") and c.args and norm(c.args[0]) == param for c in ast.walk(v))
    reduces = any(isinstance(c, ast.Call) and norm(c.func).split(".")[-1] == "any" for c in ast.walk(v))
    return has_isnan and reduces and "~" not in txt and "not " not in txt


def _missing_mask_expr(fi, e: ast.AST, at: ast.AST, param: str, negated: bool = False) -> bool:
    """`e`, as evaluated at `at`, is built from any(isnan(<param>), axis=-1) - the per-keypoint "missing" mask - by
    shape-only operations (negated=False), or from its complement ~mask / logical_not(mask) / all(~isnan(param)) (negated=True)."""
    x = astq.expand_at(fi.node, e, at)
    if x is None:
        return False
    isn = [c for c in ast.walk(x) if isinstance(c, ast.Call) and norm(c.func).endswith("isnan") and c.args and norm(c.args[0]) == param]
    anyc = [c for c in ast.walk(x) if isinstance(c, ast.Call) and norm(c.func).split(".")[-1] == "any" and any(i in list(ast.walk(c)) for i in isn)]
    allc = [c for c in ast.walk(x) if isinstance(c, ast.Call) and norm(c.func).split(".")[-1] == "all"]
    negs = [n for n in ast.walk(x) if (isinstance(n, ast.UnaryOp) and isinstance(n.op, (ast.Invert, ast.Not))) or (isinstance(n, ast.Call) and norm(n.func).split(".")[-1] == "logical_not")
            or (isinstance(n, ast.Compare) and len(n.ops) == 1 and isinstance(n.ops[0], ast.Eq) and astq.const_value(n.comparators[0]) is False)]
    if not isn:
        return False
    if not negated:
        return bool(anyc) and not negs and not allc
    if len(negs) != 1:
        return False
    inner = negs[0].operand if isinstance(negs[0], ast.UnaryOp) else (negs[0].left if isinstance(negs[0], ast.Compare) else (negs[0].args[0] if negs[0].args else None))
    if inner is None:
        return False
    if anyc and not allc:     # ~any(isnan(p))
        return any(inner is c for c in anyc)
    if allc and not anyc:     # all(~isnan(p))
        return any(inner is i for i in isn) and any(negs[0] in list(ast.walk(c)) for c in allc)
    return False


def check_dep(prog: Program, res: Result) -> None:
    R = "C15-dep"
    fi = prog.func(f"{EV}:compute_oks")
    res.touch(fi)
    cfg = CFG(fi.node)
    exps = [c for c in walk_function(fi.node) if isinstance(c, ast.Call) and norm(c.func) in ("np.exp", "numpy.exp")]
    res.ob(R, len(exps) == 1, fi.qualname, "one exponential", f"{len(exps)} exp() calls in compute_oks", fi.where)
    if len(exps) != 1:
        return
    ex = exps[0]
    est = enclosing_stmt(ex)
    ks = norm(est.targets[0]) if isinstance(est, ast.Assign) else None
    arg_names = astq.loads_in(ex.args[0])
    # (a) distance[..., missing_pr] = inf before exp
    stores = [s for s in walk_function(fi.node) if isinstance(s, ast.Assign) and isinstance(s.targets[0], ast.Subscript) and isinstance(s.targets[0].value, ast.Name)]
    pre = [s for s in stores if s.targets[0].value.id in arg_names]
    ok_a = False
    for s in pre:
        is_inf = norm(s.value) in ("np.inf", "numpy.inf", "float('inf')", "math.inf")
        idx_names = astq.names_in(s.targets[0].slice)
        mask_ok = any(_isnan_mask_of(fi, m, "points_pr") for m in idx_names) or _missing_mask_expr(fi, s.targets[0].slice, s, "points_pr")
        dom = cfg.must_pass([cfg.entry], cfg.stmt_nodes_containing(ex), cfg.stmt_nodes_containing(s)) is None
        unconditional = not any(isinstance(a, (ast.If, ast.For, ast.While)) for a in ancestors(s))
        if is_inf and mask_ok and dom and unconditional:
            ok_a = True
        res.ob(R, is_inf and mask_ok, fi.qualname, f"pre-exp store is +inf under the missing-prediction mask: {short(s, 50)}",
               f"`{short(s, 60)}` does not set the distance of keypoints missing in the prediction to +inf "
               f"(value {short(s.value, 20)}, mask from {sorted(idx_names)})", f"{fi.module.relpath}:{s.lineno}")
    res.ob(R, ok_a, fi.qualname, "missing predictions are complete misses (inf distance dominates the exp)",
           "no unconditional masked store of +inf into the distance dominates the exponential: a keypoint missing in the prediction "
           "yields NaN (or is silently ignored) instead of a complete miss", fi.where, sample={"exp": short(est, 70)})
    # the distance itself is a sum of squares over the last axis of gt - pr
    # (b) ks[missing_gt] = 0 between exp and the sum
    post = [s for s in stores if ks is not None and s.targets[0].value.id == ks]
    ok_b = False
    ret = [n for n in walk_function(fi.node) if isinstance(n, ast.Return) and n.value is not None]
    sum_stmt = None
    for s in walk_function(fi.node):
        if isinstance(s, ast.Assign) and isinstance(s.value, ast.BinOp) and isinstance(s.value.op, ast.Div) and ks is not None \
                and ks in astq.names_in(astq.expand_at(fi.node, s.value.left, s, keep=[ks])):      # sum(ks) / n, the sum possibly named first
            sum_stmt = s
    for s in post:
        zero = astq.const_value(s.value) == 0
        idx_names = astq.names_in(s.targets[0].slice)
        mask_ok = any(_isnan_mask_of(fi, m, "points_gt") for m in idx_names) or _missing_mask_expr(fi, s.targets[0].slice, s, "points_gt")
        after_exp = cfg.must_pass([cfg.entry], cfg.stmt_nodes_containing(s), cfg.stmt_nodes_containing(ex)) is None
        before_sum = sum_stmt is not None and cfg.must_pass([cfg.entry], cfg.stmt_nodes_containing(sum_stmt), cfg.stmt_nodes_containing(s)) is None
        unconditional = not any(isinstance(a, (ast.If, ast.For, ast.While)) for a in ancestors(s))
        if zero and mask_ok and after_exp and before_sum and unconditional:
            ok_b = True
        res.ob(R, zero and mask_ok, fi.qualname, f"post-exp store is 0 under the missing-ground-truth mask: {short(s, 50)}",
               f"`{short(s, 60)}` does not zero the similarity of keypoints missing in the ground truth", f"{fi.module.relpath}:{s.lineno}")
    res.ob(R, ok_b, fi.qualname, "keypoints missing in the ground truth are ignored (zeroed between exp and sum)",
           "no unconditional masked store of 0 under the missing-ground-truth mask lies between the exponential and the sum", fi.where)
    # (c) normalisation by the visible count
    ok_c = False
    if sum_stmt is not None:
        num, den = astq.expand_at(fi.node, sum_stmt.value.left, sum_stmt, keep=[ks]), sum_stmt.value.right
        is_sum = isinstance(num, ast.Call) and norm(num.func).split(".")[-1] == "sum" and ks in astq.names_in(num)
        dn = den.id if isinstance(den, ast.Name) else None
        ddef = [s for s in astq.assignments_to(fi.node, dn)] if dn else []
        # the divisor: sum over the nodes of the complement of the missing-ground-truth mask
        dv = ddef[0].value if len(ddef) == 1 and isinstance(ddef[0], ast.Assign) else None
        vis = isinstance(dv, ast.Call) and norm(dv.func).split(".")[-1] == "sum" and (dv.args or isinstance(dv.func, ast.Attribute)) \
            and _missing_mask_expr(fi, dv.args[0] if dv.args else dv.func.value, ddef[0], "points_gt", negated=True)
        ok_c = is_sum and bool(vis)
        res.ob(R, ok_c, fi.qualname, "OKS = sum(ks) / number of visible ground-truth keypoints",
               f"the result is `{short(sum_stmt.value, 60)}`; the divisor is not the count of visible ground-truth keypoints", f"{fi.module.relpath}:{sum_stmt.lineno}")
        res.ob(R, len(ret) == 1 and norm(ret[0].value) == norm(sum_stmt.targets[0]), fi.qualname, "that quotient is returned", "compute_oks does not return the normalised sum", fi.where)
    else:
        res.ob(R, False, fi.qualname, "OKS = sum(ks) / visible count", "no division of the similarity sum found", fi.where)
    # distance is the squared displacement summed over coordinates
    dist = [n for n in arg_names if n != "normalization_factor"]
    for d in dist:
        defs = [s for s in astq.assignments_to(fi.node, d) if isinstance(s, ast.Assign) and isinstance(s.targets[0], ast.Name)]
        if len(defs) == 1:
            t = norm(defs[0].value).replace(" ", "")
            res.ob(R, "**2" in t and ".sum(axis=-1)" in t, fi.qualname, f"{d} = sum of squared displacement over coordinates",
                   f"`{d}` is computed as `{short(defs[0].value, 50)}`", f"{fi.module.relpath}:{defs[0].lineno}")
    disp = [s for s in astq.assignments_to(fi.node, "displacement") if isinstance(s, ast.Assign)]
    if disp:
        v = disp[0].value
        ok = isinstance(v, ast.BinOp) and isinstance(v.op, ast.Sub) and "points_gt" in norm(v.left) and "points_pr" in norm(v.right)
        res.ob(R, ok, fi.qualname, "displacement = gt - pr (pairwise)", f"displacement is `{short(v, 60)}`", f"{fi.module.relpath}:{disp[0].lineno}")
    res.floor(R, 9)


# ---------------------------------------------------------------- symbolic shapes of boolean-mask indexing
def _shape_env(fn: ast.AST) -> dict:
    """Shapes the function itself declares: `a, b = X.shape`, `assert X.shape == (...)`, `n = X.shape[k]`."""
    env: dict = {}
    for st in walk_function(fn):
        if isinstance(st, ast.Assign) and isinstance(st.value, ast.Attribute) and st.value.attr == "shape" and isinstance(st.targets[0], ast.Tuple):
            env[norm(st.value.value)] = tuple(norm(e) for e in st.targets[0].elts)
        elif isinstance(st, ast.Assert) and isinstance(st.test, ast.Compare) and isinstance(st.test.left, ast.Attribute) and st.test.left.attr == "shape" \
                and isinstance(st.test.ops[0], ast.Eq) and isinstance(st.test.comparators[0], ast.Tuple):
            env[norm(st.test.left.value)] = tuple(norm(e) for e in st.test.comparators[0].elts)
    return env


def _shape_of(e: ast.AST, env: dict, fn: ast.AST):
    if isinstance(e, ast.Name):
        if e.id in env:
            return env[e.id]
        d = astq.deref(fn, e, 1)
        return _shape_of(d, env, fn) if d is not e and d is not None else None
    if isinstance(e, ast.Call):
        f = norm(e.func).split(".")[-1]
        if f == "expand_dims" and e.args:
            base = _shape_of(e.args[0], env, fn)
            ax = astq.const_value(astq.call_arg(e, 1, "axis"))
            if base is None or not isinstance(ax, int):
                return None
            ax = ax if ax >= 0 else len(base) + 1 + ax
            return base[:ax] + ("1",) + base[ax:]
        if f == "broadcast_to" and len(e.args) == 2:
            tgt = e.args[1]
            if isinstance(tgt, ast.Attribute) and tgt.attr == "shape":
                return _shape_of(tgt.value, env, fn)
            if isinstance(tgt, ast.Tuple):
                return tuple(norm(x) for x in tgt.elts)
            return None
        if f == "reshape" and len(e.args) == 2 and isinstance(e.args[1], ast.Tuple):
            return tuple(norm(x) for x in e.args[1].elts)
        if f == "repeat" and e.args:
            base = _shape_of(e.args[0], env, fn)
            ax = astq.const_value(astq.call_arg(e, 2, "axis"))
            rep = astq.call_arg(e, 1, "repeats")
            if base is not None and isinstance(ax, int) and rep is not None and base[ax] == "1":
                ax = ax if ax >= 0 else len(base) + ax
                return base[:ax] + (norm(rep),) + base[ax + 1:]
            return None
        if f in ("logical_not", "copy", "astype") and (e.args or isinstance(e.func, ast.Attribute)):
            return _shape_of(e.args[0] if e.args else e.func.value, env, fn)
    if isinstance(e, ast.UnaryOp):
        return _shape_of(e.operand, env, fn)
    return None


def _is_mask(e: ast.AST, fn: ast.AST) -> bool:
    d = astq.deref(fn, e, 2) if isinstance(e, ast.Name) else e
    if d is None:
        return False
    for c in ast.walk(d):
        if isinstance(c, ast.Call) and norm(c.func).split(".")[-1] in ("isnan", "any", "all", "isfinite", "isinf", "logical_not", "logical_and", "logical_or"):
            return True
        if isinstance(c, ast.Name) and c is not d and c is not e and _is_mask_name(c, fn):
            return True
    return isinstance(d, ast.Compare)


def _is_mask_name(n: ast.Name, fn: ast.AST) -> bool:
    defs = [s for s in astq.assignments_to(fn, n.id) if isinstance(s, ast.Assign)]
    return len(defs) == 1 and any(isinstance(c, ast.Call) and norm(c.func).split(".")[-1] in ("isnan", "any", "all") for c in ast.walk(defs[0].value))


def check_shape(prog: Program, res: Result) -> None:
    """NumPy boolean-mask indexing does not broadcast: the mask's shape must equal the indexed axes exactly.  compute_oks
    is specified for (n_gt x n_pr x nodes) arrays, so a mask with a length-1 axis against the n_pr axis raises IndexError
    for every n_pr != 1.  Shapes are the ones the function asserts itself; dims are compared symbolically."""
    R = "C15-shape"
    fi = prog.func(f"{EV}:compute_oks")
    res.touch(fi)
    env = _shape_env(fi.node)
    n = 0
    for sub in walk_function(fi.node):
        if not isinstance(sub, ast.Subscript):
            continue
        idx = list(sub.slice.elts) if isinstance(sub.slice, ast.Tuple) else [sub.slice]
        pos = 0
        for e in idx:
            if isinstance(e, ast.Slice) or isinstance(astq.const_value(e), int):
                pos += 1
                continue
            if not _is_mask(e, fi.node):
                pos += 1
                continue
            ms, ash = _shape_of(e, env, fi.node), _shape_of(sub.value, env, fi.node)
            where = f"{fi.module.relpath}:{sub.lineno}"
            if ms is None or ash is None:
                raise AnalysisError(f"compute_oks: shape of mask `{short(e, 40)}` or of `{short(sub.value, 20)}` is not declared ({where})")
            n += 1
            seg = ash[pos:pos + len(ms)]
            bad = [(i + pos, a, m) for i, (a, m) in enumerate(zip(seg, ms)) if a != m]
            ok = len(seg) == len(ms) and not bad
            res.ob(R, ok, fi.qualname, f"mask {ms} matches axes {pos}.. of {short(sub.value, 20)} {ash}",
                   f"`{short(sub, 60)}`: boolean mask of shape ({', '.join(ms)}) indexes axes {pos}.. of an array of shape ({', '.join(ash)}); boolean indexing does not "
                   f"broadcast, so this raises IndexError unless " + " and ".join(f"{a} == {m}" for _, a, m in bad) + " (OKS of several predictions at once is undefined)",
                   where, sample={"mask": list(ms), "array": list(ash)})
            pos += len(ms)
    res.floor(R, 2)


def check_range(prog: Program, res: Result) -> None:
    R = "C15-range"
    fi = prog.func(f"{EV}:compute_oks")
    sg = S.Sign(fi.node, {"stddev": S.POS, "scale": S.NONNEG, "points_gt": S.TOP, "points_pr": S.TOP})
    exps = [c for c in walk_function(fi.node) if isinstance(c, ast.Call) and norm(c.func) in ("np.exp", "numpy.exp")]
    for ex in exps:
        a = sg.of(ex.args[0])
        res.ob(R, a in (S.NONPOS, S.NEG, S.ZERO), fi.qualname, f"exponent is non-positive: {short(ex.args[0], 50)}",
               f"the exponent `{short(ex.args[0], 60)}` has abstract sign {a}: the keypoint similarity can exceed 1", f"{fi.module.relpath}:{ex.lineno}",
               sample={"exponent": short(ex.args[0], 60), "sign": a, "derivation": sg.trace[-8:]})
        est = enclosing_stmt(ex)
        if isinstance(est, ast.Assign):
            ks = sg.of_name(norm(est.targets[0]))
            res.ob(R, ks == S.UNIT, fi.qualname, "similarity (with its masked stores) stays in [0,1]",
                   f"the keypoint similarity has abstract range {ks} after the masked stores", f"{fi.module.relpath}:{est.lineno}")
    nf = sg.of_name("normalization_factor")
    res.ob(R, S.is_pos(nf), fi.qualname, "normalisation factor is positive (stddev>0, scale>=0, +spacing)",
           f"the normalisation factor has abstract sign {nf}: division by zero / sign flip possible", fi.where, sample={"trace": sg.trace[-10:]})
    res.floor(R, 3)


def astq_stmt15(n):
    return n if isinstance(n, ast.stmt) else enclosing_stmt(n)


def check_pair(prog: Program, res: Result) -> None:
    R = "C15-pair"
    fi = prog.func(f"{EV}:match_instances")
    res.touch(fi)
    cfg = CFG(fi.node)
    rets_ = [n for n in walk_function(fi.node) if isinstance(n, ast.Return) and isinstance(n.value, ast.Tuple) and len(n.value.elts) == 2 and all(isinstance(e, ast.Name) for e in n.value.elts)]
    if len(rets_) != 1:
        raise AnalysisError(f"{fi.qualname}: does not return (pairs, false negatives) by name")
    pairs_n, fneg_n = [e.id for e in rets_[0].value.elts]
    apps = [c for c in astq.method_calls(fi.node, "append") if norm(c.func.value) == pairs_n]
    res.ob(R, len(apps) == 1, fi.qualname, "one append of positive pairs", f"{len(apps)} appends to positive_pairs", fi.where)
    if len(apps) != 1:
        return
    ap = apps[0]
    loops = astq.enclosing_loops(ap)
    res.ob(R, len(loops) == 1 and isinstance(loops[0], ast.For), fi.qualname, "pairs appended in one loop over predictions", "positive pairs are not appended in a single for-loop", fi.where)
    if len(loops) != 1:
        return
    lp = loops[0]
    heads = cfg.nodes_of(lp)
    pops = [c for c in astq.method_calls(lp, "pop")]
    pool = norm(pops[0].func.value) if pops else None
    res.ob(R, len(pops) == 1, fi.qualname, "one pop from the ground-truth pool per match", f"{len(pops)} pop() calls in the matching loop", fi.where)
    if len(pops) != 1:
        return
    pn = set(cfg.stmt_nodes_containing(pops[0]))
    an = set(cfg.stmt_nodes_containing(ap))
    body_first = [m for h in heads for m in cfg.g.successors(h) if "true" in cfg.g[h][m]["labels"]]
    w = cfg.must_pass(body_first, an, pn)
    res.ob(R, w is None, fi.qualname, "every appended pair is preceded by removing its ground truth from the pool",
           f"a pair can be appended without popping the matched ground-truth instance from `{pool}` (it can be matched again): {cfg.path_str(w) if w else ''}",
           f"{fi.module.relpath}:{ap.lineno}", sample={"pool": pool})
    twice = any(cfg.reachable_from(list(cfg.g.successors(p)), avoid=heads) & an for p in an)
    res.ob(R, not twice, fi.qualname, "at most one pair per prediction", "a prediction can be paired twice in one iteration", fi.where)
    # the appended ground truth derives from the popped index, the prediction from the loop variable
    pst = enclosing_stmt(pops[0])
    popped = astq.target_names(pst.targets[0]) if isinstance(pst, ast.Assign) else set()
    dep_gt = astq.dep_closure(lp.body, popped)
    dep_pr = astq.dep_closure(lp.body, astq.target_names(lp.target))
    tup = ap.args[0] if ap.args else None
    elts = tup.elts if isinstance(tup, ast.Tuple) else []
    ok = len(elts) == 3 and bool(astq.loads_in(elts[0]) & dep_gt) and not (astq.loads_in(elts[0]) & (dep_pr - dep_gt)) and bool(astq.loads_in(elts[1]) & dep_pr)
    res.ob(R, ok, fi.qualname, "pair = (popped ground truth, this prediction, oks)",
           f"the appended tuple `{short(tup, 60) if tup is not None else '?'}` is not (the popped ground truth, the current prediction, score)", f"{fi.module.relpath}:{ap.lineno}")
    # pop index is the arg-best of the oks computed against exactly the pool
    oks_calls = [c for c in ast.walk(lp) if isinstance(c, ast.Call) and prog.resolve_call(fi, c) == f"{EV}:compute_oks"]
    ok = len(oks_calls) == 1
    if ok:
        gt_arg = astq.expand_at(fi.node, oks_calls[0].args[0] if oks_calls[0].args else astq.call_arg(oks_calls[0], 0, "points_gt"), enclosing_stmt(oks_calls[0]), keep=[pool])
        ok = any(isinstance(c, ast.comprehension) and norm(c.iter) == pool for c in ast.walk(gt_arg))
    res.ob(R, ok, fi.qualname, "candidates are exactly the instances still in the pool", "the OKS candidates are not built from the pool of available ground-truth instances", fi.where)
    # permutation of predictions
    it = lp.iter
    d = astq.deref(fi.node, it)
    ok = isinstance(d, ast.Call) and norm(d.func) in ("np.argsort", "numpy.argsort") and d.args and isinstance(d.args[0], ast.UnaryOp) and isinstance(d.args[0].op, ast.USub)
    res.ob(R, ok, fi.qualname, "predictions visited once each, by descending score (argsort of -scores)",
           f"the loop iterates `{short(d, 50) if d is not None else '?'}`", f"{fi.module.relpath}:{lp.lineno}")
    # false negatives are the remaining pool
    fn = [s for s in walk_function(fi.node) if isinstance(s, ast.Assign) and norm(s.targets[0]) == fneg_n]
    def _is_pool(e):   # the pool itself, a copy of it, or a comprehension over it
        return norm(e) == pool or (isinstance(e, ast.Call) and norm(e.func) in ("list", "tuple") and len(e.args) == 1 and norm(e.args[0]) == pool) \
            or any(isinstance(c, ast.comprehension) and norm(c.iter) == pool for c in ast.walk(e))
    ok = len(fn) == 1 and not astq.enclosing_loops(fn[0]) and fn[0].lineno > lp.lineno and _is_pool(fn[0].value)
    res.ob(R, ok, fi.qualname, "false negatives = the pool after the loop", "false_negatives is not computed from the remaining pool after the loop", fi.where)
    # pool initialised with every ground truth index
    init = [s for s in walk_function(fi.node) if isinstance(s, ast.Assign) and norm(s.targets[0]) == pool and not astq.enclosing_loops(s)]
    gt_param = fi.pos_params[0] if fi.pos_params else "frame_gt"
    # an index pool over all ground-truth instances, or the list of those instances itself
    ok = len(init) == 1 and astq.xnorm(fi.node, init[0].value) in (f"list(range(len(get_instances({gt_param}))))", f"get_instances({gt_param})", f"list(get_instances({gt_param}))")
    res.ob(R, ok, fi.qualname, "pool starts with every ground-truth instance", f"the pool is initialised as `{short(init[0].value, 50) if init else '?'}`", fi.where)
    # the pools are ALL instances of the frames: get_instances wraps every instance (no filter, no early exit), so that
    # matched + missed accounts for every ground-truth instance
    gi = prog.func(f"{EV}:get_instances")
    res.touch(gi)
    grets = [n for n in walk_function(gi.node) if isinstance(n, ast.Return) and n.value is not None]
    okg = len(grets) == 1
    if okg:
        rv = grets[0].value
        if isinstance(rv, ast.ListComp):
            bds = [astq.ListBuild("<ret>", rv.elt, list(rv.generators), [i_ for g_ in rv.generators for i_ in g_.ifs], rv)]
        else:
            bds = astq.list_builds(gi.node, norm(rv)) if isinstance(rv, ast.Name) else []
        okg = len(bds) == 1 and len(bds[0].gens) == 1 and not bds[0].conds and astq.xnorm(gi.node, bds[0].gens[0].iter).endswith(".instances") \
            and not [j for j in ast.walk(bds[0].gens[0]) if isinstance(j, (ast.Break, ast.Continue, ast.Return))] \
            and isinstance(bds[0].elt, (ast.Call, ast.Name)) and norm(bds[0].gens[0].target) in astq.names_in(astq.expand_at(gi.node, bds[0].elt, astq_stmt15(bds[0].site)))
    res.ob(R, okg, gi.qualname, "every instance of the frame is wrapped (no filtering)",
           "get_instances skips or filters instances: an instance that never enters the pool is neither matched nor counted as missed", gi.where)
    # early exit only when the pool is empty
    brs = [n for n in ast.walk(lp) if isinstance(n, ast.Break)]
    for b in brs:
        g = [a for a in ancestors(b) if isinstance(a, ast.If)]
        res.ob(R, bool(g) and norm(g[0].test) == f"not {pool}", fi.qualname, "loop left early only when the pool is empty", f"break under `{short(g[0].test, 40) if g else 'no condition'}`", f"{fi.module.relpath}:{b.lineno}")
    res.floor(R, 8)


def check_greedy(prog: Program, res: Result) -> None:
    _match.check_greedy(prog, res, "C15-greedy")


def check_ground_truth_pool(prog: Program, res: Result) -> None:
    """(a) The similarity treats a keypoint as missing exactly when it is NaN: every place that turns an instance into an
    array for scoring uses `.numpy()` as it is - `invisible_as_nan=False` would hand the stored coordinates of invisible
    nodes to compute_oks as if they were visible.  (b) With user_labels_only, find_frame_pairs narrows every ground-truth
    frame to its user instances (match_instances / get_instances read frame.instances): a flag that only FILTERS frames lets
    predicted instances stored in a ground-truth frame compete as ground truth."""
    R = "C15-pair"
    n = 0
    for fi in prog.all_functions():
        if not fi.module.name.startswith(("sleap_nn.evaluation", "sleap_nn.tracking")):
            continue
        for c in walk_function(fi.node):
            if isinstance(c, ast.Call) and isinstance(c.func, ast.Attribute) and c.func.attr == "numpy":
                n += 1
                bad = [k for k in c.keywords if k.arg == "invisible_as_nan" and astq.const_value(k.value) is not True]
                if bad:
                    res.touch(fi)
                res.ob(R, not bad, fi.qualname, f"{short(c, 40)}: invisible nodes stay NaN",
                       f"`{short(c, 60)}` asks for the stored coordinates of invisible nodes: the scoring code recognises a missing keypoint by NaN only, so hidden nodes are "
                       "scored as if they were visible", f"{fi.module.relpath}:{c.lineno}")
    ff = prog.func(f"{EV}:find_frame_pairs")
    res.touch(ff)
    if "user_labels_only" in ff.params:
        narrowed = False
        for g in walk_function(ff.node):
            if isinstance(g, ast.If) and "user_labels_only" in astq.names_in(g.test):
                arm = g.orelse if (isinstance(g.test, ast.UnaryOp) and isinstance(g.test.op, ast.Not)) else g.body
                for st in [x for b in arm for x in ast.walk(b)]:
                    if isinstance(st, ast.Assign) and len(st.targets) == 1 and isinstance(st.targets[0], ast.Attribute) and st.targets[0].attr == "instances":
                        vx = astq.expand_at(ff.node, st.value, st, keep=sorted(astq.names_in(st.targets[0].value)))
                        if f"{norm(st.targets[0].value)}.user_instances" in norm(vx):     # directly, through a local, or a copy (list(...))
                            narrowed = True
        gi = prog.func(f"{EV}:get_instances")
        narrowed = narrowed or "user" in " ".join(norm(x) for x in walk_function(gi.node) if isinstance(x, ast.Attribute))
        res.ob(R, narrowed, ff.qualname, "user_labels_only narrows ground-truth frames to their user instances",
               "find_frame_pairs consults user_labels_only only to FILTER frames: match_instances still pools every instance of a ground-truth frame, so predicted instances stored "
               "in it are matched (or counted as missed) as ground truth", ff.where)
    res.count(R, 0)


def check(prog: Program, res: Result) -> None:
    from . import _state
    _state.check_no_memo(prog, res, "C15-pure", ["sleap_nn.evaluation", "sleap_nn.tracking.utils"], floor=10)
    from . import _parallel
    _parallel.check_parallel_index(prog, res, "C15-index")
    from . import _iou
    _iou.check_iou(prog, res, "C15-iou")
    al = c11.make_alias(prog)
    c11.check_pure(prog, res, al, rule="C15-pure", table=TABLE)
    res.floor("C15-pure", 10)
    check_dep(prog, res)
    check_shape(prog, res)
    check_range(prog, res)
    check_pair(prog, res)
    check_ground_truth_pool(prog, res)
    # conservation across frames: every frame pair contributes its matches AND its misses (a skipped pair loses the
    # ground-truth instances of that frame from both lists)
    from . import _batch
    _batch.check_per_sample_lists(prog, res, "C15-pair", ["sleap_nn.evaluation:match_frame_pairs"])
    from . import _nanred
    _nanred.check_nan_reductions(prog, res, "C15-area", ["sleap_nn.evaluation:compute_instance_area"], floor=2)
    check_greedy(prog, res)
    res.assumptions += ["stddev > 0 and scale >= 0 (bounding-box area or a user-supplied non-negative scale)",
                        "OKS = 1 for identical poses, monotonicity and translation invariance are numerical and not decided"]


F = "sleap_nn/evaluation.py"
U = "sleap_nn/tracking/utils.py"
VARIANTS = [
    Variant("dep-missing-pr-after-exp", F, "    distance[:, missing_pr] = np.inf\n\n    # Compute the keypoint similarity as per the top of Eq. 1.\n    ks = np.exp(-(distance / normalization_factor))  # (n_gt, n_pr, n_nodes)",
            "    # Compute the keypoint similarity as per the top of Eq. 1.\n    ks = np.exp(-(distance / normalization_factor))  # (n_gt, n_pr, n_nodes)\n    distance[:, missing_pr] = np.inf", "C15-dep"),
    Variant("dep-missing-pr-zero", F, "    distance[:, missing_pr] = np.inf\n", "    distance[:, missing_pr] = 0.0\n", "C15-dep"),
    Variant("dep-wrong-mask", F, "    missing_gt = np.any(np.isnan(points_gt), axis=-1)  # (n_gt, n_nodes)", "    missing_gt = np.any(np.isnan(points_pr), axis=-1)  # (n_gt, n_nodes)", "C15-dep"),
    Variant("dep-gt-not-zeroed", F, "    ks[np.broadcast_to(np.expand_dims(missing_gt, axis=1), ks.shape)] = 0\n", "", "C15-dep"),
    Variant("shape-mask-not-broadcast", F, "    ks[np.broadcast_to(np.expand_dims(missing_gt, axis=1), ks.shape)] = 0", "    ks[np.expand_dims(missing_gt, axis=1)] = 0", "C15-shape"),
    Variant("shape-pr-mask-leading", F, "    distance[:, missing_pr] = np.inf\n", "    distance[missing_pr] = np.inf\n", "C15-"),
    Variant("bp-shape-repeat", F, "    ks[np.broadcast_to(np.expand_dims(missing_gt, axis=1), ks.shape)] = 0", "    ks[np.repeat(np.expand_dims(missing_gt, axis=1), n_pr, axis=1)] = 0", None),
    Variant("dep-divide-by-nodes", F, "    oks = np.sum(ks, axis=-1) / n_visible_gt", "    oks = np.sum(ks, axis=-1) / n_nodes", "C15-dep"),
    Variant("range-sign-flip", F, "    ks = np.exp(-(distance / normalization_factor))", "    ks = np.exp((distance / normalization_factor))", "C15-range"),
    Variant("pure-expand-inplace", F, "    if scale is None:\n        scale = compute_instance_area(points_gt)", "    if scale is None:\n        scale = compute_instance_area(points_gt)\n    points_pr[np.isnan(points_pr)] = np.inf", "C15-pure"),
    Variant("pair-no-pop", F, "        instance_gt_idx = available_instances_gt_idxs.pop(best_match_gt_idx)", "        instance_gt_idx = available_instances_gt_idxs[best_match_gt_idx]", "C15-pair"),
    Variant("pair-fn-all", F, "        available_instances_gt[idx] for idx in available_instances_gt_idxs\n    ]\n\n    return positive_pairs, false_negatives",
            "        available_instances_gt[idx] for idx in range(len(available_instances_gt))\n    ]\n\n    return positive_pairs, false_negatives", "C15-pair"),
    Variant("greedy-and", U, "            if unassigned_edges[i][0] == row_ind or unassigned_edges[i][1] == col_ind:", "            if unassigned_edges[i][0] == row_ind and unassigned_edges[i][1] == col_ind:", "C15-greedy"),
    Variant("greedy-forward", U, "        for i in range(len(unassigned_edges) - 1, -1, -1):", "        for i in range(len(unassigned_edges)):", "C15-greedy"),
    Variant("bp-where", F, "    n_visible_gt = np.sum(\n        (~missing_gt).astype(\"float32\"), axis=-1, keepdims=True\n    )", "    n_visible_gt = np.sum(\n        (~missing_gt).astype(\"float64\"), axis=-1, keepdims=True\n    )", None),
]
