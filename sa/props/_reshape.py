"""Merged axes are split again in the order they were merged.

`T.reshape(..., a * b, ...)` merges two adjacent axes of T; the row-major layout makes the FIRST of the two the slow one.
When the sizes a and b are the function's own names for two axes of the tensor (`s, a, b, _ = T.shape`), a later
`reshape(..., b, a, ...)` of a value computed from the merged tensor reads the merged axis back with the roles exchanged:
element (i, j) of the (a, b) grid lands at (i*b + j) // a, (i*b + j) % a - instances and nodes (samples and channels,
edges and xy) are mixed whenever a != b, with the right shape and no error.

Decided here, per function: every split `(x, y)` of a merged pair {x, y} lists the two names in the order in which the
source tensor's shape lists them.  Names are taken from ONE unpacking of a `.shape` / `.size()` (or `n = T.shape[k]` /
`T.size(k)` bindings of the same tensor), so that their axis order is known.
"""

from __future__ import annotations

import ast
from typing import Dict, Iterable, List, Optional, Tuple

from ..core import astq
from ..core.program import Program, norm, short, walk_function
from ..report import Result


def _axis_names(fn: ast.AST) -> Dict[str, Tuple[str, int]]:
    """name -> (tensor text, axis) for locals bound to one axis of a tensor's shape."""
    out: Dict[str, Tuple[str, int]] = {}
    for st in walk_function(fn):
        if not (isinstance(st, ast.Assign) and len(st.targets) == 1):
            continue
        t, v = st.targets[0], st.value
        base = None
        if isinstance(v, ast.Attribute) and v.attr == "shape":
            base = norm(v.value)
        elif isinstance(v, ast.Call) and isinstance(v.func, ast.Attribute) and v.func.attr == "size" and not v.args:
            base = norm(v.func.value)
        if base is not None and isinstance(t, (ast.Tuple, ast.List)) and not any(isinstance(e, ast.Starred) for e in t.elts):
            for k, e in enumerate(t.elts):
                if isinstance(e, ast.Name) and e.id != "_":
                    out[e.id] = (base, k)
            continue
        if isinstance(t, ast.Name):
            k = None
            if isinstance(v, ast.Subscript) and isinstance(v.value, ast.Attribute) and v.value.attr == "shape" and isinstance(astq.const_value(v.slice), int):
                base, k = norm(v.value.value), astq.const_value(v.slice)
            elif isinstance(v, ast.Call) and isinstance(v.func, ast.Attribute) and v.func.attr == "size" and len(v.args) == 1 and isinstance(astq.const_value(v.args[0]), int):
                base, k = norm(v.func.value), astq.const_value(v.args[0])
            if base is not None and k is not None and k >= 0 and len(astq.assignments_to(fn, t.id)) == 1:
                out[t.id] = (base, k)
    # a name bound more than once is not an axis name
    return {n: bk for n, bk in out.items() if len(astq.assignments_to(fn, n)) == 1}


def _shape_args(c: ast.Call) -> Optional[List[ast.AST]]:
    """The target shape of a reshape/view call (method or torch./np. function form), as a list of dimension expressions."""
    if not (isinstance(c.func, ast.Attribute) and c.func.attr in ("reshape", "view")):
        return None
    args = list(c.args)
    if norm(c.func.value) in ("torch", "np", "numpy") and args:
        args = args[1:]
    if len(args) == 1 and isinstance(args[0], (ast.Tuple, ast.List)):
        args = list(args[0].elts)
    return args if len(args) >= 2 else None


def check_merge_split_order(prog: Program, res: Result, rule: str, modules: Iterable[str], floor: Optional[int] = None) -> None:
    n = 0
    mods = tuple(modules)
    for fi in prog.all_functions():
        if not fi.module.name.startswith(mods):
            continue
        ax = _axis_names(fi.node)
        if len(ax) < 2:
            continue
        merged: List[Tuple[str, str, ast.Call]] = []
        splits: List[Tuple[str, str, ast.Call]] = []
        for c in walk_function(fi.node):
            if not isinstance(c, ast.Call):
                continue
            dims = _shape_args(c)
            if dims is None:
                continue
            # a merged size may have a name of its own (n = a * b; T.reshape(n, ...)): read through it, keeping the axis names
            from ..core.program import enclosing_stmt
            dims = [astq.expand_at(fi.node, d, enclosing_stmt(c), keep=list(ax)) if isinstance(d, ast.Name) and d.id not in ax else d for d in dims]
            for d in dims:
                if isinstance(d, ast.BinOp) and isinstance(d.op, ast.Mult) and isinstance(d.left, ast.Name) and isinstance(d.right, ast.Name) \
                        and d.left.id in ax and d.right.id in ax and ax[d.left.id][0] == ax[d.right.id][0] and abs(ax[d.left.id][1] - ax[d.right.id][1]) == 1:
                    a, b = sorted((d.left.id, d.right.id), key=lambda nm: ax[nm][1])
                    merged.append((a, b, c))
            for x, y in zip(dims, dims[1:]):
                if isinstance(x, ast.Name) and isinstance(y, ast.Name) and x.id in ax and y.id in ax and x.id != y.id:
                    splits.append((x.id, y.id, c))
        for a, b, mc in merged:
            for x, y, sc in splits:
                if {x, y} != {a, b} or sc is mc or sc.lineno < mc.lineno:
                    continue
                n += 1
                res.touch(fi)
                res.ob(rule, (x, y) == (a, b), fi.qualname, f"axes merged as {a}*{b} are split as ({a}, {b})",
                       f"`{short(mc, 50)}` merges the axes ({a}, {b}) of `{ax[a][0]}` ({a} outermost), but `{short(sc, 60)}` splits the merged axis as ({x}, {y}): "
                       f"the entries of different {a}/{b} are interleaved (right shape, wrong contents whenever {a} != {b})", f"{fi.module.relpath}:{sc.lineno}")
    if floor is not None:
        res.floor(rule, floor)
    else:
        res.count(rule, 0)
