"""The skeleton's edge list reaches the PAF generators in skeleton order.

PAF channels are laid out edge0.x, edge0.y, edge1.x, ...: channel 2k belongs to the k-th edge OF THE SKELETON, which is
also the order the PAF head config (`edges`), the inference-time scorer and every other data framework use.  Every
`edge_inds` that is stored by a dataset / trainer or handed to generate_pafs / PartAffinityFieldsGenerator is therefore
the skeleton's `edge_inds` (or the caller's argument) passed through order-preserving conversions only; de-duplicating
or sorting it (np.unique, sorted, set, .sort, reversed) permutes the channels relative to the labels."""

from __future__ import annotations

import ast
from typing import List, Optional

from ..core import astq
from ..core.program import Program, enclosing_stmt, norm, short, walk_function
from ..report import Result

_OK_CALLS = {"torch.Tensor", "torch.tensor", "torch.as_tensor", "np.asarray", "np.array", "numpy.asarray", "numpy.array", "list", "tuple", "copy.deepcopy", "copy.copy", "int"}
_OK_METHODS = {"tolist", "copy", "clone", "numpy", "to", "long", "int", "astype", "reshape", "view"}


def _order_preserving(e: ast.AST) -> Optional[str]:
    """None if `e` only renames/converts a sequence; else the text of the first call that may reorder / drop entries."""
    def nodes(x):
        if isinstance(x, ast.Attribute) and x.attr == "edge_inds":
            return  # the skeleton (or provider / self) the list is read from: how THAT object was obtained is not the list's order
        yield x
        for ch in ast.iter_child_nodes(x):
            yield from nodes(ch)

    for c in nodes(e):
        if isinstance(c, ast.Call):
            f = norm(c.func)
            if f in _OK_CALLS:
                continue
            if isinstance(c.func, ast.Attribute) and c.func.attr in _OK_METHODS:
                continue
            return short(c, 50)
        if isinstance(c, (ast.ListComp, ast.GeneratorExp, ast.SetComp)) and any(g.ifs for g in c.generators):
            return short(c, 50)
        if isinstance(c, ast.Subscript) and isinstance(c.slice, ast.Slice):
            return short(c, 50)
    return None


def check_edge_order(prog: Program, res: Result, rule: str, floor: int = 6) -> None:
    n = 0
    mods = ("sleap_nn.data.custom_datasets", "sleap_nn.data.streaming_datasets", "sleap_nn.data.pipelines", "sleap_nn.training.model_trainer", "sleap_nn.data.get_data_chunks")
    for fi in prog.all_functions():
        if fi.module.name not in mods:
            continue
        for st in walk_function(fi.node):
            sites: List[tuple] = []
            if isinstance(st, ast.Assign) and any(isinstance(t, ast.Attribute) and t.attr == "edge_inds" and norm(t.value) == "self" for t in st.targets):
                sites.append((st.value, st))
            if isinstance(st, ast.Call):
                for k in st.keywords:
                    if k.arg == "edge_inds":
                        sites.append((k.value, enclosing_stmt(st)))
            for v, at in sites:
                n += 1
                res.touch(fi)
                e = astq.expand_at(fi.node, v, at) if at is not None else v
                bad = _order_preserving(e)
                src = norm(e)
                rooted = "edge_inds" in src
                res.ob(rule, bad is None and rooted, fi.qualname, f"edge_inds <- {short(v, 40)} (skeleton order kept)",
                       f"`{short(v, 50)}` = `{short(e, 70)}` " + (f"passes the edge list through `{bad}`, which can reorder or drop edges" if bad else "is not derived from a skeleton's / the caller's edge_inds")
                       + ": PAF channel 2k no longer belongs to the k-th edge of the skeleton", f"{fi.module.relpath}:{getattr(at, 'lineno', fi.node.lineno)}")
    res.floor(rule, floor)
