"""No state is carried from one call to the next.

The per-frame / per-batch / per-query entry points of the library are called again and again on the same object; the
properties quantify over all call histories, so a result may depend on the arguments and on configuration fixed at
construction - not on what an earlier call left behind.  Two structural conditions:

  * (self-state) a method of the given list neither reads an attribute before writing it and also writes it (a cached
    value that survives the call), nor mutates a container attribute in place (something that accumulates), except for
    attributes listed with a reason (the tracker's candidate store IS its state).  Decided by the SelfState engine
    (CFG, read-before-write / may-write / in-place mutation summaries, through self-calls).
  * (memo) no function of the given modules is wrapped in a memoising decorator (functools.lru_cache / cache /
    cached_property) when it takes arguments: the label and frame objects they receive are mutable, a memo keyed by
    identity returns the answer of an earlier state of the object.
"""

from __future__ import annotations

import ast
from typing import Dict, Iterable, Tuple

from ..core.astq import assignments_to as astq_assignments
from ..core.program import AnalysisError, Program, norm, walk_function
from ..engines.selfstate import SelfState
from ..report import Result


def check_no_cross_call_state(prog: Program, res: Result, rule: str, methods: Iterable[str], allowed: Dict[Tuple[str, str], str] = None, floor: int = None) -> None:
    allowed = allowed or {}
    ss = SelfState(prog)
    n = 0
    for q in methods:
        cq, _, mname = q.rpartition(".")
        ci = prog.classes.get(cq)
        fi = ci.methods.get(mname) if ci is not None else None
        if fi is None:
            raise AnalysisError(f"{q} vanished")
        n += 1
        res.touch(fi)
        s = ss.summary(fi)
        flows = sorted(x for x in (s.rbw & s.may_writes) if (cq, x) not in allowed)
        muts = sorted((x, l) for x, l in s.mutated.items() if (cq, x) not in allowed)
        # a container attribute mutated through a local alias:  d = self._x;  d[k].extend(...) / d[k] = v / d.update(...)
        aliases = {}
        for st in walk_function(fi.node):
            if isinstance(st, ast.Assign) and len(st.targets) == 1 and isinstance(st.targets[0], ast.Name) and isinstance(st.value, ast.Attribute) and norm(st.value.value) == "self":
                aliases[st.targets[0].id] = st.value.attr
        for nd in walk_function(fi.node):
            base = None
            if isinstance(nd, ast.Subscript) and isinstance(nd.ctx, (ast.Store, ast.Del)):
                base = nd.value
            elif isinstance(nd, ast.Call) and isinstance(nd.func, ast.Attribute) and nd.func.attr in ("append", "extend", "update", "add", "setdefault", "pop", "clear", "insert", "remove", "popitem", "appendleft"):
                base = nd.func.value
            while isinstance(base, ast.Subscript):
                base = base.value
            if isinstance(base, ast.Name) and base.id in aliases and (cq, aliases[base.id]) not in allowed and len(astq_assignments(fi.node, base.id)) == 1:
                muts.append((aliases[base.id], nd.lineno))
        muts = sorted(set(muts))
        for x in flows:
            res.ob(rule, False, fi.qualname, f"self.{x} read before written, and written, in {mname}()",
                   f"{mname}() reads self.{x} (line {s.rbw_sites.get(x)}) on a path where this call has not written it yet, and also writes it: the result of a call "
                   "depends on what an earlier call left there (first frame size / first batch / earlier query)", f"{fi.module.relpath}:{s.rbw_sites.get(x, fi.node.lineno)}")
        for x, line in muts:
            res.ob(rule, False, fi.qualname, f"self.{x} mutated in place in {mname}()",
                   f"{mname}() mutates the container attribute self.{x} in place (line {line}): it accumulates across calls", f"{fi.module.relpath}:{line}")
        res.ob(rule, not flows and not muts, fi.qualname, "no cross-call flow through self", "see the findings above", fi.where,
               sample={"writes": sorted(s.may_writes)} if s.may_writes else None)
    if floor is not None:
        res.floor(rule, floor)


def check_no_memo(prog: Program, res: Result, rule: str, module_prefixes: Iterable[str], floor: int = 5) -> None:
    n = 0
    for fi in prog.all_functions():
        if not any(fi.module.name == p or fi.module.name.startswith(p + ".") for p in module_prefixes):
            continue
        n += 1
        decos = [norm(d.func if isinstance(d, ast.Call) else d) for d in fi.node.decorator_list]
        memo = [d for d in decos if d.split(".")[-1] in ("lru_cache", "cache", "cached_property", "memoize", "memoized")]
        has_args = len([p for p in fi.params if p not in ("self", "cls")]) > 0 or any("cached_property" in d for d in memo)
        if memo:
            res.touch(fi)
        res.ob(rule, not (memo and has_args), fi.qualname, "not memoised", f"{fi.name} is wrapped in `{memo[0] if memo else ''}`: the result is cached per argument OBJECT, so after the "
               "labels / frames / arrays it was given are modified (re-predicted, annotated) it keeps answering for their earlier state", fi.where)
    res.floor(rule, floor)


def check_no_stale_loop_var(prog: Program, res: Result, rule: str, module_prefixes: Iterable[str], floor: int = 3) -> None:
    """A variable that is bound only INSIDE a loop (never before it) is read, in every iteration, after it was bound in that
    same iteration.  If some path through an iteration reaches the read without passing a binding, the read sees the value
    of the PREVIOUS iteration (or nothing, on the first): e.g. a score computed `if candidates:` and stored unconditionally
    writes the previous track's score into the matrix.  (CFG rule; on the unchanged tree the whole package has two such
    reads, both in the architectures' block-filter loops and both guarded by `block == 0`; they are outside the modules
    this rule is applied to.)"""
    from ..core import astq
    from ..core.cfg import CFG

    n = 0
    for fi in prog.all_functions():
        if not any(fi.module.name == p or fi.module.name.startswith(p + ".") for p in module_prefixes):
            continue
        loops = [x for x in walk_function(fi.node) if isinstance(x, ast.For)]
        if not loops:
            continue
        cfg = None
        for lp in loops:
            n += 1
            inside = {}
            for st in ast.walk(lp):
                if isinstance(st, (ast.Assign, ast.AugAssign, ast.AnnAssign)):
                    for tg in astq.stmt_targets(st):
                        if isinstance(tg, (ast.Name, ast.Tuple, ast.List)):
                            for t in astq.target_names(tg):
                                inside.setdefault(t, []).append(st)
            if not inside:
                continue
            lv = astq.target_names(lp.target)
            before = set()
            for st in walk_function(fi.node):
                if getattr(st, "lineno", 10 ** 9) < lp.lineno:
                    if isinstance(st, (ast.Assign, ast.AnnAssign, ast.AugAssign)):
                        before |= {t for tg in astq.stmt_targets(st) for t in astq.target_names(tg)}
                    elif isinstance(st, (ast.For, ast.comprehension)):
                        before |= astq.target_names(st.target)
                    elif isinstance(st, (ast.With,)):
                        before |= {t for it in st.items if it.optional_vars is not None for t in astq.target_names(it.optional_vars)}
            cfg = cfg or CFG(fi.node)
            heads = cfg.nodes_of(lp)
            enter = [m for h in heads for m in cfg.g.successors(h) if "true" in cfg.g[h][m]["labels"]]
            for nm, defs in sorted(inside.items()):
                if nm in lv or nm in before or nm in fi.params:
                    continue
                dn = {x for d in defs for x in cfg.nodes_of(d)}
                for rd in ast.walk(lp):
                    if not (isinstance(rd, ast.Name) and rd.id == nm and isinstance(rd.ctx, ast.Load)):
                        continue
                    st = rd
                    while not isinstance(st, ast.stmt):
                        st = st._parent
                    if st in defs:
                        continue
                    sn = set(cfg.stmt_nodes_containing(rd))
                    if not sn:
                        continue
                    w = cfg.must_pass(enter, list(sn), dn, drop_edge=lambda a, b, labels: "exc" in labels)
                    if w is not None:
                        res.touch(fi)
                        res.ob(rule, False, fi.qualname, f"`{nm}` is bound in the iteration that reads it",
                               f"`{nm}` (bound only inside the loop at line {int(lp.lineno)}) is read at line {int(rd.lineno)} on a path of the iteration that does not bind it "
                               f"({cfg.path_str(w)}): the read sees the value left by the previous iteration", f"{fi.module.relpath}:{int(rd.lineno)}")
                        break
    res.count(rule, n)
    res.floor(rule, floor)
