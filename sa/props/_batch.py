"""Per-sample loops of the batch-level functions: one entry per sample, no state carried between samples.

A `*_batch` function walks the samples of a batch in a loop and collects one result per sample in lists that it returns
(as nested tensors / lists); downstream code pairs entry k with frame k of the batch (frame_idx, video_idx, eff_scale,
the per-sample peaks).  Necessary conditions decided here, on the CFG of the function:

  * every completed iteration of the per-sample loop appends exactly once to each returned list (an iteration that
    `continue`s past the appends shortens the list and shifts every later sample to its neighbour's slot);
  * the lists start empty, outside the loop;
  * no parameter of the function is re-bound inside the loop (a re-bound parameter carries the restriction computed
    for one sample into all later samples of the batch).
"""

from __future__ import annotations

import ast
from typing import Iterable, List, Optional, Set

from ..core import astq
from ..core.cfg import CFG
from ..core.program import AnalysisError, Program, enclosing_stmt, norm, short, walk_function
from ..report import Result


def _adds(fn: ast.AST, nm: str) -> List[ast.AST]:
    """The sites that add to list `nm`: nm.append(x), nm.extend(xs), nm += xs."""
    out: List[ast.AST] = [c for c in astq.method_calls(fn, "append") + astq.method_calls(fn, "extend") if isinstance(c.func.value, ast.Name) and c.func.value.id == nm]
    out += [st for st in walk_function(fn) if isinstance(st, ast.AugAssign) and isinstance(st.op, ast.Add) and isinstance(st.target, ast.Name) and st.target.id == nm]
    return out


def _returned_lists(fn: ast.AST):
    """(names filled by append/extend inside a loop, names built by a comprehension) among the names the return value is made of."""
    rets = [n for n in walk_function(fn) if isinstance(n, ast.Return) and n.value is not None]
    names: Set[str] = set()
    for r in rets:
        names |= astq.names_in(r.value) | astq.names_in(astq.expand(fn, r.value))
    looped, comps = [], []
    for nm in sorted(names):
        apps = _adds(fn, nm)
        if apps and any(astq.enclosing_loops(c) for c in apps):
            looped.append(nm)
        else:
            comps += [b for b in astq.list_builds(fn, nm) if isinstance(b.site, ast.ListComp)]
    return looped, comps


def check_per_sample_lists(prog: Program, res: Result, rule: str, quals: Iterable[str], floor: Optional[int] = None) -> None:
    n = 0
    for q in quals:
        fi = prog.func(q)
        res.touch(fi)
        fn = astq.unroll_literal_loops(fi.node)   # `for lst, v in zip((a, b, c), values): lst.append(v)` is three appends
        lists, comps = _returned_lists(fn)
        res.ob(rule, bool(lists) or bool(comps), fi.qualname, "returns per-sample lists", f"{fi.name} no longer collects its per-sample results in returned lists", fi.where)
        for b in comps:   # a comprehension yields one entry per element unless it filters
            n += 1
            res.ob(rule, not b.conds, fi.qualname, f"`{b.name}` has one entry per element", f"`{b.name}` is built by a filtering comprehension (`if {short(b.conds[0], 40) if b.conds else ''}`): "
                   "entries are dropped and later samples shift", f"{fi.module.relpath}:{b.site.lineno}")
        if not lists:
            continue
        cfg = CFG(fn)
        loops = set()
        for nm in lists:
            apps = _adds(fn, nm)
            outer = {id(astq.enclosing_loops(c)[-1]): astq.enclosing_loops(c)[-1] for c in apps if astq.enclosing_loops(c)}
            ok1 = len(outer) == 1 and len(apps) >= 1
            res.ob(rule, ok1, fi.qualname, f"`{nm}` is filled in one per-sample loop", f"`{nm}` is appended to in {len(outer)} loops / outside the loop", fi.where)
            if not ok1:
                continue
            lp = next(iter(outer.values()))
            loops.add(lp)
            n += 1
            heads = cfg.nodes_of(lp)
            an = {x for c in apps for x in cfg.stmt_nodes_containing(c)}
            enter = [m for h in heads for m in cfg.g.successors(h) if "true" in cfg.g[h][m]["labels"]]
            no_exc = lambda a, b, labels: "exc" in labels
            w = cfg.must_pass(enter, heads, an, drop_edge=no_exc)
            res.ob(rule, w is None, fi.qualname, f"every iteration appends to `{nm}`",
                   f"an iteration of the per-sample loop can complete without appending to `{nm}` ({cfg.path_str(w) if w else ''}): the returned list is shorter than the "
                   "batch and every later sample is paired with its neighbour's frame", f"{fi.module.relpath}:{lp.lineno}", sample={"list": nm})
            twice = any(cfg.reachable_from(list(cfg.g.successors(p)), avoid=heads) & an for p in an)
            res.ob(rule, not twice, fi.qualname, f"`{nm}` appended at most once per iteration", f"`{nm}` can be appended twice in one iteration of the per-sample loop", f"{fi.module.relpath}:{lp.lineno}")
            inits = [s for s in astq.assignments_to(fn, nm) if not isinstance(s, ast.AugAssign)]

            def _init_value(st_):
                """the value bound to nm by st_ (also through  a, b = [], [])"""
                v_ = getattr(st_, "value", None)
                t_ = st_.targets[0] if isinstance(st_, ast.Assign) and len(st_.targets) == 1 else None
                if isinstance(t_, (ast.Tuple, ast.List)) and isinstance(v_, (ast.Tuple, ast.List)) and len(t_.elts) == len(v_.elts):
                    for e_, x_ in zip(t_.elts, v_.elts):
                        if isinstance(e_, ast.Name) and e_.id == nm:
                            return x_
                return v_

            iv = _init_value(inits[0]) if len(inits) == 1 else None
            ok_init = len(inits) == 1 and ((isinstance(iv, ast.List) and not iv.elts) or (isinstance(iv, ast.Call) and norm(iv.func) == "list" and not iv.args)) \
                and not astq.enclosing_loops(inits[0])
            res.ob(rule, ok_init, fi.qualname, f"`{nm}` starts empty, outside the loop", f"`{nm}` is not initialised to an empty list exactly once before the per-sample loop", fi.where)
        params = set(fi.params)
        for lp in loops:
            # names that carry per-sample data: the loop variable and everything assigned inside the loop
            lv = astq.target_names(lp.target)
            inside = {t for st in ast.walk(lp) if isinstance(st, (ast.Assign, ast.AugAssign, ast.AnnAssign)) for tg in astq.stmt_targets(st) for t in astq.target_names(tg)}
            rebound = []
            for st in ast.walk(lp):
                if not isinstance(st, (ast.Assign, ast.AugAssign, ast.AnnAssign)) or getattr(st, "value", None) is None:
                    continue
                tgt = {t for tg in astq.stmt_targets(st) if isinstance(tg, (ast.Name, ast.Tuple, ast.List)) for t in astq.target_names(tg)} & params
                # x = x.cpu() is the same value every round; x = f(x, <something of this sample>) is not
                if tgt and (astq.names_in(st.value) & ((lv | inside) - tgt)):
                    rebound += sorted(tgt)
            rebound = sorted(set(rebound))
            res.ob(rule, not rebound, fi.qualname, "no parameter is re-bound from per-sample data inside the per-sample loop",
                   f"parameter(s) {rebound} are re-assigned inside the per-sample loop from data of the current sample: what is computed for one sample replaces the caller's value "
                   "for every later sample of the batch", f"{fi.module.relpath}:{lp.lineno}")
    if floor is not None:
        res.floor(rule, floor)


def check_every_iteration_accumulates(prog: Program, res: Result, rule: str, quals: Iterable[str], floor: Optional[int] = None) -> None:
    """The per-instance accumulation loops (maximum / sum over the instances of a frame): every iteration reaches the
    statement that folds the instance into the returned accumulator.  An iteration that `continue`s first (say, because the
    instance has SOME missing node) drops the instance's labelled parts from the target as well."""
    n = 0
    for q in quals:
        fi = prog.func(q)
        res.touch(fi)
        fn = fi.node
        rets = [r for r in walk_function(fn) if isinstance(r, ast.Return) and r.value is not None]
        names = set().union(*[astq.names_in(r.value) for r in rets]) if rets else set()
        cfg = CFG(fn)
        found = False
        for nm in sorted(names):
            ups = [st for st in walk_function(fn) if isinstance(st, (ast.Assign, ast.AugAssign)) and astq.enclosing_loops(st)
                   and any(isinstance(t, ast.Name) and t.id == nm for t in astq.stmt_targets(st))
                   and (isinstance(st, ast.AugAssign) or nm in astq.names_in(st.value))]
            if not ups:
                continue
            found = True
            lp = astq.enclosing_loops(ups[0])[-1]
            heads = cfg.nodes_of(lp)
            enter = [m for h in heads for m in cfg.g.successors(h) if "true" in cfg.g[h][m]["labels"]]
            un = {x for st in ups for x in cfg.nodes_of(st)}
            # skipping an instance that is NaN THROUGHOUT changes nothing (it would draw / add zeros): the edge taken when
            # `isnan(instance).all()` holds is not a way of losing a labelled part
            harmless = {}
            for t_ in ast.walk(lp):
                if isinstance(t_, ast.If):
                    tt = astq.expand_at(fn, t_.test, t_)
                    neg = isinstance(tt, ast.UnaryOp) and isinstance(tt.op, ast.Not)
                    core = norm(tt.operand if neg else tt)
                    if "isnan" in core and ".all(" in core + "(" and ".any(" not in core and "all(" in core:
                        for tn in cfg.nodes_of(t_):
                            harmless[tn] = "false" if neg else "true"
            w = cfg.must_pass(enter, heads, un, drop_edge=lambda a, b, labels: "exc" in labels or (a in harmless and harmless[a] in labels))
            n += 1
            res.ob(rule, w is None, fi.qualname, f"every iteration folds its instance into `{nm}`",
                   f"an iteration of the loop in {fi.name} can end without updating `{nm}` ({cfg.path_str(w) if w else ''}): the instance of that iteration contributes nothing, "
                   "including the parts of it that are labelled", f"{fi.module.relpath}:{lp.lineno}")
        res.ob(rule, found, fi.qualname, "accumulation loop found", f"{fi.name} no longer accumulates its result over a loop", fi.where)
    if floor is not None:
        res.floor(rule, floor)
