"""compute_iou on bounding boxes [xmin, ymin, xmax, ymax] - a small sign analysis of the formula.

With valid boxes (xmax >= xmin, ymax >= ymin; get_bbox builds them as nanmin/nanmax of the same points):
  * each box area is STRICTLY positive (the pixel-inclusive `+ 1`): the union is then positive and the quotient is
    never 0/0 = NaN for degenerate (zero width/height) boxes - a NaN score becomes an infinite cost and the
    assignment solver raises;
  * the intersection is the product of the two per-axis overlaps, EACH clamped at zero: clamping only the product
    lets two negative overlaps (boxes disjoint on both axes) multiply to a positive "intersection".
"""

from __future__ import annotations

import ast
from typing import Dict, List, Optional, Tuple

from ..core import astq
from ..core.program import AnalysisError, Program, norm, short, walk_function
from ..report import Result

POS, NONNEG, UNK = "pos", "nonneg", "unknown"


def _box_roles(fn: ast.FunctionDef) -> Dict[str, Tuple[int, int]]:
    """name -> (box number, position in [xmin, ymin, xmax, ymax]) from `(x0, y0, x1, y1), (...) = a, b`."""
    out: Dict[str, Tuple[int, int]] = {}
    params = [a.arg for a in fn.args.args]
    packs: Dict[str, List[ast.AST]] = {}   # name -> the 4 elements of a tuple it is bound to (a re-packed box)
    for st in walk_function(fn):
        if isinstance(st, ast.Assign) and len(st.targets) == 1 and isinstance(st.targets[0], ast.Name) and isinstance(st.value, (ast.Tuple, ast.List)) and len(st.value.elts) == 4:
            packs[st.targets[0].id] = list(st.value.elts)
    for _ in range(3):
        for st in walk_function(fn):
            if not isinstance(st, ast.Assign) or len(st.targets) != 1:
                continue
            pairs = []
            t, v = st.targets[0], st.value
            if isinstance(t, ast.Tuple) and isinstance(v, ast.Tuple) and len(t.elts) == len(v.elts) and all(isinstance(e, ast.Tuple) for e in t.elts):
                pairs = list(zip(t.elts, v.elts))
            elif isinstance(t, ast.Tuple) and isinstance(v, ast.Name):
                pairs = [(t, v)]
            for tt, vv in pairs:
                if not (isinstance(vv, ast.Name) and len(tt.elts) == 4 and all(isinstance(e, ast.Name) for e in tt.elts)):
                    continue
                if vv.id in params:
                    for k, e in enumerate(tt.elts):
                        out[e.id] = (params.index(vv.id), k)
                elif vv.id in packs:
                    for e, src in zip(tt.elts, packs[vv.id]):
                        if isinstance(src, ast.Name) and src.id in out:
                            out[e.id] = out[src.id]
    return out


def _role(e: ast.AST, roles, params) -> Optional[Tuple[int, int]]:
    if isinstance(e, ast.Name):
        return roles.get(e.id)
    if isinstance(e, ast.Subscript) and isinstance(e.value, ast.Name) and e.value.id in params and isinstance(astq.const_value(e.slice), int):
        return (params.index(e.value.id), astq.const_value(e.slice))
    return None


def sign(e: ast.AST, roles, params) -> str:
    if isinstance(e, ast.Constant) and isinstance(e.value, (int, float)):
        return POS if e.value > 0 else (NONNEG if e.value == 0 else UNK)
    if isinstance(e, ast.BinOp):
        if isinstance(e.op, ast.Sub):
            a, b = _role(e.left, roles, params), _role(e.right, roles, params)
            if a and b and a[0] == b[0] and a[1] == b[1] + 2 and b[1] in (0, 1):
                return NONNEG  # xmax - xmin / ymax - ymin of one box
            return UNK
        l, r = sign(e.left, roles, params), sign(e.right, roles, params)
        if isinstance(e.op, ast.Add):
            if UNK in (l, r):
                return UNK
            return POS if POS in (l, r) else NONNEG
        if isinstance(e.op, ast.Mult):
            if UNK in (l, r):
                return UNK
            return POS if l == r == POS else NONNEG
        return UNK
    if isinstance(e, ast.Call):
        f = norm(e.func).split(".")[-1]
        args = list(e.args)
        if f in ("max", "maximum") and len(args) == 2:
            s = [sign(a, roles, params) for a in args]
            if POS in s:
                return POS
            return NONNEG if NONNEG in s else UNK
        if f in ("clamp", "clip"):
            lo = astq.call_arg(e, 1, "min")
            if lo is not None and sign(lo, roles, params) in (POS, NONNEG):
                return sign(lo, roles, params)
        if f in ("float", "int", "abs") and len(args) == 1:
            return sign(args[0], roles, params) if f != "abs" else NONNEG
    return UNK


def _terms(e: ast.AST, positive=True):
    """additive terms of e with their signs."""
    if isinstance(e, ast.BinOp) and isinstance(e.op, ast.Add):
        return _terms(e.left, positive) + _terms(e.right, positive)
    if isinstance(e, ast.BinOp) and isinstance(e.op, ast.Sub):
        return _terms(e.left, positive) + _terms(e.right, not positive)
    return [(positive, e)]


def check_iou(prog: Program, res: Result, rule: str, floor: int = 3) -> None:
    fi = prog.func("sleap_nn.tracking.utils:compute_iou")
    res.touch(fi)
    fn = fi.node
    roles = _box_roles(fn)
    params = [a.arg for a in fn.args.args]
    rets = [n for n in walk_function(fn) if isinstance(n, ast.Return) and n.value is not None]
    q = astq.expand(fn, rets[0].value, depth=12) if len(rets) == 1 else None
    ok = isinstance(q, ast.BinOp) and isinstance(q.op, ast.Div)
    res.ob(rule, ok, fi.qualname, "IoU = intersection / union", "compute_iou does not return a quotient intersection / union", fi.where)
    if not ok:
        res.floor(rule, floor)
        return
    inter, union = q.left, q.right
    fac = [inter.left, inter.right] if isinstance(inter, ast.BinOp) and isinstance(inter.op, ast.Mult) else []
    ok_i = len(fac) == 2 and all(sign(f, roles, params) in (POS, NONNEG) for f in fac)
    res.ob(rule, ok_i, fi.qualname, "intersection = (x overlap clamped at 0) * (y overlap clamped at 0)",
           f"the intersection `{short(inter, 70)}` is not a product of two overlaps that are each clamped at zero: for boxes disjoint on both axes two negative "
           "overlaps multiply to a positive area (a spurious IoU between animals that do not overlap)", fi.where)
    terms = _terms(union)
    pos = [t for s_, t in terms if s_]
    neg = [t for s_, t in terms if not s_]
    ok_u = len(neg) == 1 and norm(neg[0]) == norm(inter) and len(pos) == 2
    res.ob(rule, ok_u, fi.qualname, "union = area1 + area2 - intersection", f"the union `{short(union, 70)}` is not area1 + area2 - intersection", fi.where)
    for k, a in enumerate(pos[:2]):
        res.ob(rule, sign(a, roles, params) == POS, fi.qualname, f"area {k + 1} is strictly positive (pixel-inclusive extent)",
               f"box area `{short(a, 60)}` can be 0 for a box of zero width or height: the IoU of two degenerate boxes is 0/0 = NaN, which becomes an infinite cost "
               "(linear_sum_assignment raises 'cost matrix is infeasible')", fi.where)
    res.floor(rule, floor)
