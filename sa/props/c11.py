"""C11 — datasets never alter or invent labels; the same index gives the same sample."""

from __future__ import annotations

import ast
from typing import Dict, List, Optional, Set

from ..core import astq
from ..core.program import AnalysisError, FunctionInfo, Program, ancestors, enclosing_stmt, norm, short, walk_function
from ..engines.alias import Alias
from ..engines.selfstate import SelfState
from ..report import Result
from ..runner import Variant

PROP = "C11"
EXPLANATION = (
    "(pure) a flow-sensitive origin/alias analysis over the CFG of every function of the functional data / peak-finding / "
    "evaluation / tracking-helper API (frozen table) and, transitively, of every repo function they call: views (basic "
    "indexing, reshape/squeeze/unsqueeze/permute/.T/.to/.numpy/from_numpy, iteration, packing) propagate the origin of a "
    "parameter, copies and arithmetic are fresh, and no in-place sink (x[...]=v, x op= v, *_() methods, out=, container "
    "mutators) may be reached by a value whose origin is a parameter. (cache) in the four Dataset.__getitem__ the value "
    "read from self.cache is shallow-copied before any key is re-bound and no value with origin `cache` reaches an "
    "in-place sink, directly or through a callee's summary; _fill_cache stores a copy or a file name. (state) "
    "__getitem__/__len__ of the four datasets and four streaming datasets write no attribute of self and mutate no "
    "container attribute. (len) __len__ returns the length of the index list built under the `is_empty` filter, and "
    "_fill_cache / __getitem__ address the cache by position in that list."
)
TRUSTED = [
    "CPython ast", "networkx reachability",
    "the view/copy classification of torch and numpy operations in sa/engines/alias.py (unknown methods on tracked values are treated as aliases)",
    "A-sio: sleap_io Instance.numpy() returns a fresh array (checked in the installed sleap_io source)",
]

API = {
    "sleap_nn.data.instance_centroids": ["find_points_bbox_midpoint", "generate_centroids"],
    "sleap_nn.data.instance_cropping": ["make_centered_bboxes", "generate_crops", "find_instance_crop_size"],
    "sleap_nn.data.confidence_maps": ["generate_confmaps", "generate_multiconfmaps", "make_confmaps", "make_multi_confmaps"],
    "sleap_nn.data.edge_maps": ["distance_to_edge", "make_edge_maps", "make_pafs", "make_multi_pafs", "get_edge_points", "generate_pafs"],
    "sleap_nn.data.utils": ["make_grid_vectors", "expand_to_rank", "gaussian_pdf", "ensure_list"],
    "sleap_nn.data.resizing": ["find_padding_for_stride", "apply_pad_to_stride", "resize_image", "apply_resizer", "apply_sizematcher"],
    "sleap_nn.data.normalization": ["convert_to_grayscale", "convert_to_rgb", "apply_normalization"],
    "sleap_nn.data.augmentation": ["apply_intensity_augmentation", "apply_geometric_augmentation"],
    "sleap_nn.data.providers": ["process_lf", "get_max_instances", "get_max_height_width"],
    "sleap_nn.data.get_data_chunks": ["bottomup_data_chunks", "centered_instance_data_chunks", "centroid_data_chunks", "single_instance_data_chunks"],
    "sleap_nn.inference.peak_finding": ["crop_bboxes", "integral_regression", "find_global_peaks_rough", "find_global_peaks", "find_local_peaks_rough", "find_local_peaks"],
    "sleap_nn.inference.paf_grouping": ["get_connection_candidates", "make_line_subs", "get_paf_lines", "compute_distance_penalty", "score_paf_lines",
                                        "score_paf_lines_batch", "match_candidates_sample", "match_candidates_batch", "toposort_edges"],
    "sleap_nn.evaluation": ["compute_instance_area", "compute_oks"],
    "sleap_nn.tracking.utils": ["get_keypoints", "get_centroid", "get_bbox", "compute_euclidean_distance", "compute_iou", "compute_cosine_sim",
                                 "hungarian_matching", "greedy_matching"],
    "sleap_nn.inference.utils": ["interp1d"],
}
DATASETS = ["BottomUpDataset", "CenteredInstanceDataset", "CentroidDataset", "SingleInstanceDataset"]
STREAMING = ["BottomUpStreamingDataset", "CenteredInstanceStreamingDataset", "CentroidStreamingDataset", "SingleInstanceStreamingDataset"]
CD = "sleap_nn.data.custom_datasets"
SD = "sleap_nn.data.streaming_datasets"


def make_alias(prog: Program) -> Alias:
    return Alias(prog)


def check_pure(prog: Program, res: Result, al: Alias, rule: str = "C11-pure", table: Optional[Dict[str, List[str]]] = None) -> None:
    table = table or API
    n = 0
    for mod, names in table.items():
        for name in names:
            fi = prog.func(f"{mod}:{name}")
            res.touch(fi)
            sm = al.summary(fi)
            n += 1
            bad = {p: effs for p, effs in sm.mutated.items()}
            if not bad:
                res.ob(rule, True, fi.qualname, "no parameter is mutated", "", fi.where,
                       sample={"params": [p for p in fi.params], "store_sites_checked": sm.store_sites, "returns_alias": sorted(sm.returns)})
            for p, effs in bad.items():
                for ef in effs:
                    via = f" through {ef.via}" if ef.via else ""
                    res.ob(rule, False, fi.qualname, f"param `{p}` <- {ef.stmt}{' via ' + ef.via.split('(')[0] if ef.via else ''}",
                           f"`{fi.name}` can modify the caller's `{p}` in place: `{ef.stmt}`{via} writes through a value that is (a view of) the "
                           f"argument - labels / inputs are altered for every later reader", f"{fi.module.relpath}:{ef.line}",
                           derivation={"param": p, "sink": ef.stmt, "kind": ef.kind, "via": ef.via})
    res.extra.setdefault("alias", {})["api_functions"] = n
    res.floor(rule, 40 if table is API else 1)


def check_cache(prog: Program, res: Result, al: Alias) -> None:
    R = "C11-cache"
    for cname in DATASETS:
        ci = prog.cls(f"{CD}:{cname}")
        gi = ci.methods.get("__getitem__")
        if gi is None:
            raise AnalysisError(f"{cname}.__getitem__ vanished")
        res.touch(gi)
        sm = al.summary(gi)
        reads = [n for n in walk_function(gi.node) if isinstance(n, ast.Subscript) and norm(n.value) == "self.cache"]
        res.ob(R, len(reads) == 1, gi.qualname, "one read of self.cache", f"{len(reads)} reads of self.cache", gi.where)
        for r in reads:
            par = r._parent
            copied = isinstance(par, ast.Attribute) and par.attr in ("copy",) and isinstance(par._parent, ast.Call)
            deep = isinstance(par, ast.Call) and norm(par.func) in ("copy.deepcopy", "deepcopy", "copy.copy", "dict") and par.args and par.args[0] is r
            deep = deep or (isinstance(par, ast.Dict) and None in par.keys)
            res.ob(R, copied or deep, gi.qualname, "cached sample is copied before use",
                   "the cached sample dict is used without a copy: every key re-bound by __getitem__ (augmented image, targets) is written into the cache and "
                   "the next read of the same index returns the altered sample", f"{gi.module.relpath}:{r.lineno}")
            res.ob(R, norm(r.slice) == gi.pos_params[1] if len(gi.pos_params) > 1 else False, gi.qualname, "cache addressed by the requested index",
                   f"self.cache is addressed by `{norm(r.slice)}`, not by the requested index", f"{gi.module.relpath}:{r.lineno}")
        effs = [e for e in sm.effects if e.origin == ("cache",)]
        for e in effs:
            res.ob(R, False, gi.qualname, f"cache <- {e.stmt}{' via ' + e.via.split('(')[0] if e.via else ''}",
                   f"`{e.stmt}`{' (through ' + e.via + ')' if e.via else ''} mutates in place a value that lives in self.cache: the sample for this "
                   "index differs on the next read", f"{gi.module.relpath}:{e.line}", derivation={"sink": e.stmt, "via": e.via, "kind": e.kind})
        res.ob(R, not effs, gi.qualname, "no in-place sink reaches a cached value", "see above", gi.where,
               sample={"sinks_checked": sm.store_sites, "effects": len(sm.effects)})
    for cname in ("BaseDataset", "CenteredInstanceDataset", "CentroidDataset"):
        ci = prog.cls(f"{CD}:{cname}")
        fc = ci.methods.get("_fill_cache")
        if fc is None:
            raise AnalysisError(f"{cname}._fill_cache vanished")
        res.touch(fc)
        stores = [s for s in walk_function(fc.node) if isinstance(s, ast.Assign) and isinstance(s.targets[0], ast.Subscript) and norm(s.targets[0].value) == "self.cache"]
        res.ob(R, len(stores) == 2, fc.qualname, "two cache stores (file name / in-memory copy)", f"{len(stores)} stores into self.cache", fc.where)
        loops = [n for n in walk_function(fc.node) if isinstance(n, ast.For) and norm(n.iter).startswith("enumerate(self.")]
        lv = norm(loops[0].target.elts[0]) if loops and isinstance(loops[0].target, ast.Tuple) else None
        for s in stores:
            v = s.value
            ok = (isinstance(v, ast.Call) and isinstance(v.func, ast.Attribute) and v.func.attr == "copy") or isinstance(v, ast.Name) and "name" in v.id
            res.ob(R, ok, fc.qualname, f"cache entry is a copy or a file name: {short(v, 30)}", f"self.cache receives `{short(v, 40)}` (the live sample dict)", f"{fc.module.relpath}:{s.lineno}")
            res.ob(R, lv is not None and norm(s.targets[0].slice) == lv, fc.qualname, "cache keyed by the position in the index list",
                   f"self.cache is keyed by `{norm(s.targets[0].slice)}` instead of the enumerate position `{lv}`", f"{fc.module.relpath}:{s.lineno}")
    res.floor(R, 20)


def check_state(prog: Program, res: Result) -> None:
    R = "C11-state"
    ss = SelfState(prog)
    for mod, names in ((CD, DATASETS + ["BaseDataset"]), (SD, STREAMING)):
        for cname in names:
            ci = prog.cls(f"{mod}:{cname}")
            for m in ("__getitem__", "__len__"):
                fi = ci.methods.get(m)
                if fi is None:
                    continue
                res.touch(fi)
                s = ss.summary(fi)
                res.ob(R, not s.may_writes and not s.mutated, fi.qualname, f"{m} keeps no state",
                       f"{cname}.{m} writes self.{sorted(s.may_writes | set(s.mutated))}: the sample for an index depends on earlier reads",
                       fi.where, sample={"reads": sorted(s.rbw)[:6]})
    res.floor(R, 10)


def check_label_frames(prog: Program, res: Result) -> None:
    """Building training data never changes the caller's label set.  The data layer filters frames to their user instances
    by ASSIGNING `lf.instances = lf.user_instances`; that is harmless only on a private deep copy of the labels
    (LabelsReaderDP takes one).  Every such store is classified: the frame comes from `self.labels` of a class whose
    constructor bound `self.labels = copy.deepcopy(<argument>)` -> private; anything else (the argument itself, a shallow
    copy.copy whose frames are shared, a frame received as a parameter) writes through to the caller: the predicted
    instances of that frame disappear from the caller's Labels, and from every dataset / reader built from it later."""
    R = "C11-labels"
    n = 0
    for fi in prog.all_functions():
        if not fi.module.name.startswith("sleap_nn.data"):
            continue
        for st in walk_function(fi.node):
            if not (isinstance(st, ast.Assign) and len(st.targets) == 1 and isinstance(st.targets[0], ast.Attribute) and st.targets[0].attr == "instances"
                    and isinstance(st.targets[0].value, ast.Name)):
                continue
            n += 1
            res.touch(fi)
            private = False
            if fi.cls is not None:
                for c in prog.mro(fi.cls):
                    init = c.methods.get("__init__")
                    binds = [b for b in walk_function(init.node) if isinstance(b, ast.Assign) and norm(b.targets[0]) == "self.labels"] if init is not None else []
                    if binds:   # how the class first obtains its label set decides whose frames it holds
                        first = min(binds, key=lambda b_: b_.lineno)
                        fv = astq.expand_at(init.node, first.value, first)
                        private = isinstance(fv, ast.Call) and norm(fv.func) in ("copy.deepcopy", "deepcopy")
                        break
            res.ob(R, private, fi.qualname, "the store into <frame>.instances hits a private deep copy of the labels",
                   f"`{short(st, 50)}` stores into a label frame that is shared with the caller (no deep copy of the label set was taken): constructing the dataset / reading a frame "
                   "removes the predicted instances of that frame from the caller's Labels", f"{fi.module.relpath}:{st.lineno}",
                   sample=short(st, 60))
    res.floor(R, 4)


def check_own_cache(prog: Program, res: Result) -> None:
    """Every dataset object owns its containers: a mutable container declared in the CLASS body (cache: Dict = {}) is one
    object shared by all instances of all subclasses - building a second dataset overwrites the samples the first one
    cached, so ds[i] depends on what else was constructed.  Each container a method fills through `self.` is bound
    per instance in an __init__ of the class or a base."""
    R = "C11-own"
    n = 0
    mutable = lambda v: isinstance(v, (ast.Dict, ast.List, ast.Set, ast.ListComp, ast.DictComp)) or (
        isinstance(v, ast.Call) and norm(v.func).split(".")[-1] in ("dict", "list", "set", "defaultdict", "OrderedDict", "deque"))
    for mod, names in ((CD, DATASETS + ["BaseDataset"]), (SD, STREAMING)):
        for cname in names:
            ci = prog.cls(f"{mod}:{cname}")
            mro = prog.mro(ci)
            # containers the methods mutate through self
            filled = set()
            for c in mro:
                for fi in c.methods.values():
                    for nd in walk_function(fi.node):
                        if isinstance(nd, ast.Subscript) and isinstance(nd.ctx, (ast.Store, ast.Del)) and isinstance(nd.value, ast.Attribute) and norm(nd.value.value) == "self":
                            filled.add(nd.value.attr)
                        if isinstance(nd, ast.Call) and isinstance(nd.func, ast.Attribute) and nd.func.attr in ("append", "extend", "update", "setdefault", "add", "pop") \
                                and isinstance(nd.func.value, ast.Attribute) and norm(nd.func.value.value) == "self":
                            filled.add(nd.func.value.attr)
            per_instance = set()
            for c in mro:
                init = c.methods.get("__init__")
                if init is not None:
                    for st in walk_function(init.node):
                        if isinstance(st, (ast.Assign, ast.AnnAssign)):
                            for t in astq.stmt_targets(st):
                                if isinstance(t, ast.Attribute) and norm(t.value) == "self":
                                    per_instance.add(t.attr)
            for c in mro:
                for st in c.node.body:
                    tgt = st.targets[0] if isinstance(st, ast.Assign) and len(st.targets) == 1 else (st.target if isinstance(st, ast.AnnAssign) else None)
                    val = getattr(st, "value", None)
                    if isinstance(tgt, ast.Name) and val is not None and mutable(val):
                        n += 1
                        res.ob(R, tgt.id in per_instance or tgt.id not in filled, ci.qualname, f"class-level `{tgt.id}` is not the container the instances fill",
                               f"`{c.name}.{tgt.id}` is a mutable container created once in the class body and filled through `self.{tgt.id}` without a per-instance "
                               f"binding in __init__: all {cname} objects (and every other subclass) share it, so a second dataset overwrites the first one's cached samples",
                               f"{c.module.relpath}:{st.lineno}")
            for nm in sorted(filled):
                n += 1
                res.ob(R, nm in per_instance, ci.qualname, f"self.{nm} is created per instance in __init__",
                       f"`self.{nm}` is filled by the methods of {cname} but never bound in an __init__ of the class or its bases", f"{ci.module.relpath}:{ci.node.lineno}")
    res.floor(R, 5)


def _is_not_empty_test(t: ast.AST) -> Optional[str]:
    """name X if t is `not X.is_empty`."""
    if isinstance(t, ast.UnaryOp) and isinstance(t.op, ast.Not) and isinstance(t.operand, ast.Attribute) and t.operand.attr == "is_empty":
        return norm(t.operand.value)
    return None


def _nonempty_guard(fn: ast.AST, test: ast.AST):
    """Does `test` hold exactly when a non-empty instance exists?  Direct forms (`not inst.is_empty`,
    any(not i.is_empty for i in ...)) and a boolean flag of either polarity flipped under `if not inst.is_empty`."""
    if _is_not_empty_test(test) is not None:
        return True, "instance is not empty"
    if isinstance(test, ast.Call) and norm(test.func) == "any" and test.args and isinstance(test.args[0], (ast.GeneratorExp, ast.ListComp)) \
            and _is_not_empty_test(test.args[0].elt) is not None and not test.args[0].generators[0].ifs:
        return True, "some instance is not empty"
    neg = isinstance(test, ast.UnaryOp) and isinstance(test.op, ast.Not)
    flag = test.operand if neg else test
    if not isinstance(flag, ast.Name):
        return False, "not an emptiness test"
    sets = [s_ for s_ in walk_function(fn) if isinstance(s_, ast.Assign) and norm(s_.targets[0]) == flag.id]
    if len(sets) == 1 and not isinstance(sets[0].value, ast.Constant):
        # a named test:  has_labelled = any(not i.is_empty for i in ...)
        ok_, why_ = _nonempty_guard(fn, sets[0].value)
        return (ok_ and not neg), (why_ if not neg else "negated emptiness test")
    if len(sets) != 2 or not all(isinstance(s_.value, ast.Constant) and isinstance(s_.value.value, bool) for s_ in sets):
        return False, f"flag `{flag.id}` is not a two-valued emptiness flag"
    init = [s_ for s_ in sets if not any(isinstance(a, ast.If) for a in ancestors(s_) if astq.in_body_of(s_, a) or astq.in_body_of(s_, a, "orelse"))]
    flip = [s_ for s_ in sets if s_ not in init]
    if len(init) != 1 or len(flip) != 1 or init[0].value.value == flip[0].value.value:
        return False, f"flag `{flag.id}` is not initialised once and flipped once"
    conds = [a for a in ancestors(flip[0]) if isinstance(a, ast.If) and astq.in_body_of(flip[0], a)]
    if len(conds) != 1 or _is_not_empty_test(conds[0].test) is None:
        return False, f"flag `{flag.id}` is not flipped exactly under `not inst.is_empty`"
    # the flip happens in a loop over the frame's instances, after the initialisation, and the test comes after the loop
    loops = astq.enclosing_loops(flip[0])
    if not loops or init[0].lineno > loops[0].lineno:
        return False, "flag not initialised before the instance loop"
    v0 = init[0].value.value  # value meaning "no non-empty instance seen"
    holds_when_seen = (not neg and v0 is False) or (neg and v0 is True)
    return holds_when_seen, "polarity" if not holds_when_seen else "flag"


def check_len(prog: Program, res: Result) -> None:
    R = "C11-len"
    for cname, lst, builder in (("BaseDataset", "lf_idx_list", "_get_lf_idx_list"), ("CenteredInstanceDataset", "instance_idx_list", "_get_instance_idx_list")):
        ci = prog.cls(f"{CD}:{cname}")
        ln = ci.methods.get("__len__")
        res.touch(ln)
        rets = [n for n in walk_function(ln.node) if isinstance(n, ast.Return) and n.value is not None]
        plain = [r for r in rets if not any(isinstance(a, ast.If) for a in ancestors(r))]
        res.ob(R, len(plain) == 1 and norm(plain[0].value) == f"len(self.{lst})", ln.qualname, f"len == len(self.{lst})",
               f"__len__ returns `{short(plain[0].value, 40) if plain else '?'}` instead of the number of indexed non-empty entries", ln.where)
        guarded = [r for r in rets if r not in plain]
        for r in guarded:
            g = [a for a in ancestors(r) if isinstance(a, ast.If)]
            res.ob(R, norm(g[0].test) == "self.use_existing_chunks", ln.qualname, "only the existing-chunks branch counts files",
                   f"a second length is returned under `{short(g[0].test, 40)}`", f"{ln.module.relpath}:{r.lineno}")
        b = ci.methods.get(builder)
        res.touch(b)
        lnames = {norm(c.func.value) for c in astq.method_calls(b.node, "append") + astq.method_calls(b.node, "extend") if norm(c.func.value).endswith("idx_list")}
        builds = [bd for ln_ in lnames for bd in astq.list_builds(b.node, ln_)]
        res.ob(R, len(builds) == 1, b.qualname, "one place fills the index list", f"{len(builds)} places fill the index list", b.where)
        for bd in builds:
            g = bd.conds[-1] if bd.conds else None
            ok, why = _nonempty_guard(b.node, g) if g is not None else (False, "no condition")
            res.ob(R, ok, b.qualname, "only non-empty entries are indexed", f"an index is appended under `{short(g, 30) if g is not None else 'no condition'}` ({why}): empty instances produce samples",
                   f"{b.module.relpath}:{bd.site.lineno}")
        if builder == "_get_lf_idx_list":
            res.count(R)
        init = ci.methods.get("__init__")
        asg = [s for s in walk_function(init.node) if isinstance(s, ast.Assign) and norm(s.targets[0]) == f"self.{lst}"]
        built = [s for s in asg if f"self.{builder}()" in norm(s.value)]
        nones = [s for s in asg if astq.const_value(s.value) is None]   # the no-labels arm:  if self.labels: ... else: self.<list> = None
        res.ob(R, len(built) == 1 and len(built) + len(nones) == len(asg), init.qualname, f"self.{lst} built by {builder}()", f"self.{lst} is not built by {builder}", init.where)
    # fill loops enumerate the same list
    for cname, lst in (("BaseDataset", "lf_idx_list"), ("CentroidDataset", "lf_idx_list"), ("CenteredInstanceDataset", "instance_idx_list")):
        fc = prog.cls(f"{CD}:{cname}").methods.get("_fill_cache")
        loops = [n for n in walk_function(fc.node) if isinstance(n, ast.For) and not astq.enclosing_loops(n) and "enumerate" in norm(n.iter)]
        res.ob(R, len(loops) == 1 and norm(loops[0].iter) == f"enumerate(self.{lst})", fc.qualname, f"cache filled over enumerate(self.{lst})",
               f"the cache is filled over `{short(loops[0].iter, 40) if loops else '?'}`", fc.where)
    res.floor(R, 12)


def check(prog: Program, res: Result) -> None:
    from . import _batch
    _batch.check_every_iteration_accumulates(prog, res, "C11-keep", ["sleap_nn.data.confidence_maps:make_multi_confmaps", "sleap_nn.data.edge_maps:make_multi_pafs"], floor=2)
    al = make_alias(prog)
    check_pure(prog, res, al)
    check_cache(prog, res, al)
    check_state(prog, res)
    check_own_cache(prog, res)
    check_label_frames(prog, res)
    check_len(prog, res)
    # "only non-empty instances produce samples": the (frame, instance) index list and the cache fill count the SAME sequence
    from . import c18 as _c18
    res.borrow(_c18.check_index, "C11-index", prog)
    res.extra["alias"].update({"functions_analysed": len(al.analysed), "unknown_methods_treated_as_alias": dict(sorted(al.unknown_methods.items()))})
    for fi in al.analysed:
        res.touch(fi)
    res.assumptions += [
        "A-sio: sleap_io Instance.numpy() returns a copy",
        "bit-identity of repeated reads through the .npz path (PIL quantisation) is library behaviour and not decided",
    ]


CENT = "sleap_nn/data/instance_centroids.py"
CDF = "sleap_nn/data/custom_datasets.py"
VARIANTS = [
    Variant("d1-view-write", CENT, "        centroids = points[..., anchor_ind, :].clone()", "        centroids = points[..., anchor_ind, :]", "C11-pure"),
    Variant("resizer-inplace", "sleap_nn/data/resizing.py", "        instances = instances * scale\n    return image, instances", "        instances *= scale\n    return image, instances", "C11-pure"),
    Variant("confmaps-nan-inplace", "sleap_nn/data/confidence_maps.py", "    samples, n_nodes, _ = points_batch.shape\n", "    samples, n_nodes, _ = points_batch.shape\n    points_batch[torch.isnan(points_batch)] = -1e4\n", "C11-pure"),
    Variant("oks-inplace", "sleap_nn/evaluation.py", "    n_pr = points_pr.shape[0]\n", "    n_pr = points_pr.shape[0]\n    np.nan_to_num(points_pr, copy=False, nan=np.inf, out=points_pr)\n", "C11-pure"),
    Variant("peaks-inplace-method", "sleap_nn/inference/peak_finding.py", "    z = torch.sum(cms, dim=[2, 3]).to(cms.device)", "    cms.clamp_(min=0)\n    z = torch.sum(cms, dim=[2, 3]).to(cms.device)", "C11-pure"),
    Variant("crops-view-of-instance", "sleap_nn/data/instance_cropping.py", "    center_instance = (instance - point).unsqueeze(0)  # (n_samples=1, n_nodes, 2)",
            "    instance -= point\n    center_instance = instance.unsqueeze(0)  # (n_samples=1, n_nodes, 2)", "C11-pure"),
    Variant("cache-no-copy", CDF, "            sample = self.cache[index].copy()\n\n        # apply augmentation\n        if self.apply_aug:\n            if \"intensity\" in self.data_config.augmentation_config:\n                sample[\"image\"], sample[\"centroids\"]",
            "            sample = self.cache[index]\n\n        # apply augmentation\n        if self.apply_aug:\n            if \"intensity\" in self.data_config.augmentation_config:\n                sample[\"image\"], sample[\"centroids\"]", "C11-cache"),
    Variant("cache-inplace-recrop", CDF, "        center_instance = sample[\"instance\"] - point\n        centered_centroid = sample[\"centroid\"] - point\n",
            "        sample[\"instance\"] -= point\n        center_instance = sample[\"instance\"]\n        centered_centroid = sample[\"centroid\"] - point\n", "C11-cache"),
    Variant("fill-live-dict", CDF, "            else:\n                self.cache[idx] = sample.copy()\n\n        for video in self.labels.videos:\n            video.close()\n\n    def _get_video_idx",
            "            else:\n                self.cache[idx] = sample\n\n        for video in self.labels.videos:\n            video.close()\n\n    def _get_video_idx", "C11-cache"),
    Variant("getitem-memo", CDF, "        img_hw = sample[\"image\"].shape[-2:]\n\n        # Generate confidence maps\n        confidence_maps = generate_confmaps(\n            sample[\"instances\"],",
            "        self.last_index = index\n        img_hw = sample[\"image\"].shape[-2:]\n\n        # Generate confidence maps\n        confidence_maps = generate_confmaps(\n            sample[\"instances\"],", "C11-state"),
    Variant("len-all-frames", CDF, "        return len(self.lf_idx_list)", "        return len(self.labels)", "C11-len"),
    Variant("index-empty-too", CDF, "                if not inst.is_empty:  # filter all NaN instances.\n                    instance_idx_list.append((lf_idx, inst_idx))", "                if inst is not None:\n                    instance_idx_list.append((lf_idx, inst_idx))", "C11-len"),
    Variant("bp-len-flag-polarity", "sleap_nn/data/custom_datasets.py", "            is_empty = True\n            for _, inst in enumerate(lf.instances):\n                if not inst.is_empty:  # filter all NaN instances.\n                    is_empty = False\n            if not is_empty:",
            "            has_any = False\n            for inst in lf.instances:\n                if not inst.is_empty:\n                    has_any = True\n            if has_any:", None),
    Variant("len-flag-wrong-polarity", "sleap_nn/data/custom_datasets.py", "            if not is_empty:\n                lf_idx_list.append((lf_idx))", "            if is_empty:\n                lf_idx_list.append((lf_idx))", "C11-len"),
    Variant("bp-clone-then-write", CENT, "    missing_anchors = torch.isnan(centroids).any(dim=-1)", "    centroids = centroids.clone()\n    missing_anchors = torch.isnan(centroids).any(dim=-1)", None),
    Variant("bp-deepcopy", CDF, "            sample = self.cache[index].copy()\n\n        # apply augmentation\n        if self.apply_aug:\n            if \"intensity\" in self.data_config.augmentation_config:\n                sample[\"image\"], sample[\"centroids\"]",
            "            sample = dict(self.cache[index])\n\n        # apply augmentation\n        if self.apply_aug:\n            if \"intensity\" in self.data_config.augmentation_config:\n                sample[\"image\"], sample[\"centroids\"]", None),
]
