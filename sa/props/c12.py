"""C12 — a frame's predictions carry its indices and are bookkept independently of batch-mates."""

from __future__ import annotations

import ast
from typing import Dict, List, Optional, Set

from ..core import astq
from ..core.cfg import CFG
from ..core.inline import clone
from ..core.program import AnalysisError, Program, ancestors, enclosing_stmt, norm, short, walk_function
from ..report import Result
from ..runner import Variant

PROP = "C12"
EXPLANATION = (
    "Bookkeeping clauses decided structurally: (align) in Predictor._predict_generator every per-frame list that feeds a "
    "key of the batch dict (image, frame_idx, video_idx, orig_size, eff_scale, and instances under its flag) receives "
    "exactly one append on every completed iteration of the batch loop, after the end-of-stream test, and the appended "
    "value is read from the frame under the same key the batch dict uses; (split) inside the per-sample loops of "
    "CentroidCrop.forward and BottomUpInferenceModel._generate_cms_peaks all sibling arrays returned by find_local_peaks "
    "are filtered with the same mask `sample_inds == b` for the loop variable b over range(batch); (topk) the top-k cut "
    "takes torch.topk of the peak VALUES with k=max_instances (largest) and applies the returned indices to the peaks; "
    "(sort) the bottom-up max_instances cut slices a list sorted by score, descending; (crop) each crop record takes "
    "frame_idx/video_idx/orig_size/eff_scale from the same zip tuple as its image and centroid, is a fresh dict per "
    "sample and is appended exactly once unless the sample is all-NaN; (exist) in the batched peak finders and forward() "
    "methods no early return for the whole batch is guarded by an existential any()-condition over a tensor. Numerical independence of a frame from its "
    "batch-mates (network, batched kernels) is not decided."
)
TRUSTED = ["CPython ast", "networkx reachability", "torch.topk returns (values, indices) of the largest k by default"]

GEN = "sleap_nn.inference.predictors:Predictor._predict_generator"
KEY_OF = {"image": "image", "frame_idx": "frame_idx", "video_idx": "video_idx", "orig_size": "orig_size", "instances": "instances"}


def check_align(prog: Program, res: Result) -> None:
    R = "C12-align"
    fi = prog.func(GEN)
    res.touch(fi)
    fn = fi.node
    cfg = CFG(fn)
    gets = [c for c in astq.method_calls(fn, "get") if "frame_buffer" in norm(c.func)]
    if len(gets) != 1:
        raise AnalysisError(f"{GEN}: {len(gets)} queue reads")
    item = enclosing_stmt(gets[0]).targets[0].id
    inner, outer = astq.enclosing_loops(gets[0])[:2]
    # the batch dict
    dicts = [st for st in walk_function(fn) if isinstance(st, ast.Assign) and isinstance(st.value, ast.Dict) and astq.in_body_of(st, outer, "body")
             and not astq.in_body_of(st, inner, "body")]
    res.ob(R, len(dicts) == 1, fi.qualname, "one batch dict", f"{len(dicts)} batch dict literals", fi.where)
    if len(dicts) != 1:
        return
    ex = dicts[0].targets[0].id
    # per-frame lists: appended to in the batch loop
    lists = {c.func.value.id for c in astq.method_calls(inner, "append") if isinstance(c.func.value, ast.Name)}
    feeds: Dict[str, str] = {}
    proj: Dict[str, ast.AST] = {}      # key -> per-frame value, when the key maps a comprehension over a list of whole frames

    def _feed(key, v, at):
        e = astq.expand_at(fn, v, at, keep=lists)
        nm = astq.names_in(e) & lists
        if len(nm) == 1:
            feeds.setdefault(key, next(iter(nm)))
            # [g(f) for f in frames] over a list that collects the queue item itself: the per-frame value is g(item)
            comps = [c for c in ast.walk(e) if isinstance(c, (ast.ListComp, ast.GeneratorExp)) and len(c.generators) == 1 and not c.generators[0].ifs
                     and isinstance(c.generators[0].iter, ast.Name) and c.generators[0].iter.id in nm and isinstance(c.generators[0].target, ast.Name)]
            if len(comps) == 1 and key not in proj:
                from ..core.program import _Subst

                proj[key] = _Subst({comps[0].generators[0].target.id: ast.Name(item, ast.Load())}).visit(clone(comps[0].elt))

    for k, v in zip(dicts[0].value.keys, dicts[0].value.values):
        if isinstance(k, ast.Constant):
            _feed(k.value, v, dicts[0])
    for st in walk_function(fn):  # ex["instances"] = instances
        if isinstance(st, ast.Assign) and isinstance(st.targets[0], ast.Subscript) and norm(st.targets[0].value) == ex \
                and isinstance(st.targets[0].slice, ast.Constant) and st.targets[0].slice.value not in feeds:
            _feed(st.targets[0].slice.value, st.value, st)
    res.ob(R, {"image", "frame_idx", "video_idx", "orig_size", "eff_scale"} <= set(feeds), fi.qualname, "batch dict carries image and its indices",
           f"the batch dict lacks {sorted({'image', 'frame_idx', 'video_idx', 'orig_size', 'eff_scale'} - set(feeds))}", fi.where)
    tests = [n for n in ast.walk(inner) if isinstance(n, ast.If) and astq.is_none_test(n.test) is not None and item in astq.names_in(n.test)]
    tnodes = [x for t in tests for x in cfg.nodes_of(t)]
    heads = cfg.nodes_of(inner)
    false_succ = [m for t in tnodes for m in cfg.g.successors(t) if "false" in cfg.g[t][m]["labels"]]
    for key, lst in sorted(feeds.items()):
        apps = [c for c in astq.method_calls(inner, "append") if isinstance(c.func.value, ast.Name) and c.func.value.id == lst]
        flagged = key == "instances" and [k_ for k_, l_ in feeds.items() if l_ == lst] == ["instances"]
        res.ob(R, len(apps) == 1, fi.qualname, f"{lst}: one append site in the batch loop", f"list `{lst}` (batch key '{key}') has {len(apps)} append sites in the batch loop",
               fi.where)
        if len(apps) != 1:
            continue
        a = apps[0]
        an = set(cfg.stmt_nodes_containing(a))
        guards = [g for g in ancestors(a) if isinstance(g, ast.If) and astq.in_body_of(g, inner, "body")]
        if flagged:
            ok = len(guards) == 1 and norm(guards[0].test) == "self.instances_key"
            res.ob(R, ok, fi.qualname, f"{lst} appended under `if self.instances_key` only", f"`{lst}` is appended under {[short(g.test, 30) for g in guards]}", f"{fi.module.relpath}:{a.lineno}")
        else:
            w = cfg.must_pass(false_succ, heads, an, drop_edge=lambda x, y, labels: "exc" in labels)
            res.ob(R, not guards and w is None, fi.qualname, f"{lst} appended on every completed iteration",
                   f"an iteration of the batch loop can complete without appending to `{lst}` (batch key '{key}'): the per-frame lists go out of step and "
                   f"frames get their neighbours' {key} ({cfg.path_str(w) if w else 'conditional append'})", f"{fi.module.relpath}:{a.lineno}",
                   sample={"list": lst, "key": key})
        twice = any(cfg.reachable_from(list(cfg.g.successors(p)), avoid=heads) & an for p in an)
        res.ob(R, not twice, fi.qualname, f"{lst} appended at most once per iteration", f"`{lst}` can be appended twice in one iteration", f"{fi.module.relpath}:{a.lineno}")
        # after the sentinel test
        w = cfg.must_pass(cfg.stmt_nodes_containing(gets[0]), an, tnodes)
        res.ob(R, w is None, fi.qualname, f"{lst} appended after the end-of-stream test", f"`{lst}` is appended before the end-of-stream test", f"{fi.module.relpath}:{a.lineno}")
        # value comes from the frame under the same key
        arg = a.args[0] if a.args else None
        if key in proj:
            res.ob(R, isinstance(arg, ast.Name) and arg.id == item, fi.qualname, f"{lst} collects the frame read from the queue", f"`{lst}` collects `{short(arg, 40) if arg is not None else '?'}`, "
                   f"not the frame just read", f"{fi.module.relpath}:{a.lineno}")
            arg = proj[key]
        if key in KEY_OF:
            subs = [n for n in ast.walk(arg) if isinstance(n, ast.Subscript) and norm(n.value) == item and isinstance(n.slice, ast.Constant)] if arg is not None else []
            ok = len(subs) == 1 and subs[0].slice.value == KEY_OF[key]
            res.ob(R, ok, fi.qualname, f"batch['{key}'] collects {item}['{KEY_OF[key]}']",
                   f"the list feeding batch key '{key}' collects `{short(arg, 40) if arg is not None else '?'}`", f"{fi.module.relpath}:{a.lineno}")
        elif key == "eff_scale":
            # the ratio may travel on the frame dict itself:  frame["eff_scale"] = tensor(eff_scale)  ...  [f["eff_scale"] for f in frames]
            if isinstance(arg, ast.Subscript) and isinstance(astq.const_value(arg.slice), str):
                k_ = astq.const_value(arg.slice)
                puts_ = [st for st in ast.walk(inner) if isinstance(st, ast.Assign) and len(st.targets) == 1 and isinstance(st.targets[0], ast.Subscript)
                         and norm(st.targets[0].value) == item and astq.const_value(st.targets[0].slice) == k_]
                if len(puts_) == 1:
                    arg = puts_[0].value
            nm = astq.names_in(arg) if arg is not None else set()
            defs = [st for st in ast.walk(inner) if isinstance(st, ast.Assign) and isinstance(st.targets[0], ast.Tuple)
                    and any(norm(e) in nm for e in st.targets[0].elts) and isinstance(st.value, ast.Call)
                    and prog.resolve_call(fi, st.value) == "sleap_nn.data.resizing:apply_sizematcher"]
            res.ob(R, len(defs) == 1, fi.qualname, "batch['eff_scale'] collects this frame's apply_sizematcher ratio",
                   f"the list feeding 'eff_scale' collects `{short(arg, 40) if arg is not None else '?'}`, not the ratio returned by apply_sizematcher for this frame",
                   f"{fi.module.relpath}:{a.lineno}")
    # lists are re-initialised for every batch
    for key, lst in feeds.items():
        inits = [st for st in outer.body if isinstance(st, ast.Assign) and norm(st.targets[0]) == lst and norm(st.value) == "[]"]
        res.ob(R, len(inits) == 1 and outer.body.index(inits[0]) < outer.body.index(inner), fi.qualname, f"{lst} reset to [] before each batch",
               f"`{lst}` is not reset to an empty list at the start of each batch (frames leak into the next batch)", fi.where)
    res.floor(R, 24)


def _mask_sites(fn: ast.AST, idx_name: str, loop: ast.For) -> Dict[str, str]:
    """array name -> mask text, for subscripts X[mask] in the loop where mask mentions idx_name == loopvar."""
    out: Dict[str, str] = {}
    lv = norm(loop.target)
    for n in ast.walk(loop):
        if isinstance(n, ast.Subscript) and isinstance(n.value, ast.Name):
            m = n.slice
            md = m
            if isinstance(m, ast.Name):
                defs = [s for s in ast.walk(loop) if isinstance(s, ast.Assign) and norm(s.targets[0]) == m.id]
                md = defs[0].value if len(defs) == 1 else m
            txt = norm(md)
            if idx_name in txt and lv in astq.names_in(md):
                out[n.value.id] = txt
    return out


def check_split(prog: Program, res: Result) -> None:
    R = "C12-split"
    for q, batch_expr in (("sleap_nn.inference.topdown:CentroidCrop.forward", "batch"), ("sleap_nn.inference.bottomup:BottomUpInferenceModel._generate_cms_peaks", "self.batch_size")):
        fi = prog.func(q)
        res.touch(fi)
        calls = [c for c, cq in prog.calls_in(fi) if cq == "sleap_nn.inference.peak_finding:find_local_peaks"]
        res.ob(R, len(calls) == 1, fi.qualname, "one find_local_peaks call", f"{len(calls)} calls of find_local_peaks", fi.where)
        if len(calls) != 1:
            continue
        st = enclosing_stmt(calls[0])
        tg = st.targets[0].elts if isinstance(st, ast.Assign) and isinstance(st.targets[0], ast.Tuple) else []
        if len(tg) != 4:
            res.inconclusive(f"{fi.qualname}: find_local_peaks result not unpacked into 4 names")
            continue
        pts, vals, sinds, cinds = [norm(e) for e in tg]
        # the per-sample mask: ONE comparison `sample index == v`, v ranging over range(batch) (loop or comprehension);
        # every sibling array is indexed with that very mask (identity, not name)
        cmps = [c for c in walk_function(fi.node) if isinstance(c, ast.Compare) and len(c.ops) == 1 and sinds in (norm(c.left), norm(c.comparators[0]))]
        # textual copies of the same comparison under the same iteration are one mask
        classes = {}
        for c in cmps:
            v_ = c.comparators[0] if norm(c.left) == sinds else c.left
            it_ = astq.iteration_of(c, norm(v_)) if isinstance(v_, ast.Name) else None
            classes.setdefault((norm(c), id(it_)), []).append(c)
        res.ob(R, len(classes) == 1, fi.qualname, "one per-sample mask", f"{len(classes)} different comparisons of `{sinds}` (per-sample loops over the flattened peaks)", fi.where)
        if len(classes) != 1:
            continue
        same = next(iter(classes.values()))
        M = same[0]
        var = M.comparators[0] if norm(M.left) == sinds else M.left
        it = astq.iteration_of(M, norm(var)) if isinstance(var, ast.Name) else None
        okm = isinstance(M.ops[0], ast.Eq) and it is not None and astq.xnorm(fi.node, it) == f"range({batch_expr})"
        res.ob(R, okm, fi.qualname, f"mask compares {sinds} with b for b in range({batch_expr})",
               f"the per-sample mask is `{short(M, 40)}` with `{short(var, 10)}` ranging over `{short(it, 30) if it is not None else '?'}`", f"{fi.module.relpath}:{M.lineno}")
        res.ob(R, okm, fi.qualname, f"loop over range({batch_expr})", "the per-sample iteration does not cover range(batch)", f"{fi.module.relpath}:{M.lineno}")
        sites: Dict[str, ast.AST] = {}
        for n_ in walk_function(fi.node):
            if isinstance(n_, ast.Subscript) and isinstance(n_.value, ast.Name) and any(astq.mask_of(fi.node, n_.slice, at=n_) is c_ for c_ in same):
                sites.setdefault(n_.value.id, n_)
        siblings = [pts, vals] + ([cinds] if cinds != "_" else [])
        # an array may reach the split under another name after element-wise rescaling (x = pts * stride / scale)
        for k_, arr in enumerate(list(siblings)):
            if arr not in sites:
                derived = astq.dep_closure(list(fi.node.body), {arr}) & set(sites)
                others = set(siblings) - {arr}
                derived = {d_ for d_ in derived if d_ not in others and not (astq.dep_closure(list(fi.node.body), others) & {d_})}
                if len(derived) == 1:
                    siblings[k_] = next(iter(derived))
        for arr in siblings:
            res.ob(R, arr in sites, fi.qualname, f"{arr} split by the sample mask", f"`{arr}` is not selected with the per-sample mask on `{sinds}`: "
                   "peaks of other frames of the batch end up in this frame's output", f"{fi.module.relpath}:{M.lineno}", sample={"array": arr})
        res.ob(R, all(a in sites for a in siblings), fi.qualname, "one mask for all sibling arrays", "sibling arrays are split with different masks", f"{fi.module.relpath}:{M.lineno}")
    res.floor(R, 12)


def check_topk(prog: Program, res: Result) -> None:
    R = "C12-topk"
    fi = prog.func("sleap_nn.inference.topdown:CentroidCrop.forward")
    calls = [c for c, q in prog.calls_in(fi) if q == "torch.topk"]
    res.ob(R, len(calls) == 1, fi.qualname, "one torch.topk", f"{len(calls)} torch.topk calls", fi.where)
    for c in calls:
        st = enclosing_stmt(c)
        ok = isinstance(st, ast.Assign) and isinstance(st.targets[0], ast.Tuple) and len(st.targets[0].elts) == 2
        if not ok:
            res.inconclusive(f"{fi.qualname}: topk result not unpacked")
            continue
        vals_t, idx_t = [norm(e) for e in st.targets[0].elts]
        a0, a1 = (c.args + [None, None])[:2]
        # the values: what is ranked must come from the peak VALUES returned by the peak finder (2nd result), not the coordinates
        src = astq.expand_at(fi.node, a0, st, unpack_calls=False) if a0 is not None else None
        pk = [s_ for s_ in walk_function(fi.node) if isinstance(s_, ast.Assign) and isinstance(s_.targets[0], ast.Tuple) and len(s_.targets[0].elts) == 4 and isinstance(s_.value, ast.Call)]
        vals_names = {norm(s_.targets[0].elts[1]) for s_ in pk}
        pts_names = {norm(s_.targets[0].elts[0]) for s_ in pk}
        from_vals = src is not None and bool(astq.names_in(src) & vals_names) and not (astq.names_in(src) & pts_names)
        res.ob(R, a0 is not None and norm(a0) == vals_t and from_vals, fi.qualname, "top-k taken over the peak values",
               f"top-k is taken over `{short(a0, 30) if a0 is not None else '?'}` = `{short(src, 50) if src is not None else '?'}`", f"{fi.module.relpath}:{c.lineno}")
        res.ob(R, a1 is not None and astq.xnorm(fi.node, a1) == "max_instances", fi.qualname, "k = max_instances", f"k is `{short(a1, 30) if a1 is not None else '?'}`", f"{fi.module.relpath}:{c.lineno}")
        kws = {k.arg: norm(k.value) for k in c.keywords}
        res.ob(R, kws.get("largest", "True") == "True", fi.qualname, "largest values kept", "top-k keeps the SMALLEST values (largest=False)", f"{fi.module.relpath}:{c.lineno}")
        blk = st._parent.body if hasattr(st._parent, "body") and st in st._parent.body else []
        follow = [s_ for s_ in blk[blk.index(st) + 1:]] if blk else []
        sel = [s_ for s_ in follow if isinstance(s_, ast.Assign) and isinstance(s_.value, ast.Subscript) and norm(s_.value.slice) == idx_t and norm(s_.targets[0]) == norm(s_.value.value)
               and norm(s_.targets[0]) != vals_t]
        ok = len(sel) == 1
        pts_t = norm(sel[0].targets[0]) if ok else None
        if ok:
            psrc = astq.expand_at(fi.node, sel[0].value.value, sel[0])
            ok = bool(astq.names_in(psrc) & pts_names)
        res.ob(R, ok, fi.qualname, "returned indices select the peaks", "the indices returned by topk are not applied to the peak coordinates", f"{fi.module.relpath}:{c.lineno}")
        g = [a for a in ancestors(c) if isinstance(a, ast.If)]
        t = g[0].test if g else None
        ok = isinstance(t, ast.Compare) and len(t.ops) == 1
        if ok:
            # "more peaks than k" in any linear spelling: len(P) > k, k < len(P), k - len(P) < 0, ...
            te = astq.expand_at(fi.node, t, g[0], keep=[x_ for x_ in (pts_t, vals_t) if x_])
            cf = astq.compare_form(te)
            lens = {f"len({pts_t})", f"len({vals_t})", f"{pts_t}.shape[0]", f"{vals_t}.shape[0]", f"{pts_t}.size(0)", f"{vals_t}.size(0)"}
            k_ = astq.xnorm(fi.node, a1) if a1 is not None else "?"
            k_alts = {k_, norm(a1) if a1 is not None else "?", norm(astq.expand_at(fi.node, a1, g[0])) if a1 is not None else "?"}
            ok = cf is not None and cf[1] == ">" and len(cf[0]) == 2 and any(cf[0].get(l_) == 1.0 for l_ in lens) and any(cf[0].get(x_) == -1.0 for x_ in k_alts)
        res.ob(R, ok, fi.qualname, "cut only when there are more peaks than max_instances", f"the top-k cut is guarded by `{short(t, 40) if t is not None else 'nothing'}`", f"{fi.module.relpath}:{c.lineno}")
    res.floor(R, 6)


def check_sort(prog: Program, res: Result) -> None:
    R = "C12-sort"
    fi = prog.func("sleap_nn.inference.predictors:BottomUpPredictor._make_labeled_frames_from_generator")
    res.touch(fi)
    sorts = [c for c in walk_function(fi.node) if isinstance(c, ast.Call) and norm(c.func) == "sorted"]
    res.ob(R, len(sorts) == 1, fi.qualname, "one sort", f"{len(sorts)} sorted() calls", fi.where)
    for c in sorts:
        kw = {k.arg: k.value for k in c.keywords}
        key = kw.get("key")
        ok = isinstance(key, ast.Lambda) and norm(key.body).endswith(".score")
        res.ob(R, ok, fi.qualname, "sorted by instance score", f"instances are sorted by `{short(key, 40) if key is not None else 'default order'}`", f"{fi.module.relpath}:{c.lineno}")
        rv = kw.get("reverse")
        res.ob(R, isinstance(rv, ast.Constant) and rv.value is True, fi.qualname, "descending", "the sort is ascending: the LOWEST scoring instances are kept", f"{fi.module.relpath}:{c.lineno}")
        # the cut: some  T = S[: ...max_instances...]  whose S is this sorted(...) list (directly or through a name)
        cuts = []
        for st2 in walk_function(fi.node):
            if isinstance(st2, ast.Assign) and len(st2.targets) == 1 and isinstance(st2.targets[0], ast.Name) and isinstance(st2.value, ast.Subscript) \
                    and isinstance(st2.value.slice, ast.Slice) and st2.value.slice.lower is None and st2.value.slice.step is None \
                    and st2.value.slice.upper is not None and "max_instances" in norm(astq.expand_at(fi.node, st2.value.slice.upper, st2)):
                base, at_ = st2.value.value, st2
                for _ in range(3):   # follow names back to the value that reaches the slice
                    if not isinstance(base, ast.Name):
                        break
                    rd = astq.reaching_def(fi.node, base.id, at_)
                    if rd is None:
                        break
                    base, at_ = rd.value, getattr(rd, "_orig", rd)
                if base is c:
                    cuts.append(st2)
        name = cuts[0].targets[0].id if len(cuts) == 1 else None
        res.ob(R, len(cuts) == 1, fi.qualname, "slice [:max_instances] of the sorted list", "the max_instances cut is not a prefix slice of the sorted list", f"{fi.module.relpath}:{c.lineno}")
        # what is sorted is the COMPLETE list of the frame's instances: the loop that fills it visits every grouped
        # instance (no break / return; `continue` only for an all-NaN instance)
        srt_arg = c.args[0] if c.args else None
        builds = astq.list_builds(fi.node, norm(srt_arg)) if isinstance(srt_arg, ast.Name) else []
        res.ob(R, len(builds) >= 1, fi.qualname, "the sorted list is built in this function", "cannot find where the sorted list is filled", f"{fi.module.relpath}:{c.lineno}")
        for bd in builds:
            lp_ = bd.gens[-1] if bd.gens else None
            jumps = [j for j in ast.walk(lp_) if isinstance(j, (ast.Break, ast.Return))] if isinstance(lp_, ast.For) else []
            cut_conds = [cnd for cnd in bd.conds if "max_instances" in norm(cnd)]
            res.ob(R, not jumps and not cut_conds, fi.qualname, "every grouped instance enters the list that is sorted",
                   "the instance loop stops (or filters) on max_instances BEFORE the sort: the instances kept are the first ones in grouping order, not the highest scoring",
                   f"{fi.module.relpath}:{getattr(lp_, 'lineno', c.lineno)}")
        lf = [n for n in walk_function(fi.node) if isinstance(n, ast.Call) and norm(n.func) == "sio.LabeledFrame"]
        ok = len(lf) == 1 and any(k.arg == "instances" and norm(k.value) == name for k in lf[0].keywords) and lf[0].lineno > c.lineno
        res.ob(R, ok, fi.qualname, "the cut list is what the frame receives", "the labeled frame is not built from the cut list", f"{fi.module.relpath}:{c.lineno}")
    res.floor(R, 5)


def check_crop(prog: Program, res: Result, rule: str = "C12-crop", floor: int = 16) -> None:
    R = rule
    fi = prog.func("sleap_nn.inference.topdown:CentroidCrop._generate_crops")
    res.touch(fi)
    cfg = CFG(fi.node)
    loops = [n for n in walk_function(fi.node) if isinstance(n, ast.For) and isinstance(n.iter, ast.Call) and norm(n.iter.func) == "zip"]
    res.ob(R, len(loops) == 1, fi.qualname, "one zip loop over the batch", f"{len(loops)} zip loops", fi.where)
    if len(loops) != 1:
        return
    lp = loops[0]
    tg = [norm(e) for e in lp.target.elts] if isinstance(lp.target, ast.Tuple) else []
    srcs = [norm(a) for a in lp.iter.args]
    res.ob(R, len(tg) == len(srcs) and len(srcs) >= 7, fi.qualname, "aligned per-sample sequences", f"zip of {len(srcs)} sequences into {len(tg)} names", fi.where)
    # every zipped sequence has one entry PER FRAME of the batch, in batch order: the batch dict's own lists, the per-sample
    # lists filled once per sample (C12-split/C12-topk), or an unfiltered element-wise map of those.  A filtered sequence
    # (comprehension with `if`, filter(), boolean/slice indexing) is shorter after an empty frame and shifts every later
    # frame's centroids onto an earlier frame's image and indices.
    def _per_frame(e: ast.AST, depth: int = 3):
        if isinstance(e, ast.Subscript) and isinstance(e.slice, ast.Constant) and norm(e.value) == "inputs":
            return True, "batch dict list"
        if isinstance(e, ast.Attribute) and isinstance(e.value, ast.Name) and e.value.id == "self":
            return True, "per-sample attribute list"
        if isinstance(e, ast.Name) and depth > 0:
            defs = [d for d in astq.assignments_to(fi.node, e.id) if isinstance(d, ast.Assign)]
            if len(defs) == 1:
                return _per_frame(defs[0].value, depth - 1)
            return None, f"`{e.id}` has {len(defs)} definitions"
        if isinstance(e, ast.ListComp):
            if any(g.ifs for g in e.generators) or len(e.generators) != 1:
                return False, "filtered comprehension"
            it = e.generators[0].iter
            parts = it.args if isinstance(it, ast.Call) and norm(it.func) == "zip" else [it]
            for q in parts:
                ok, why = _per_frame(q, depth - 1)
                if not ok:
                    return ok, why
            return True, "element-wise map"
        if isinstance(e, ast.Call) and norm(e.func) in ("filter", "itertools.compress", "compress"):
            return False, "filter()"
        if isinstance(e, ast.Call) and norm(e.func) in ("list", "tuple") and e.args:
            return _per_frame(e.args[0], depth - 1)
        if isinstance(e, ast.Subscript):
            return False, "sliced / mask-indexed sequence"
        return None, f"unrecognised sequence `{short(e, 40)}`"

    for a in lp.iter.args:
        ok, why = _per_frame(a)
        if ok is None:
            raise AnalysisError(f"{fi.qualname}: zip argument {short(a, 40)}: {why}")
        res.ob(R, ok, fi.qualname, f"zip argument `{short(a, 40)}` has one entry per frame ({why})",
               f"zip argument `{short(a, 40)}` is a {why}: it has no entry for a frame without detections, so after such a frame the centroids of every later "
               "frame are paired with an earlier frame's image, frame_idx, video_idx, orig_size and eff_scale", f"{fi.module.relpath}:{a.lineno}")
    var_of = {}
    for t, s in zip(tg, srcs):
        if s.startswith("inputs['"):
            var_of[s[len("inputs['"):-2]] = t
    res.ob(R, set(var_of) >= {"image", "frame_idx", "video_idx", "orig_size", "eff_scale"}, fi.qualname, "zip covers image and its indices",
           f"zip covers only {sorted(var_of)}", fi.where)
    others = set(var_of.values())
    recs = astq.dict_records(lp)
    res.ob(R, len(recs) == 1, fi.qualname, "one crop record per sample", f"{len(recs)} crop records are built per sample", fi.where)
    for rec in recs:
        for key, val in rec.fields.items():
            if key in var_of:
                used = astq.names_in(astq.expand(fi.node, val, keep=others)) & others
                res.ob(R, used == {var_of[key]}, fi.qualname, f"record['{key}'] from this sample's {var_of[key]}",
                       f"record['{key}'] is computed from {sorted(used)} instead of `{var_of[key]}` (the zip element of inputs['{key}']): the crop carries another frame's {key}",
                       f"{fi.module.relpath}:{val.lineno}", sample={"key": key, "value": short(val, 40)})
        res.ob(R, rec.fresh, fi.qualname, "fresh record per sample", "the crop record is not a fresh dict per sample (records alias each other)", fi.where)
        apps = [rec.sink] if rec.sink is not None else []
        heads = cfg.nodes_of(lp)
        an = {n for c in apps for n in cfg.stmt_nodes_containing(c)}
        conts = [n for n in ast.walk(lp) if isinstance(n, ast.Continue)]
        def _all_nan_test(t) -> bool:
            x = astq.xnorm(fi.node, t)
            return "isnan" in x and "all" in x

        def _skip_ok(c) -> bool:
            for g in ancestors(c):
                if not isinstance(g, ast.If):
                    continue
                if _all_nan_test(g.test):
                    return True
                nm = astq.is_none_test(g.test)
                if isinstance(nm, ast.Name):
                    # `if v is None: continue` where v is None only on the all-NaN path
                    nones = [s_ for s_ in ast.walk(lp) if isinstance(s_, ast.Assign) and norm(s_.targets[0]) == nm.id and astq.const_value(s_.value) is None
                             and isinstance(s_.value, ast.Constant)]
                    others = [s_ for s_ in ast.walk(lp) if isinstance(s_, ast.Assign) and norm(s_.targets[0]) == nm.id and s_ not in nones]
                    if nones and others and all(any(isinstance(a, ast.If) and astq.in_body_of(s_, a) and _all_nan_test(a.test) for a in ancestors(s_)) for s_ in nones):
                        return True
            return False

        ok_skip = all(_skip_ok(c) for c in conts)
        body_first = [m for h in heads for m in cfg.g.successors(h) if "true" in cfg.g[h][m]["labels"]]
        cn = {n for c in conts for n in cfg.stmt_nodes_containing(c)}
        w = cfg.must_pass(body_first, heads, an | cn, drop_edge=lambda x, y, labels: "exc" in labels)
        res.ob(R, len(apps) == 1 and w is None and ok_skip, fi.qualname, "record appended once per sample unless the sample is all-NaN",
               "a sample can complete the loop without its record being appended (other than the all-NaN skip)", fi.where)
    res.floor(R, floor)


def _reductions(test: ast.AST, pol: int = 1):
    """(call, quantifier) for every whole-tensor any()/all() in a condition; quantifier 'E' (exists) / 'A' (for all),
    already adjusted for negations above it."""
    if isinstance(test, ast.BoolOp):
        for v in test.values:
            yield from _reductions(v, pol)
    elif isinstance(test, ast.UnaryOp) and isinstance(test.op, (ast.Not, ast.Invert)):
        yield from _reductions(test.operand, -pol)
    elif isinstance(test, ast.Call):
        f = norm(test.func)
        last = f.split(".")[-1]
        if last in ("any", "all") and not any(k.arg in ("dim", "axis") for k in test.keywords):
            full = (isinstance(test.func, ast.Attribute) and not test.args and norm(test.func.value) not in ("torch", "np", "numpy")) or \
                   (f in ("torch.any", "torch.all", "np.any", "np.all", "numpy.any", "numpy.all") and len(test.args) == 1)
            if full:
                q = "E" if last == "any" else "A"
                if pol < 0:
                    q = "A" if q == "E" else "E"
                yield test, q
        elif last in ("bool", "item") and isinstance(test.func, ast.Attribute):
            yield from _reductions(test.func.value, pol)
        elif f == "bool" and len(test.args) == 1:
            yield from _reductions(test.args[0], pol)


def check_exist(prog: Program, res: Result) -> None:
    """A batched function must not take a shortcut for the WHOLE batch because SOME element satisfies a condition.

    Scope: every function of inference/peak_finding.py and every nn.Module.forward under sleap_nn/inference - they
    receive the whole batch.  For each `if` outside any loop whose test reduces a tensor with any()/all(): the branch
    that leaves the function early (return) may only be taken under a universally quantified condition ("all peaks are
    NaN": skipping then changes nothing for anybody); under an existential one ("some peak is NaN") the other frames of
    the batch lose the skipped computation, so a frame's result depends on its batch-mates."""
    R = "C12-exist"
    scope = [fi for fi in prog.functions.values() if fi.module.name == "sleap_nn.inference.peak_finding"
             or (fi.module.name.startswith("sleap_nn.inference.") and fi.name == "forward")]
    if len(scope) < 8:
        raise AnalysisError(f"C12-exist: only {len(scope)} batched functions found")
    n = 0
    for fi in scope:
        res.touch(fi)
        for st in walk_function(fi.node):
            if not isinstance(st, ast.If) or astq.enclosing_loops(st):
                continue
            reds = list(_reductions(astq.expand_at(fi.node, st.test, st)))   # a named quantifier (`none = isnan(p).all()`) is read at its definition
            if not reds:
                continue
            then_ret = any(isinstance(x, ast.Return) for x in st.body)
            else_ret = any(isinstance(x, ast.Return) for x in st.orelse)
            for call, q in reds:
                n += 1
                if then_ret and not else_ret:
                    bad = q == "E"
                elif else_ret and not then_ret:
                    bad = q == "A"  # the early exit is taken when NOT all ... = some ... not
                else:
                    bad = False
                res.ob(R, not bad, fi.qualname, f"whole-batch shortcut under a universal condition: {short(st.test, 60)}",
                       f"`if {short(st.test, 70)}` leaves {fi.name}() early for the whole batch as soon as SOME element satisfies `{short(call, 50)}`: "
                       "the remaining frames of the batch lose the computation that follows (their result depends on their batch-mates)",
                       f"{fi.module.relpath}:{st.lineno}", sample={"test": short(st.test, 80), "quantifier": q})
    res.count(R, len(scope))
    res.floor(R, 9)


def _peel_int(e: ast.AST) -> ast.AST:
    """int(x) / x.item() / x.long() / x.int() -> x: the same count, as a Python or tensor integer."""
    while True:
        if isinstance(e, ast.Call) and isinstance(e.func, ast.Name) and e.func.id == "int" and len(e.args) == 1 and not e.keywords:
            e = e.args[0]
        elif isinstance(e, ast.Call) and isinstance(e.func, ast.Attribute) and e.func.attr in ("item", "long", "int") and not e.args:
            e = e.func.value
        else:
            return e


def check_offset(prog: Program, res: Result) -> None:
    """FindInstancePeaksGroundTruth.forward walks a batch-FLATTENED list of matched instances with a running offset: frame i
    owns the next counts[i] entries (counts = bincount of the matched frame indices).  The offset advances by exactly that
    count - a count clamped to the number of output slots leaves the surplus entries of frame i to be read as frame i+1's."""
    R = "C12-offset"
    fi = prog.cls("sleap_nn.inference.topdown:FindInstancePeaksGroundTruth").methods.get("forward")
    if fi is None:
        raise AnalysisError("FindInstancePeaksGroundTruth.forward vanished")
    res.touch(fi)
    fn = fi.node
    n = 0
    for st in walk_function(fn):
        # the statement that advances a running offset inside a loop:  off += c  /  off = off + c  /  end = off + c; ...; off = end
        if not (isinstance(st, (ast.Assign, ast.AugAssign)) and astq.enclosing_loops(st)):
            continue
        tg = st.target if isinstance(st, ast.AugAssign) else (st.targets[0] if len(st.targets) == 1 else None)
        if not isinstance(tg, ast.Name):
            continue
        off = tg.id
        lp = astq.enclosing_loops(st)[-1]
        lv = sorted(astq.target_names(lp.target))
        used = [sl for sl in ast.walk(lp) if isinstance(sl, ast.Subscript) and isinstance(sl.slice, ast.Slice) and sl.slice.lower is not None and norm(sl.slice.lower) == off]
        if not used or off in lv:
            continue
        if isinstance(st, ast.AugAssign):
            if not isinstance(st.op, ast.Add):
                continue
            step = astq.expand_at(fn, st.value, st, keep=lv)
        else:
            new = astq.expand_at(fn, st.value, st, keep=lv + [off])
            if not (isinstance(new, ast.BinOp) and isinstance(new.op, ast.Add) and off in (norm(new.left), norm(new.right))):
                continue
            step = astq.expand_at(fn, new.right if norm(new.left) == off else new.left, st, keep=lv)
        n += 1
        # int(counts[i]) / counts[i].item() / counts[i].long() are the same count
        step = _peel_int(step)
        ok = isinstance(step, ast.Subscript) and norm(step.slice) in lv
        src = (astq.expand_at(fn, step.value, lp) if isinstance(step.value, ast.Name) else step.value) if ok else None
        ok = ok and isinstance(src, ast.Call) and norm(src.func).split(".")[-1] == "bincount"
        res.ob(R, ok, fi.qualname, f"`{off}` advances by the frame's own match count",
               f"the offset `{off}` into the flattened match list advances by `{short(step, 50)}`, not by the frame's bincount: when a frame has more matches than that, "
               "the following frames of the batch read its left-over entries", f"{fi.module.relpath}:{st.lineno}")
        for sl in used:
            up = astq.expand_at(fn, sl.slice.upper, enclosing_stmt(sl), keep=lv + [off]) if sl.slice.upper is not None else None
            ok2 = isinstance(up, ast.BinOp) and isinstance(up.op, ast.Add) and off in (norm(up.left), norm(up.right)) and norm(step) in (norm(_peel_int(up.left)), norm(_peel_int(up.right))) \
                and sl.lineno < st.lineno   # the slice is taken with the offset BEFORE it advances
            res.ob(R, ok2, fi.qualname, "the frame's slice is [offset : offset + count]", f"the frame's slice `{short(sl, 50)}` is not [offset : offset + its match count], taken before "
                   "the offset advances", f"{fi.module.relpath}:{sl.lineno}")
    res.floor(R, 1)


def check_no_batch_wide_guard(prog: Program, res: Result) -> None:
    """A per-frame correction (dividing by the frame's eff_scale, adding the frame's bbox offset) must not be switched on
    or off by a reduction over the WHOLE batch: `if (eff_scale != 1).all(): x = x / eff_scale` leaves a rescaled frame
    uncorrected whenever a batch-mate needs no correction.  In the forward methods of the inference layers no `if` test
    reduces inputs["eff_scale"] (all / any / max / min / sum / mean) - the per-sample arithmetic is unconditional."""
    R = "C12-indep"
    n = 0
    for fi in prog.all_functions():
        if not fi.module.name.startswith("sleap_nn.inference.") or fi.name != "forward":
            continue
        uses = [x for x in walk_function(fi.node) if isinstance(x, ast.Subscript) and astq.const_value(x.slice) == "eff_scale"]
        if not uses:
            continue
        n += 1
        res.touch(fi)
        bad = None
        for t in walk_function(fi.node):
            if isinstance(t, (ast.If, ast.IfExp, ast.While)):
                te = astq.expand_at(fi.node, t.test, t if isinstance(t, ast.stmt) else enclosing_stmt(t))
                if "eff_scale" in norm(te) and any(isinstance(c, ast.Call) and norm(c.func).split(".")[-1] in ("all", "any", "max", "min", "sum", "mean", "item") for c in ast.walk(te)):
                    bad = t
        # ... nor is ONE frame's value used for the whole batch: a per-frame batch entry is not read at a constant position
        fixed = None
        for x in walk_function(fi.node):
            if isinstance(x, ast.Subscript) and isinstance(astq.const_value(x.slice), int) and not isinstance(astq.const_value(x.slice), bool):
                base = astq.expand_at(fi.node, x.value, enclosing_stmt(x)) if isinstance(x.value, ast.Name) else x.value
                base = astq.peel(base, "to", "cpu", "float", "detach", "clone")
                if isinstance(base, ast.Subscript) and astq.const_value(base.slice) in ("eff_scale", "frame_idx", "video_idx", "orig_size"):
                    fixed = x
        res.ob(R, fixed is None, fi.qualname, "per-frame batch entries are read at the frame's own position",
               f"`{short(fixed, 50) if fixed is not None else ''}` reads the per-frame entry of ONE fixed frame of the batch and applies it to every frame: the result of a frame depends on which "
               "frame happens to be at that position", f"{fi.module.relpath}:{getattr(fixed, 'lineno', fi.node.lineno)}")
        res.ob(R, bad is None, fi.qualname, "the eff_scale correction is applied per frame, unconditionally",
               f"`{short(bad.test, 60) if bad is not None else ''}` switches the per-frame eff_scale correction by a reduction over the whole batch: a frame's coordinates "
               "depend on which other frames share its batch", f"{fi.module.relpath}:{getattr(bad, 'lineno', fi.node.lineno)}")
    res.floor(R, 3)


def check(prog: Program, res: Result) -> None:
    from . import _state as _st2
    _st2.check_no_stale_loop_var(prog, res, "C12-state", ["sleap_nn.inference"])
    from . import c14
    res.borrow(c14.check_state, "C12-state", prog)
    check_align(prog, res)
    check_split(prog, res)
    check_topk(prog, res)
    check_sort(prog, res)
    check_crop(prog, res)
    check_exist(prog, res)
    # bottom-up: the per-sample results of the PAF stages keep one entry per frame of the batch, and nothing computed for
    # one frame is carried into the next
    # sub-pixel refinement reads the patch of each peak from that peak's own (sample, channel) map
    from . import c06, c07
    # "every output record carries the frame index of the frame it was computed from": the readers put, for loop index i, the
    # image of frame i together with frame_idx i (shared with C13)
    # (samples, channels) merged into one axis are split again in that order (find_global_peaks, find_local_peaks)
    from . import _reshape
    _reshape.check_merge_split_order(prog, res, "C12-reshape", ["sleap_nn.inference."])
    from . import c13 as _c13
    for r_ in _c13.READERS:
        res.borrow(lambda p_, r2_, r_=r_: _c13.check_reader(p_, r2_, r_), "C12-reader", prog)
    res.borrow(c07.check_valid, "C12-refine", prog)
    res.borrow(c06.check_refine, "C12-refine", prog)
    check_no_batch_wide_guard(prog, res)
    check_offset(prog, res)
    from . import _batch
    _batch.check_per_sample_lists(prog, res, "C12-batch", ["sleap_nn.inference.bottomup:BottomUpInferenceModel._generate_cms_peaks", "sleap_nn.inference.paf_grouping:score_paf_lines_batch", "sleap_nn.inference.paf_grouping:match_candidates_batch", "sleap_nn.inference.paf_grouping:group_instances_batch"], floor=9)
    res.assumptions.append("numerical independence of one sample's output from its batch-mates (network, batched kernels) is not decided")


Q = "sleap_nn/inference/predictors.py"
T = "sleap_nn/inference/topdown.py"
B = "sleap_nn/inference/bottomup.py"
PK = "sleap_nn/inference/peak_finding.py"
VARIANTS = [
    Variant("exist-any-nan-skips-refinement", PK, "    if refinement is None or torch.isnan(rough_peaks).all():", "    if refinement is None or torch.isnan(rough_peaks).any():", "C12-exist"),
    Variant("exist-not-all", PK, "    if refinement is None or torch.isnan(rough_peaks).all():", "    if refinement is None or not (~torch.isnan(rough_peaks)).all():", "C12-exist"),
    Variant("bp-exist-none-valid", PK, "    if refinement is None or torch.isnan(rough_peaks).all():", "    if refinement is None or not (~torch.isnan(rough_peaks)).any():", None),
    Variant("align-conditional-append", Q, "                fidxs.append(frame[\"frame_idx\"])\n", "                if frame[\"frame_idx\"] > 0:\n                    fidxs.append(frame[\"frame_idx\"])\n", "C12-align"),
    Variant("align-wrong-key", Q, "                vidxs.append(frame[\"video_idx\"])\n", "                vidxs.append(frame[\"frame_idx\"])\n", "C12-align"),
    Variant("align-not-reset", Q, "            fidxs = []\n            vidxs = []", "            vidxs = []", "C12-align"),
    Variant("align-eff-const", Q, "                eff_scales.append(torch.tensor(eff_scale))", "                eff_scales.append(torch.tensor(1.0))", "C12-align"),
    Variant("split-vals-unmasked", B, "            cms_peak_vals.append(peak_vals[sample_inds == b].to(torch.float32))", "            cms_peak_vals.append(peak_vals.to(torch.float32))", "C12-split"),
    Variant("split-wrong-index", B, "            cms_peak_channel_inds.append(peak_channel_inds[sample_inds == b])", "            cms_peak_channel_inds.append(peak_channel_inds[peak_channel_inds == b])", "C12-split"),
    Variant("split-first-sample", T, "                indices = (peak_sample_inds == b).nonzero()", "                indices = (peak_sample_inds == 0).nonzero()", "C12-split"),
    Variant("topk-smallest", T, "                    current_peak_vals, indices = torch.topk(\n                        current_peak_vals, max_instances\n                    )",
            "                    current_peak_vals, indices = torch.topk(\n                        current_peak_vals, max_instances, largest=False\n                    )", "C12-topk"),
    Variant("topk-not-applied", T, "                    current_peaks = current_peaks[indices]\n                    num_nans = 0", "                    current_peaks = current_peaks[:max_instances]\n                    num_nans = 0", "C12-topk"),
    Variant("sort-ascending", Q, "                        predicted_instances, key=lambda x: x.score, reverse=True", "                        predicted_instances, key=lambda x: x.score, reverse=False", "C12-sort"),
    Variant("crop-filtered-zip", T, "        for centroid, centroid_val, image, fidx, vidx, sz, eff_sc in zip(\n            self.refined_peaks_batched,",
            "        kept = [c for c in self.refined_peaks_batched if not torch.isnan(c).all()]\n        for centroid, centroid_val, image, fidx, vidx, sz, eff_sc in zip(\n            kept,", "C12-crop"),
    Variant("bp-crop-mapped-zip", T, "        for centroid, centroid_val, image, fidx, vidx, sz, eff_sc in zip(\n            self.refined_peaks_batched,",
            "        cents = [c.float() for c in self.refined_peaks_batched]\n        for centroid, centroid_val, image, fidx, vidx, sz, eff_sc in zip(\n            cents,", None),
    Variant("crop-wrong-fidx", T, "            ex[\"frame_idx\"] = torch.Tensor([fidx] * n)", "            ex[\"frame_idx\"] = torch.Tensor([vidx] * n)", "C12-crop"),
    Variant("crop-shared-dict", T, "            ex = {}\n            ex[\"image\"] = torch.cat([image] * n)", "            ex[\"image\"] = torch.cat([image] * n)", "C12-crop"),
    Variant("bp-mask-name", B, "        for b in range(self.batch_size):\n            cms_peaks.append(peaks[sample_inds == b])\n            cms_peak_vals.append(peak_vals[sample_inds == b].to(torch.float32))\n            cms_peak_channel_inds.append(peak_channel_inds[sample_inds == b])",
            "        for b in range(self.batch_size):\n            in_b = sample_inds == b\n            cms_peaks.append(peaks[in_b])\n            cms_peak_vals.append(peak_vals[in_b].to(torch.float32))\n            cms_peak_channel_inds.append(peak_channel_inds[in_b])", None),
]
