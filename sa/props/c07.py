"""C07 — global peak: (x, y) from one joint arg-max, threshold masking, valid-index agreement."""

from __future__ import annotations

import ast
from typing import Dict, List, Optional, Set

from ..core import astq
from ..core.cfg import CFG
from ..core.program import AnalysisError, Program, ancestors, enclosing_stmt, norm, short, walk_function
from ..report import Result
from ..runner import Variant

PROP = "C07"
EXPLANATION = (
    "(joint) backward slices of the x and y columns of the returned peak points: both must originate from ONE index-producing "
    "reduction over the spatial extent of the map (a flat arg-max decomposed with % width and // width of the map's LAST "
    "dimension, or y conditioned on x) - two independent per-axis arg-max chains are a violation because with tied maxima "
    "they can name a cell that is not a maximum; the returned value is the maximum of the same reduction; (mask) the "
    "coordinates are set to NaN and the value to 0 under one and the same mask `value < threshold`, both stores dominating the "
    "return; (valid) in find_global_peaks one index set (the non-NaN rough peaks of the (samples*channels)-flattened list) "
    "selects the peaks that are boxed, the maps that are cropped (maps flattened the same way) and the rows that receive "
    "the offsets; refinement works on a clone; offsets are (dx, dy) on the centred patch grid. Not decided: refinement bounds "
    "and that refinement 'helps'."
)
TRUSTED = ["CPython ast", "networkx reachability", "torch.max(x, dim) returns (values, indices) of one consistent maximal element per slice"]
PF = "sleap_nn.inference.peak_finding"
REDUCE = {"max", "argmax", "min", "argmin", "amax", "topk", "sort", "argsort"}


def backward_reductions(fi, node: ast.AST, seen: Optional[Set[str]] = None) -> Set[int]:
    """ids of index-producing reduction Calls that the value of `node` depends on."""
    seen = seen if seen is not None else set()
    out: Set[int] = set()
    for n in ast.walk(node):
        if isinstance(n, ast.Call):
            name = n.func.attr if isinstance(n.func, ast.Attribute) else (n.func.id if isinstance(n.func, ast.Name) else "")
            if name in REDUCE:
                out.add(id(n))
        if isinstance(n, ast.Name) and isinstance(n.ctx, ast.Load) and n.id not in seen:
            seen.add(n.id)
            for st in astq.assignments_to(fi.node, n.id):
                v = getattr(st, "value", None)
                if v is not None:
                    out |= backward_reductions(fi, v, seen)
    return out


def _calls_by_id(fi) -> Dict[int, ast.Call]:
    return {id(n): n for n in walk_function(fi.node) if isinstance(n, ast.Call)}


def check_joint(prog: Program, res: Result) -> None:
    R = "C07-joint"
    fi = prog.func(f"{PF}:find_global_peaks_rough")
    res.touch(fi)
    rets = [n for n in walk_function(fi.node) if isinstance(n, ast.Return)]
    if len(rets) != 1 or not isinstance(rets[0].value, ast.Tuple) or len(rets[0].value.elts) != 2:
        res.inconclusive(f"{fi.qualname}: return is not (points, values)")
        return
    pts_e, val_e = rets[0].value.elts
    pts = astq.deref(fi.node, pts_e)
    # unwrap .to(float32)
    while isinstance(pts, ast.Call) and isinstance(pts.func, ast.Attribute) and pts.func.attr in ("to", "float", "type"):
        pts = pts.func.value
    cols: List[ast.AST] = []
    if isinstance(pts, ast.Call) and norm(pts.func) in ("torch.cat", "torch.stack", "torch.concatenate") and pts.args and isinstance(pts.args[0], (ast.List, ast.Tuple)):
        cols = list(pts.args[0].elts)
    res.ob(R, len(cols) == 2, fi.qualname, "peak points assembled from an x column and a y column", f"peak points are `{short(pts, 60) if pts is not None else '?'}`", fi.where)
    if len(cols) != 2:
        return
    calls = _calls_by_id(fi)
    rx, ry = backward_reductions(fi, cols[0]), backward_reductions(fi, cols[1])
    common = rx & ry
    desc = lambda ids: sorted(f"L{calls[i].lineno}:{short(calls[i], 40)}" for i in ids if i in calls)
    res.ob(R, bool(common) and rx == ry, fi.qualname, "x and y come from one joint arg-max",
           f"x derives from reductions {desc(rx)} and y from {desc(ry)}: the two coordinates are arg-maxima of different reductions; with two cells "
           "attaining the maximum the reported (x, y) can be a cell that is not a maximum", fi.where,
           derivation={"x": desc(rx), "y": desc(ry)}, sample={"x": desc(rx), "y": desc(ry)})
    if common and rx == ry and len(common) == 1:
        red = calls[next(iter(common))]
        # the reduction is over the flattened spatial extent: argument is cms reshaped to (.., .., -1), dim=-1
        a0 = red.args[0] if red.args else (red.func.value if isinstance(red.func, ast.Attribute) else None)
        a0d = astq.deref(fi.node, a0)
        flat = isinstance(a0d, ast.Call) and isinstance(a0d.func, ast.Attribute) and a0d.func.attr in ("reshape", "view", "flatten") and norm(a0d.func.value) == "cms"
        if flat and a0d.func.attr != "flatten":
            flat = norm(a0d.args[-1]) == "-1" and len(a0d.args) == 3
        dim = [norm(k.value) for k in red.keywords if k.arg == "dim"] + [norm(a) for a in red.args[1:2]]
        res.ob(R, flat and dim[:1] == ["-1"], fi.qualname, "the reduction runs over the whole (H*W) extent of each (sample, channel) map",
               f"the joint reduction is `{short(red, 60)}`: it does not cover exactly the flattened spatial extent of each map", fi.where)
        # decomposition uses the LAST dimension of cms
        def is_op(e, op):
            e = astq.deref(fi.node, e)
            while isinstance(e, ast.Call) and isinstance(e.func, ast.Attribute) and e.func.attr in ("unsqueeze", "to", "long", "float"):
                e = astq.deref(fi.node, e.func.value)
            if op == "mod":
                return (isinstance(e, ast.BinOp) and isinstance(e.op, ast.Mod) and norm(e.right)) or (isinstance(e, ast.Call) and norm(e.func) in ("torch.remainder", "torch.fmod") and norm(e.args[1]))
            return (isinstance(e, ast.BinOp) and isinstance(e.op, ast.FloorDiv) and norm(e.right)) or \
                   (isinstance(e, ast.Call) and norm(e.func) in ("torch.div", "torch.floor_divide") and len(e.args) >= 2 and norm(e.args[1]))
        wx, wy = is_op(cols[0], "mod"), is_op(cols[1], "div")
        wdef = None
        if wx and wx == wy:
            for st in walk_function(fi.node):
                if isinstance(st, ast.Assign) and isinstance(st.targets[0], ast.Tuple) and wx in [norm(e) for e in st.targets[0].elts] and norm(st.value) == "cms.shape":
                    wdef = [norm(e) for e in st.targets[0].elts].index(wx) == len(st.targets[0].elts) - 1 and len(st.targets[0].elts) == 4
                if isinstance(st, ast.Assign) and norm(st.targets[0]) == wx and norm(st.value) in ("cms.shape[-1]", "cms.shape[3]", "cms.size(3)", "cms.size(-1)"):
                    wdef = True
        res.ob(R, bool(wx) and wx == wy and bool(wdef), fi.qualname, "x = flat % W and y = flat // W with W the last dimension of the map",
               f"the flat index is decomposed with `% {wx}` / `// {wy}`: not the row-major decomposition by the map width", fi.where)
        if rd := astq.deref(fi.node, val_e):
            st = enclosing_stmt(red)
            names = [norm(e) for e in st.targets[0].elts] if isinstance(st, ast.Assign) and isinstance(st.targets[0], ast.Tuple) else []
            res.ob(R, names[:1] == [norm(val_e)] or id(red) in backward_reductions(fi, val_e), fi.qualname, "the reported value is the maximum of the same reduction",
                   "the reported value does not come from the reduction that located the peak", fi.where)
    res.floor(R, 2)


def check_mask(prog: Program, res: Result) -> None:
    R = "C07-mask"
    fi = prog.func(f"{PF}:find_global_peaks_rough")
    cfg = CFG(fi.node)
    rets = [n for n in walk_function(fi.node) if isinstance(n, ast.Return)]
    pts_n, val_n = [norm(e) for e in rets[0].value.elts]
    stores = [s for s in walk_function(fi.node) if isinstance(s, ast.Assign) and isinstance(s.targets[0], ast.Subscript) and isinstance(s.targets[0].slice, ast.Name)]
    by = {norm(s.targets[0].value): s for s in stores}
    ok = pts_n in by and val_n in by
    res.ob(R, ok, fi.qualname, "masked stores into points and values", f"masked stores found only for {sorted(by)}", fi.where)
    if not ok:
        return
    sp, sv = by[pts_n], by[val_n]
    res.ob(R, norm(sp.targets[0].slice) == norm(sv.targets[0].slice), fi.qualname, "one mask for coordinates and value",
           f"coordinates are masked with `{norm(sp.targets[0].slice)}` but values with `{norm(sv.targets[0].slice)}`", fi.where)
    m = astq.deref(fi.node, sp.targets[0].slice)
    ok = isinstance(m, ast.Compare) and len(m.ops) == 1 and ((isinstance(m.ops[0], ast.Lt) and norm(m.left) == val_n and norm(m.comparators[0]) == "threshold")
                                                              or (isinstance(m.ops[0], ast.Gt) and norm(m.comparators[0]) == val_n and norm(m.left) == "threshold"))
    res.ob(R, ok, fi.qualname, "mask = value < threshold", f"the mask is `{short(m, 50) if m is not None else '?'}`", fi.where, sample=short(m, 50) if m is not None else None)
    res.ob(R, norm(sp.value).replace('"', "'") in ("float('nan')", "torch.nan", "np.nan", "math.nan"), fi.qualname, "below-threshold coordinates become NaN",
           f"below-threshold coordinates are set to `{short(sp.value, 20)}`", fi.where)
    res.ob(R, astq.const_value(sv.value.args[0] if isinstance(sv.value, ast.Call) and sv.value.args else sv.value) == 0, fi.qualname, "below-threshold values become 0",
           f"below-threshold values are set to `{short(sv.value, 20)}`", fi.where)
    rn = cfg.stmt_nodes_containing(rets[0])
    for s in (sp, sv):
        w = cfg.must_pass([cfg.entry], rn, cfg.stmt_nodes_containing(s))
        res.ob(R, w is None, fi.qualname, f"`{short(s, 40)}` dominates the return", f"a path returns without `{short(s, 40)}`", f"{fi.module.relpath}:{s.lineno}")
    # the mask is computed before the values are zeroed
    mdef = [s for s in astq.assignments_to(fi.node, norm(sp.targets[0].slice))]
    res.ob(R, len(mdef) == 1 and mdef[0].lineno < sv.lineno, fi.qualname, "mask computed from the unmodified values", "the mask is computed after the values were overwritten", fi.where)
    res.floor(R, 7)


def check_valid(prog: Program, res: Result) -> None:
    R = "C07-valid"
    fi = prog.func(f"{PF}:find_global_peaks")
    res.touch(fi)
    d: Dict[str, List[ast.AST]] = {}
    for st in walk_function(fi.node):
        if isinstance(st, ast.Assign) and isinstance(st.targets[0], ast.Name):
            d.setdefault(st.targets[0].id, []).append(st.value)
    calls = [c for c, q in prog.calls_in(fi) if q == f"{PF}:find_global_peaks_rough"]
    res.ob(R, len(calls) == 1, fi.qualname, "one rough detection", f"{len(calls)} rough detections", fi.where)
    if len(calls) != 1:
        return
    st = enclosing_stmt(calls[0])
    rough, vals = [norm(e) for e in st.targets[0].elts]
    vi = d.get("valid_idx", [])
    ok = len(vi) == 1 and norm(vi[0]).replace(" ", "") == f"torch.where(~torch.isnan({rough}[:,0]))[0]"
    res.ob(R, ok, fi.qualname, "valid_idx = rows of the flattened peak list that are not NaN", f"valid_idx is `{short(vi[0], 60) if vi else '?'}`", fi.where)
    flat = [v for v in d.get(rough, []) if isinstance(v, ast.Call) and isinstance(v.func, ast.Attribute) and v.func.attr in ("view", "reshape")]
    ok = len(flat) == 1 and [norm(a).replace(" ", "") for a in flat[0].args] == ["samples*channels", "2"]
    res.ob(R, ok, fi.qualname, "peaks flattened to (samples*channels, 2)", f"peaks are flattened as `{short(flat[0], 50) if flat else '?'}`", fi.where)
    rs = [v for v in d.get("cms", []) if isinstance(v, ast.Call) and norm(v.func) == "torch.reshape"]
    ok = len(rs) == 1 and norm(rs[0].args[1]).replace(" ", "") == "[samples*channels,1,cms.size(2),cms.size(3)]"
    res.ob(R, ok, fi.qualname, "maps flattened the same way, (samples*channels, 1, H, W)", f"maps are reshaped as `{short(rs[0].args[1], 50) if rs else '?'}`", fi.where)
    sc = {n: norm(d[n][0]) for n in ("samples", "channels") if n in d}
    res.ob(R, sc == {"samples": "cms.size(0)", "channels": "cms.size(1)"}, fi.qualname, "samples/channels from dims 0/1", f"{sc}", fi.where)
    uses = {
        "boxed peaks": ("valid_peaks", f"{rough}[valid_idx]"),
    }
    vp = d.get("valid_peaks", [])
    res.ob(R, len(vp) == 1 and norm(vp[0]) == f"{rough}[valid_idx]", fi.qualname, "boxes are built for rough_peaks[valid_idx]", f"valid_peaks is `{short(vp[0], 40) if vp else '?'}`", fi.where)
    bb = [c for c, q in prog.calls_in(fi) if q == "sleap_nn.data.instance_cropping:make_centered_bboxes"]
    ok = len(bb) == 1 and norm(bb[0].args[0]) == "valid_peaks" and {k.arg: norm(k.value) for k in bb[0].keywords} == {"box_height": "crop_size", "box_width": "crop_size"}
    res.ob(R, ok, fi.qualname, "patch boxes centred on the valid peaks", "patch boxes are not centred on the valid peaks with the patch size", fi.where)
    cb = [c for c, q in prog.calls_in(fi) if q == f"{PF}:crop_bboxes"]
    ok = len(cb) == 1
    if ok:
        b = astq.bind_args(prog.func(f"{PF}:crop_bboxes"), cb[0])
        ok = norm(b.get("images")) == "cms" and norm(b.get("bboxes")) == "bboxes" and norm(b.get("sample_inds")) == "valid_idx"
    res.ob(R, ok, fi.qualname, "patches cut from map valid_idx[i] for box i",
           "crop_bboxes does not receive valid_idx as the per-box map index: the patch of a peak is cut from another channel's map", fi.where)
    aug = [s for s in walk_function(fi.node) if isinstance(s, ast.AugAssign) and isinstance(s.target, ast.Subscript)]
    ok = len(aug) == 1 and norm(aug[0].target) == "refined_peaks[valid_idx]" and isinstance(aug[0].op, ast.Add) and norm(aug[0].value) == "offsets"
    res.ob(R, ok, fi.qualname, "offsets added to exactly the valid rows", f"offsets are applied by `{short(aug[0], 50) if aug else '?'}`", fi.where, sample=short(aug[0], 50) if aug else None)
    rp = d.get("refined_peaks", [])
    res.ob(R, len(rp) >= 1 and any(norm(x) == f"{rough}.clone()" for x in rp) and not any(norm(x) == rough for x in rp), fi.qualname, "refinement works on a clone of the rough peaks", "refined_peaks is not a clone of the rough peaks (NaN rows / caller's tensor affected)", fi.where)
    od = d.get("offsets", [])
    res.ob(R, len(od) == 1 and norm(od[0]) == "torch.cat([dx_hat, dy_hat], dim=1)", fi.qualname, "offsets = (dx, dy)", f"offsets are `{short(od[0], 40) if od else '?'}`", fi.where)
    gv = d.get("gv", [])
    res.ob(R, len(gv) == 1 and norm(gv[0]).replace(" ", "") == "torch.arange(crop_size,dtype=torch.float32)-(crop_size-1)/2", fi.qualname, "patch grid centred",
           f"patch grid is `{short(gv[0], 50) if gv else '?'}`: a symmetric bump centred on a cell would be moved", fi.where)
    rets = [n for n in walk_function(fi.node) if isinstance(n, ast.Return)]
    for r in rets:
        el = [norm(e) for e in r.value.elts] if isinstance(r.value, ast.Tuple) else []
        res.ob(R, len(el) == 2 and el[1] == vals and el[0] in (rough, "refined_peaks"), fi.qualname, f"return ({el[0] if el else '?'}, values of the rough detection)",
               f"a return path yields `{short(r.value, 50)}`", f"{fi.module.relpath}:{r.lineno}")
    fin = [s for s in d.get("refined_peaks", []) if isinstance(s, ast.Call) and isinstance(s.func, ast.Attribute) and s.func.attr == "reshape"]
    res.ob(R, len(fin) == 1 and [norm(a) for a in fin[0].args] == ["samples", "channels", "2"], fi.qualname, "result reshaped back to (samples, channels, 2)", "refined peaks are not reshaped back to (samples, channels, 2)", fi.where)
    # crop_bboxes: size from the box, crop of images[sample_inds]
    cbf = prog.func(f"{PF}:crop_bboxes")
    res.touch(cbf)
    cr = [c for c in walk_function(cbf.node) if isinstance(c, ast.Call) and norm(c.func) == "crop_and_resize"]
    ok = len(cr) == 1 and norm(cr[0].args[0]) == "images[sample_inds]" and {k.arg: norm(k.value) for k in cr[0].keywords} == {"boxes": "bboxes", "size": "box_size"}
    res.ob(R, ok, cbf.qualname, "crop i is cut from images[sample_inds[i]] with box i", "crop_bboxes does not pair images[sample_inds] with the boxes", cbf.where)
    res.floor(R, 14)


def check(prog: Program, res: Result) -> None:
    check_joint(prog, res)
    check_mask(prog, res)
    check_valid(prog, res)
    res.assumptions.append("refinement bounds (half a patch) and 'refinement helps' are numerical and not decided")


F = "sleap_nn/inference/peak_finding.py"
ORIG = '''    max_values, max_indices = torch.max(cms.reshape(samples, channels, -1), dim=-1)
    max_indices_x = max_indices % width  # (samples, channels)
    max_indices_y = torch.div(max_indices, width, rounding_mode="floor")
'''
INDEP = '''    max_values, max_indices_y = torch.max(cms, dim=2, keepdim=True)
    max_values, max_indices_x = torch.max(max_values, dim=3, keepdim=True)
    max_indices_x = max_indices_x.squeeze(dim=(2, 3))  # (samples, channels)
    amax_values, amax_indices_x = torch.max(cms, dim=3, keepdim=True)
    amax_values, max_indices_y = torch.max(amax_values, dim=2, keepdim=True)
    max_indices_y = max_indices_y.squeeze(dim=(2, 3))
    max_values = max_values.squeeze(-1).squeeze(-1)
'''
VARIANTS = [
    Variant("joint-independent-argmax", F, ORIG, INDEP, "C07-joint"),
    Variant("joint-wrong-width", F, "    samples, channels, _, width = cms.shape\n", "    samples, channels, width, _ = cms.shape\n", "C07-joint"),
    Variant("joint-xy-swapped", F, "    max_indices_x = max_indices % width  # (samples, channels)\n    max_indices_y = torch.div(max_indices, width, rounding_mode=\"floor\")",
            "    max_indices_y = max_indices % width  # (samples, channels)\n    max_indices_x = torch.div(max_indices, width, rounding_mode=\"floor\")", "C07-joint"),
    Variant("mask-le", F, "    below_threshold_mask = max_values < threshold", "    below_threshold_mask = max_values > threshold", "C07-mask"),
    Variant("mask-values-not-zeroed", F, "    max_values[below_threshold_mask] = float(0)\n", "", "C07-mask"),
    Variant("mask-after-zero", F, "    below_threshold_mask = max_values < threshold\n    # Replace values below the threshold with NaN.\n    peak_points[below_threshold_mask] = float(\"nan\")\n    max_values[below_threshold_mask] = float(0)",
            "    max_values[max_values < threshold] = float(0)\n    below_threshold_mask = max_values < threshold\n    peak_points[below_threshold_mask] = float(\"nan\")", "C07-mask"),
    Variant("valid-crop-all", F, "    cm_crops = crop_bboxes(cms, bboxes, valid_idx)", "    cm_crops = crop_bboxes(cms, bboxes, torch.arange(len(bboxes)))", "C07-valid"),
    Variant("valid-offsets-all-rows", F, "    refined_peaks[valid_idx] += offsets", "    refined_peaks[: len(offsets)] += offsets", "C07-valid"),
    Variant("valid-no-clone", F, "    refined_peaks = rough_peaks.clone()", "    refined_peaks = rough_peaks", "C07-valid"),
    Variant("valid-uncentred-grid", F, "        gv = torch.arange(crop_size, dtype=torch.float32) - ((crop_size - 1) / 2)\n        dx_hat, dy_hat = integral_regression(cm_crops, xv=gv, yv=gv)\n        offsets = torch.cat([dx_hat, dy_hat], dim=1)\n\n    # Apply offsets.\n    refined_peaks = rough_peaks.clone()",
            "        gv = torch.arange(crop_size, dtype=torch.float32) - (crop_size / 2)\n        dx_hat, dy_hat = integral_regression(cm_crops, xv=gv, yv=gv)\n        offsets = torch.cat([dx_hat, dy_hat], dim=1)\n\n    # Apply offsets.\n    refined_peaks = rough_peaks.clone()", "C07-valid"),
    Variant("bp-floor-div-op", F, "    max_indices_y = torch.div(max_indices, width, rounding_mode=\"floor\")", "    max_indices_y = max_indices // width", None),
]
