"""C07 — global peak: (x, y) from one joint arg-max, threshold masking, valid-index agreement."""

from __future__ import annotations

import ast
from typing import Dict, List, Optional, Set

from ..core import astq
from ..core.cfg import CFG
from ..core.program import AnalysisError, Program, ancestors, enclosing_stmt, norm, short, walk_function
from ..report import Result
from ..runner import Variant

PROP = "C07"
EXPLANATION = (
    "(joint) backward slices of the x and y columns of the returned peak points: both must originate from ONE index-producing "
    "reduction over the spatial extent of the map (a flat arg-max decomposed with % width and // width of the map's LAST "
    "dimension, or y conditioned on x) - two independent per-axis arg-max chains are a violation because with tied maxima "
    "they can name a cell that is not a maximum; the returned value is the maximum of the same reduction; (mask) the "
    "coordinates are set to NaN and the value to 0 under one and the same mask `value < threshold`, both stores dominating the "
    "return; (valid) in find_global_peaks one index set (the non-NaN rough peaks of the (samples*channels)-flattened list) "
    "selects the peaks that are boxed, the maps that are cropped (maps flattened the same way) and the rows that receive "
    "the offsets; refinement works on a clone; offsets are (dx, dy) on the centred patch grid; the crop is reached only through a "
    "test that quantifies over isnan(rough peaks), and (exist) no whole-batch early return is taken because SOME peak is NaN "
    "(the valid peaks of the batch would stay unrefined). Not decided: refinement bounds "
    "and that refinement 'helps'."
)
TRUSTED = ["CPython ast", "networkx reachability", "torch.max(x, dim) returns (values, indices) of one consistent maximal element per slice"]
PF = "sleap_nn.inference.peak_finding"
REDUCE = {"max", "argmax", "min", "argmin", "amax", "topk", "sort", "argsort"}


def backward_reductions(fi, node: ast.AST, seen: Optional[Set[str]] = None) -> Set[int]:
    """ids of index-producing reduction Calls that the value of `node` depends on."""
    seen = seen if seen is not None else set()
    out: Set[int] = set()
    for n in ast.walk(node):
        if isinstance(n, ast.Call):
            name = n.func.attr if isinstance(n.func, ast.Attribute) else (n.func.id if isinstance(n.func, ast.Name) else "")
            if name in REDUCE:
                out.add(id(n))
        if isinstance(n, ast.Name) and isinstance(n.ctx, ast.Load) and n.id not in seen:
            seen.add(n.id)
            for st in astq.assignments_to(fi.node, n.id):
                v = getattr(st, "value", None)
                if v is not None:
                    out |= backward_reductions(fi, v, seen)
    return out


def _calls_by_id(fi) -> Dict[int, ast.Call]:
    return {id(n): n for n in walk_function(fi.node) if isinstance(n, ast.Call)}


def check_joint(prog: Program, res: Result) -> None:
    R = "C07-joint"
    fi = prog.func(f"{PF}:find_global_peaks_rough")
    res.touch(fi)
    rets = [n for n in walk_function(fi.node) if isinstance(n, ast.Return)]
    if len(rets) != 1 or not isinstance(rets[0].value, ast.Tuple) or len(rets[0].value.elts) != 2:
        res.inconclusive(f"{fi.qualname}: return is not (points, values)")
        return
    pts_e, val_e = rets[0].value.elts
    pts = astq.deref(fi.node, pts_e)
    # unwrap .to(float32)
    while isinstance(pts, ast.Call) and isinstance(pts.func, ast.Attribute) and pts.func.attr in ("to", "float", "type"):
        pts = pts.func.value
    cols: List[ast.AST] = []
    if isinstance(pts, ast.Call) and norm(pts.func) in ("torch.cat", "torch.stack", "torch.concatenate") and pts.args and isinstance(pts.args[0], (ast.List, ast.Tuple)):
        cols = list(pts.args[0].elts)
    res.ob(R, len(cols) == 2, fi.qualname, "peak points assembled from an x column and a y column", f"peak points are `{short(pts, 60) if pts is not None else '?'}`", fi.where)
    if len(cols) != 2:
        return
    calls = _calls_by_id(fi)
    rx, ry = backward_reductions(fi, cols[0]), backward_reductions(fi, cols[1])
    common = rx & ry
    desc = lambda ids: sorted(f"L{calls[i].lineno}:{short(calls[i], 40)}" for i in ids if i in calls)
    res.ob(R, bool(common) and rx == ry, fi.qualname, "x and y come from one joint arg-max",
           f"x derives from reductions {desc(rx)} and y from {desc(ry)}: the two coordinates are arg-maxima of different reductions; with two cells "
           "attaining the maximum the reported (x, y) can be a cell that is not a maximum", fi.where,
           derivation={"x": desc(rx), "y": desc(ry)}, sample={"x": desc(rx), "y": desc(ry)})
    if common and rx == ry and len(common) == 1:
        red = calls[next(iter(common))]
        # the reduction is over the flattened spatial extent: argument is cms reshaped to (.., .., -1), dim=-1
        a0 = red.args[0] if red.args else (red.func.value if isinstance(red.func, ast.Attribute) else None)
        a0d = astq.deref(fi.node, a0)
        flat = isinstance(a0d, ast.Call) and isinstance(a0d.func, ast.Attribute) and a0d.func.attr in ("reshape", "view", "flatten") and norm(a0d.func.value) == "cms"
        if flat and a0d.func.attr != "flatten":
            flat = norm(a0d.args[-1]) == "-1" and len(a0d.args) == 3
        dim = [norm(k.value) for k in red.keywords if k.arg == "dim"] + [norm(a) for a in red.args[1:2]]
        res.ob(R, flat and dim[:1] == ["-1"], fi.qualname, "the reduction runs over the whole (H*W) extent of each (sample, channel) map",
               f"the joint reduction is `{short(red, 60)}`: it does not cover exactly the flattened spatial extent of each map", fi.where)
        # decomposition uses the LAST dimension of cms
        def is_op(e, op):
            e = astq.deref(fi.node, e)
            while isinstance(e, ast.Call) and isinstance(e.func, ast.Attribute) and e.func.attr in ("unsqueeze", "to", "long", "float"):
                e = astq.deref(fi.node, e.func.value)
            if op == "mod":
                return (isinstance(e, ast.BinOp) and isinstance(e.op, ast.Mod) and norm(e.right)) or (isinstance(e, ast.Call) and norm(e.func) in ("torch.remainder", "torch.fmod") and norm(e.args[1]))
            return (isinstance(e, ast.BinOp) and isinstance(e.op, ast.FloorDiv) and norm(e.right)) or \
                   (isinstance(e, ast.Call) and norm(e.func) in ("torch.div", "torch.floor_divide") and len(e.args) >= 2 and norm(e.args[1]))
        wx, wy = is_op(cols[0], "mod"), is_op(cols[1], "div")
        wdef = None
        if wx and wx == wy:
            for st in walk_function(fi.node):
                if isinstance(st, ast.Assign) and isinstance(st.targets[0], ast.Tuple) and wx in [norm(e) for e in st.targets[0].elts] and norm(st.value) == "cms.shape":
                    wdef = [norm(e) for e in st.targets[0].elts].index(wx) == len(st.targets[0].elts) - 1 and len(st.targets[0].elts) == 4
                if isinstance(st, ast.Assign) and norm(st.targets[0]) == wx and norm(st.value) in ("cms.shape[-1]", "cms.shape[3]", "cms.size(3)", "cms.size(-1)"):
                    wdef = True
        res.ob(R, bool(wx) and wx == wy and bool(wdef), fi.qualname, "x = flat % W and y = flat // W with W the last dimension of the map",
               f"the flat index is decomposed with `% {wx}` / `// {wy}`: not the row-major decomposition by the map width", fi.where)
        if rd := astq.deref(fi.node, val_e):
            st = enclosing_stmt(red)
            names = [norm(e) for e in st.targets[0].elts] if isinstance(st, ast.Assign) and isinstance(st.targets[0], ast.Tuple) else []
            res.ob(R, names[:1] == [norm(val_e)] or id(red) in backward_reductions(fi, val_e), fi.qualname, "the reported value is the maximum of the same reduction",
                   "the reported value does not come from the reduction that located the peak", fi.where)
    res.floor(R, 2)


def check_mask(prog: Program, res: Result) -> None:
    R = "C07-mask"
    fi = prog.func(f"{PF}:find_global_peaks_rough")
    cfg = CFG(fi.node)
    rets = [n for n in walk_function(fi.node) if isinstance(n, ast.Return)]
    pts_n, val_n = [norm(e) for e in rets[0].value.elts]
    stores = [s for s in walk_function(fi.node) if isinstance(s, ast.Assign) and isinstance(s.targets[0], ast.Subscript) and isinstance(s.targets[0].slice, ast.Name)]
    by = {norm(s.targets[0].value): s for s in stores}
    ok = pts_n in by and val_n in by
    res.ob(R, ok, fi.qualname, "masked stores into points and values", f"masked stores found only for {sorted(by)}", fi.where)
    if not ok:
        return
    sp, sv = by[pts_n], by[val_n]
    res.ob(R, norm(sp.targets[0].slice) == norm(sv.targets[0].slice), fi.qualname, "one mask for coordinates and value",
           f"coordinates are masked with `{norm(sp.targets[0].slice)}` but values with `{norm(sv.targets[0].slice)}`", fi.where)
    m = astq.deref(fi.node, sp.targets[0].slice)
    ok = isinstance(m, ast.Compare) and len(m.ops) == 1 and ((isinstance(m.ops[0], ast.Lt) and norm(m.left) == val_n and norm(m.comparators[0]) == "threshold")
                                                              or (isinstance(m.ops[0], ast.Gt) and norm(m.comparators[0]) == val_n and norm(m.left) == "threshold"))
    res.ob(R, ok, fi.qualname, "mask = value < threshold", f"the mask is `{short(m, 50) if m is not None else '?'}`", fi.where, sample=short(m, 50) if m is not None else None)
    res.ob(R, norm(sp.value).replace('"', "'") in ("float('nan')", "torch.nan", "np.nan", "math.nan"), fi.qualname, "below-threshold coordinates become NaN",
           f"below-threshold coordinates are set to `{short(sp.value, 20)}`", fi.where)
    res.ob(R, astq.const_value(sv.value.args[0] if isinstance(sv.value, ast.Call) and sv.value.args else sv.value) == 0, fi.qualname, "below-threshold values become 0",
           f"below-threshold values are set to `{short(sv.value, 20)}`", fi.where)
    rn = cfg.stmt_nodes_containing(rets[0])
    for s in (sp, sv):
        w = cfg.must_pass([cfg.entry], rn, cfg.stmt_nodes_containing(s))
        res.ob(R, w is None, fi.qualname, f"`{short(s, 40)}` dominates the return", f"a path returns without `{short(s, 40)}`", f"{fi.module.relpath}:{s.lineno}")
    # the mask is computed before the values are zeroed
    mdef = [s for s in astq.assignments_to(fi.node, norm(sp.targets[0].slice))]
    res.ob(R, len(mdef) == 1 and mdef[0].lineno < sv.lineno, fi.qualname, "mask computed from the unmodified values", "the mask is computed after the values were overwritten", fi.where)
    res.floor(R, 7)


def _notnan_rows_of(idx: ast.AST) -> Optional[ast.AST]:
    """F when `idx` selects the rows of F whose first column is not NaN:  where(M)[0], nonzero(M, as_tuple=True)[0],
    nonzero(M)[:, 0] / .squeeze(1) / .flatten(), with M = ~isnan(F[:, 0]) / isnan(F[:, 0]) == False / logical_not(isnan(F[:, 0]))."""
    def is_call(e, name):
        return isinstance(e, ast.Call) and norm(e.func).split(".")[-1] == name

    def arg0(c):
        return c.args[0] if c.args else (c.func.value if isinstance(c.func, ast.Attribute) and norm(c.func.value) != "torch" else None)

    def first_arg(c):   # torch.f(x, ...) -> x ;  x.f(...) -> x
        if isinstance(c.func, ast.Attribute) and norm(c.func.value) not in ("torch", "np"):
            return c.func.value
        return c.args[0] if c.args else None

    M = None
    if isinstance(idx, ast.Subscript) and astq.const_value(idx.slice) == 0 and isinstance(idx.value, ast.Call):
        c = idx.value
        if is_call(c, "where") and len(c.args) == 1 and not c.keywords:
            M = c.args[0]
        elif is_call(c, "nonzero") and any(k.arg == "as_tuple" and astq.const_value(k.value) is True for k in c.keywords):
            M = first_arg(c)
    elif isinstance(idx, ast.Subscript) and norm(idx.slice).replace(" ", "") in ("(:,0)", ":,0"):
        c = idx.value
        if is_call(c, "nonzero") and not c.keywords:
            M = first_arg(c)
    elif isinstance(idx, ast.Call) and isinstance(idx.func, ast.Attribute) and idx.func.attr in ("squeeze", "flatten") and is_call(idx.func.value, "nonzero") and not idx.func.value.keywords:
        if idx.func.attr == "flatten" or [astq.const_value(a) for a in idx.args] in ([1], [-1]):
            M = first_arg(idx.func.value)
    if M is None:
        return None
    inner = None
    if isinstance(M, ast.UnaryOp) and isinstance(M.op, ast.Invert):
        inner = M.operand
    elif isinstance(M, ast.Compare) and len(M.ops) == 1 and isinstance(M.ops[0], ast.Eq) and astq.const_value(M.comparators[0]) is False:
        inner = M.left
    elif is_call(M, "logical_not"):
        inner = first_arg(M)
    if inner is None or not is_call(inner, "isnan"):
        return None
    col = first_arg(inner)
    if isinstance(col, ast.Subscript) and norm(col.slice).replace(" ", "") in ("(:,0)", ":,0"):
        return col.value
    return None


def check_valid(prog: Program, res: Result) -> None:
    """Read off the expanded data flow around the single in-place update `refined[idx] += offsets` (names, statement
    splitting and helper extraction do not matter):
      flat   = rough.view(S*C, 2)                      idx = where(~isnan(flat[:, 0]))[0]
      crops  = crop_bboxes(cms.reshape(S*C, 1, H, W), make_centered_bboxes(flat[idx], n, n), idx)
      offs   = cat(integral_regression(crops, g, g), dim=1),  g = arange(n) - (n - 1) / 2
      result = flat.clone() with rows idx increased by offs, reshaped to (S, C, 2); values are the rough ones."""
    import re

    R = "C07-valid"
    fi = prog.func(f"{PF}:find_global_peaks")
    res.touch(fi)
    fn = fi.node
    maps = fi.pos_params[0] if fi.pos_params else "cms"
    calls = [c for c, q in prog.calls_in(fi) if q == f"{PF}:find_global_peaks_rough"]
    res.ob(R, len(calls) == 1, fi.qualname, "one rough detection", f"{len(calls)} rough detections", fi.where)
    if len(calls) != 1:
        return
    st = enclosing_stmt(calls[0])
    if not (isinstance(st, ast.Assign) and isinstance(st.targets[0], ast.Tuple) and len(st.targets[0].elts) == 2):
        raise AnalysisError(f"{fi.qualname}: result of find_global_peaks_rough is not unpacked into (peaks, values)")
    rough, vals = [norm(e) for e in st.targets[0].elts]
    S_, C_, H_, W_ = (f"{maps}.size({k})" for k in range(4))

    def T(e) -> str:
        return astq.dims(norm(astq.strip_device(e))).replace(" ", "") if e is not None else ""

    flat_forms = {f"{rough}.view({S_}*{C_},2)", f"{rough}.reshape({S_}*{C_},2)", f"{rough}.view(-1,2)", f"{rough}.reshape(-1,2)", f"{rough}.view({C_}*{S_},2)"}
    aug = [s_ for s_ in walk_function(fn) if isinstance(s_, ast.AugAssign) and isinstance(s_.target, ast.Subscript)]
    res.ob(R, len(aug) == 1 and isinstance(aug[0].op, ast.Add), fi.qualname, "offsets added in place to selected rows, once", f"{len(aug)} in-place updates", fi.where,
           sample=short(aug[0], 50) if aug else None)
    if len(aug) != 1:
        return
    a = aug[0]
    where = f"{fi.module.relpath}:{a.lineno}"
    idx = astq.expand_at(fn, a.target.slice, a)
    base = astq.expand_at(fn, a.target.value, a)
    offs = astq.expand_at(fn, a.value, a, unpack_calls=True, stop=[st])
    ti = T(idx)
    flat_of_idx = _notnan_rows_of(idx)
    tfl = T(flat_of_idx) if flat_of_idx is not None else None
    ok = tfl is not None and tfl in flat_forms
    res.ob(R, ok, fi.qualname, "valid_idx = rows of the flattened peak list that are not NaN", f"the updated rows are `{short(idx, 70)}`", where)
    res.ob(R, ok, fi.qualname, "peaks flattened to (samples*channels, 2)", f"peaks are flattened as `{tfl or '?'}`", where)
    tb = T(base)
    okc = tb.endswith(".clone()") and tb[: -len(".clone()")] in flat_forms
    res.ob(R, okc, fi.qualname, "refinement works on a clone of the rough peaks", f"the refined peaks start as `{short(base, 50)}`: not a clone of the flattened rough peaks (NaN rows / caller's tensor affected)", where)
    # offsets
    o = offs
    okc = isinstance(o, ast.Call) and norm(o.func).split(".")[-1] in ("cat", "concat") and o.args and isinstance(o.args[0], (ast.List, ast.Tuple)) and len(o.args[0].elts) == 2 \
        and (any(k.arg in ("dim", "axis") and astq.const_value(k.value) in (1, -1) for k in o.keywords) or (len(o.args) == 2 and astq.const_value(o.args[1]) in (1, -1)))
    comp = []
    if okc:
        for x in o.args[0].elts:
            if isinstance(x, ast.Subscript) and isinstance(x.value, ast.Call) and prog.resolve_call(fi, x.value) == f"{PF}:integral_regression":
                comp.append((astq.const_value(x.slice), x.value))
            else:
                comp.append((None, None))
    okc = okc and [c[0] for c in comp] == [0, 1]
    res.ob(R, okc, fi.qualname, "offsets = (dx, dy)", f"offsets are `{short(o, 60)}`", where)
    if not okc:
        return
    bi = astq.bind_args(prog.func(f"{PF}:integral_regression"), comp[0][1])
    gx, gy = T(bi.get("xv")), T(bi.get("yv"))
    mm = re.fullmatch(r"torch\.arange\((\w+)(?:,dtype=torch\.float32)?\)(?:\.float\(\))?-\(\1-1\)/2(?:\.0)?", gx)
    res.ob(R, gx == gy and mm is not None, fi.qualname, "patch grid centred", f"patch grid is `{short(bi.get('xv'), 50)}`: a symmetric bump centred on a cell would be moved", where)
    n = mm.group(1) if mm else None
    crops = astq.peel(bi.get("cms"), "to", "float") if bi.get("cms") is not None else None
    okc = isinstance(crops, ast.Call) and prog.resolve_call(fi, crops) == f"{PF}:crop_bboxes"
    res.ob(R, okc, fi.qualname, "regression runs on the crops", "integral regression is not applied to the crops", where)
    if okc:
        b = astq.bind_args(prog.func(f"{PF}:crop_bboxes"), crops)
        tm = T(b.get("images"))
        forms = {f"torch.reshape({maps},[{S_}*{C_},1,{H_},{W_}])", f"{maps}.reshape({S_}*{C_},1,{H_},{W_})", f"{maps}.view({S_}*{C_},1,{H_},{W_})", f"{maps}.reshape(-1,1,{H_},{W_})",
                 f"torch.reshape({maps},({S_}*{C_},1,{H_},{W_}))", f"{maps}.reshape([{S_}*{C_},1,{H_},{W_}])"}
        res.ob(R, tm in forms, fi.qualname, "maps flattened the same way, (samples*channels, 1, H, W)", f"maps are reshaped as `{short(b.get('images'), 60)}`", where)
        res.ob(R, tm in forms, fi.qualname, "samples/channels from dims 0/1", "samples/channels read from other dims", where)
        res.ob(R, T(b.get("sample_inds")) == ti, fi.qualname, "patches cut from map valid_idx[i] for box i",
               "crop_bboxes does not receive valid_idx as the per-box map index: the patch of a peak is cut from another channel's map", where)
        bx = b.get("bboxes")
        okb = isinstance(bx, ast.Call) and prog.resolve_call(fi, bx) == "sleap_nn.data.instance_cropping:make_centered_bboxes"
        if okb:
            b3 = astq.bind_args(prog.func("sleap_nn.data.instance_cropping:make_centered_bboxes"), bx)
            tc = T(b3.get("centroids"))
            okv = tfl is not None and tc == f"{tfl}[{ti}]"
            res.ob(R, okv, fi.qualname, "boxes are built for rough_peaks[valid_idx]", f"boxes are built for `{short(b3.get('centroids'), 50)}`", where)
            okb = okv and T(b3.get("box_height")) == T(b3.get("box_width")) and T(b3.get("box_height")) in (n, "integral_patch_size")
        res.ob(R, okb, fi.qualname, "patch boxes centred on the valid peaks", "patch boxes are not centred on the valid peaks with the patch size", where)
    # the patches are cut only when some peak is valid: the crop is reached only through a test of `isnan(rough).all()`
    # (with no valid peak the box tensor is empty and crop_bboxes indexes bboxes[0])
    from ..core.cfg import CFG as _CFG
    cfg_ = _CFG(fn)
    crops_ = [c_ for c_, q_ in prog.calls_in(fi) if q_ == f"{PF}:crop_bboxes"]
    tests_ = set()
    for t_ in walk_function(fn):
        if isinstance(t_, ast.If):
            te_ = astq.expand_at(fn, t_.test, t_)
            # isnan(x).all() / torch.all(isnan(x)) / not (~isnan(x)).any() / the emptiness of where(~isnan(x))  (the quantifier itself: C12-exist)
            quant_ = any(isinstance(c_, ast.Call) and "isnan(" in norm(c_) and (
                (isinstance(c_.func, ast.Attribute) and c_.func.attr in ("all", "any", "numel", "nelement", "size")) or norm(c_.func) in ("all", "any", "len"))
                for c_ in ast.walk(te_))
            quant_ = quant_ or any(isinstance(a_, ast.Attribute) and a_.attr == "shape" and "isnan(" in norm(a_.value) for a_ in ast.walk(te_))
            if quant_:
                tests_ |= set(cfg_.nodes_of(t_))
    for c_ in crops_:
        w_ = cfg_.must_pass([cfg_.entry], cfg_.stmt_nodes_containing(c_), tests_)
        res.ob(R, w_ is None, fi.qualname, "no crop without a valid peak (all-NaN batches return the rough result)",
               f"crop_bboxes is reached without testing whether ANY rough peak is valid ({cfg_.path_str(w_) if w_ else ''}): when every map is below the threshold the box list is "
               "empty and the refinement raises instead of returning NaN peaks with value 0", where)
    # returns
    rets = [n_ for n_ in walk_function(fn) if isinstance(n_, ast.Return)]
    n_ref = 0
    for r in rets:
        el = r.value.elts if isinstance(r.value, ast.Tuple) else []
        ok = len(el) == 2 and norm(el[1]) == vals
        first = norm(el[0]) if ok else "?"
        if ok and first != rough and T(astq.expand_at(fn, el[0], r)) in {f"{f}.{m_}({S_},{C_},2)" for f in flat_forms for m_ in ("reshape", "view")}:
            first = rough      # the flattened rough peaks folded back to (samples, channels, 2): the rough result itself
        if ok and first != rough:
            n_ref += 1
            fx = T(astq.expand_at(fn, el[0], r))
            ok = fx in {f"{f}.clone().reshape({S_},{C_},2)" for f in flat_forms} | {f"{f}.clone().view({S_},{C_},2)" for f in flat_forms}
            # the returned clone is the one updated in place: there is one .clone() in the function and both expand to it
            n_clones = len([c for c in walk_function(fn) if isinstance(c, ast.Call) and isinstance(c.func, ast.Attribute) and c.func.attr == "clone"])
            res.ob(R, ok and n_clones == 1, fi.qualname, "result reshaped back to (samples, channels, 2)",
                   f"the refined result is `{short(el[0], 40)}` = `{fx[:80]}`: not the updated clone reshaped back to (samples, channels, 2)", f"{fi.module.relpath}:{r.lineno}")
        res.ob(R, ok, fi.qualname, f"return ({first}, values of the rough detection)", f"a return path yields `{short(r.value, 50)}`", f"{fi.module.relpath}:{r.lineno}")
    res.ob(R, n_ref == 1, fi.qualname, "one refined return path", f"{n_ref} refined return paths", fi.where)
    # crop_bboxes: crop of images[sample_inds] with the boxes
    cbf = prog.func(f"{PF}:crop_bboxes")
    res.touch(cbf)
    cr = [c for c in walk_function(cbf.node) if isinstance(c, ast.Call) and norm(c.func).split(".")[-1] == "crop_and_resize"]
    ok = len(cr) == 1
    if ok:
        im = astq.expand_at(cbf.node, cr[0].args[0] if cr[0].args else astq.call_arg(cr[0], 0, "input_tensor"), enclosing_stmt(cr[0]))
        bx = astq.expand_at(cbf.node, astq.call_arg(cr[0], 1, "boxes"), enclosing_stmt(cr[0]))
        pm = cbf.pos_params
        ok = len(pm) >= 3 and norm(im) == f"{pm[0]}[{pm[2]}]" and norm(bx) == pm[1]
    res.ob(R, ok, cbf.qualname, "crop i is cut from images[sample_inds[i]] with box i", "crop_bboxes does not pair images[sample_inds] with the boxes", cbf.where)
    res.floor(R, 14)


def check(prog: Program, res: Result) -> None:
    check_joint(prog, res)
    check_mask(prog, res)
    check_valid(prog, res)
    from . import _wire, c12
    res.borrow(c12.check_exist, "C07-exist", prog)   # refinement skipped for the batch because SOME peak is NaN: the valid peaks stay unrefined
    _wire.check_peak_wiring(prog, res, "C07-wire")
    _wire.check_numeric_hygiene(prog, res, "C07-wire")
    res.assumptions.append("refinement bounds (half a patch) and 'refinement helps' are numerical and not decided")


F = "sleap_nn/inference/peak_finding.py"
ORIG = '''    max_values, max_indices = torch.max(cms.reshape(samples, channels, -1), dim=-1)
    max_indices_x = max_indices % width  # (samples, channels)
    max_indices_y = torch.div(max_indices, width, rounding_mode="floor")
'''
INDEP = '''    max_values, max_indices_y = torch.max(cms, dim=2, keepdim=True)
    max_values, max_indices_x = torch.max(max_values, dim=3, keepdim=True)
    max_indices_x = max_indices_x.squeeze(dim=(2, 3))  # (samples, channels)
    amax_values, amax_indices_x = torch.max(cms, dim=3, keepdim=True)
    amax_values, max_indices_y = torch.max(amax_values, dim=2, keepdim=True)
    max_indices_y = max_indices_y.squeeze(dim=(2, 3))
    max_values = max_values.squeeze(-1).squeeze(-1)
'''
VARIANTS = [
    Variant("joint-independent-argmax", F, ORIG, INDEP, "C07-joint"),
    Variant("joint-wrong-width", F, "    samples, channels, _, width = cms.shape\n", "    samples, channels, width, _ = cms.shape\n", "C07-joint"),
    Variant("joint-xy-swapped", F, "    max_indices_x = max_indices % width  # (samples, channels)\n    max_indices_y = torch.div(max_indices, width, rounding_mode=\"floor\")",
            "    max_indices_y = max_indices % width  # (samples, channels)\n    max_indices_x = torch.div(max_indices, width, rounding_mode=\"floor\")", "C07-joint"),
    Variant("mask-le", F, "    below_threshold_mask = max_values < threshold", "    below_threshold_mask = max_values > threshold", "C07-mask"),
    Variant("mask-values-not-zeroed", F, "    max_values[below_threshold_mask] = float(0)\n", "", "C07-mask"),
    Variant("mask-after-zero", F, "    below_threshold_mask = max_values < threshold\n    # Replace values below the threshold with NaN.\n    peak_points[below_threshold_mask] = float(\"nan\")\n    max_values[below_threshold_mask] = float(0)",
            "    max_values[max_values < threshold] = float(0)\n    below_threshold_mask = max_values < threshold\n    peak_points[below_threshold_mask] = float(\"nan\")", "C07-mask"),
    Variant("valid-crop-all", F, "    cm_crops = crop_bboxes(cms, bboxes, valid_idx)", "    cm_crops = crop_bboxes(cms, bboxes, torch.arange(len(bboxes)))", "C07-valid"),
    Variant("valid-offsets-all-rows", F, "    refined_peaks[valid_idx] += offsets", "    refined_peaks[: len(offsets)] += offsets", "C07-valid"),
    Variant("valid-no-clone", F, "    refined_peaks = rough_peaks.clone()", "    refined_peaks = rough_peaks", "C07-valid"),
    Variant("valid-uncentred-grid", F, "        gv = torch.arange(crop_size, dtype=torch.float32) - ((crop_size - 1) / 2)\n        dx_hat, dy_hat = integral_regression(cm_crops, xv=gv, yv=gv)\n        offsets = torch.cat([dx_hat, dy_hat], dim=1)\n\n    # Apply offsets.\n    refined_peaks = rough_peaks.clone()",
            "        gv = torch.arange(crop_size, dtype=torch.float32) - (crop_size / 2)\n        dx_hat, dy_hat = integral_regression(cm_crops, xv=gv, yv=gv)\n        offsets = torch.cat([dx_hat, dy_hat], dim=1)\n\n    # Apply offsets.\n    refined_peaks = rough_peaks.clone()", "C07-valid"),
    Variant("bp-floor-div-op", F, "    max_indices_y = torch.div(max_indices, width, rounding_mode=\"floor\")", "    max_indices_y = max_indices // width", None),
]
