"""C04 — images and keypoints stay registered through all geometric preprocessing (E2)."""

from __future__ import annotations

import ast
import os
from typing import Dict, List

from ..core import astq
from ..core.program import AnalysisError, Program, ancestors, enclosing_stmt, norm, short, walk_function
from ..engines.geom import Interp
from ..engines.geomval import Cfg, Const, Geo, HDict, Mismatch, Mono, Num, Other, Ref, Top, Tup
from ..report import Result
from ..runner import Variant
from . import _train

PROP = "C04"
EXPLANATION = (
    "Coordinate-frame abstract interpretation (as C02) of the training-data code: for each of the four Dataset classes (cache "
    "fill + __getitem__, in-memory and .npz branch), the four chunk functions followed by their streaming __getitem__, and the "
    "functional helpers, the image and the keypoints/centroids carry the same monomial (eff_scale, scale, augmentation "
    "transform) and the same set of crop origins wherever they are consumed together: at every target generator "
    "(points vs the image whose shape gives the grid), every crop (boxes vs image), every augmenter call, and in the "
    "returned sample. Structural premises of the leaf contracts are checked separately: size matching returns the very "
    "ratio it resized with and pads right/bottom; resize_image scales both sides by the same factor; every F.pad has 0 "
    "in the left/top slots; each crop is cut with the (h, w) the box was built with; the corner subtracted is corner 0; "
    "every class put on the intensity stack is a kornia intensity augmentation (cannot move keypoints); both augmenters "
    "are AugmentationSequential(data_keys=[input, keypoints]) whose second output is what is returned."
)
TRUSTED = [
    "CPython ast", "leaf transfer table of sa/engines/geomleaf.py", "kornia AugmentationSequential applies one sampled transform to all data_keys",
    "kornia intensity augmentations do not change geometry (class hierarchy read from the kornia sources on disk, parsed not imported)",
]
RS = "sleap_nn.data.resizing"


def _feed(res: Result, run: "_train.TrainRun", prefix: str = "C04") -> None:
    I = run.I
    for q in I.calls_interpreted:
        if q in I.prog.functions:
            res.touch(I.prog.functions[q])
    seen = set()
    for ob in I.obligations:
        if ob.rule == "R-centre":
            # where a crop is centred is not a registration fact (see DESIGN.md, observation D12)
            res.extra.setdefault("crop_centring", {})[f"{run.name}: {ob.construct[:90]}"] = ob.ok
            continue
        rule = {"R-reg": f"{prefix}-reg", "R-pad": f"{prefix}-pad", "R-corner": f"{prefix}-corner"}.get(ob.rule, ob.rule)
        key = (rule, ob.construct)
        if key in seen:
            continue
        seen.add(key)
        if ob.ok is None:
            res.inconclusive(f"[{run.name}] {rule}: {ob.message}")
            continue
        res.ob(rule, ob.ok, f"pipeline[{run.name}]", ob.construct, f"[{run.name}] {ob.message}", ob.where, derivation=ob.derivation,
               sample={"pipeline": run.name, "obligation": ob.construct})
    spec = _train.MODEL_TYPES[run.mtype]
    cells = run.cells()
    img, pts = cells.get(spec["image"]), cells.get(spec["points"])
    if not cells:
        res.inconclusive(f"[{run.name}] __getitem__ returns {run.sample!r}")
        return
    for v, what in ((img, spec["image"]), (pts, spec["points"])):
        if isinstance(v, Mismatch):
            res.ob(f"{prefix}-reg", False, f"pipeline[{run.name}]", f"returned sample['{what}'] has one frame", f"[{run.name}] sample['{what}'] has no single frame: {v!r}", "")
        elif not isinstance(v, Geo):
            res.inconclusive(f"[{run.name}] sample['{what}'] is {v!r}")
    if isinstance(img, Geo) and isinstance(pts, Geo):
        ok = (img.mono, img.offs) == (pts.mono, pts.offs)
        res.ob(f"{prefix}-reg", ok, f"pipeline[{run.name}]", f"returned sample: {spec['image']} {img!r} / {spec['points']} {pts!r}",
               f"[{run.name}] the returned sample holds the image in frame {img!r} but the keypoints in frame {pts!r}", "",
               sample={"pipeline": run.name, "image": repr(img), "points": repr(pts)})
    res.extra.setdefault("pipelines", {})[run.name] = {
        "image": _train.canon(img) if img is not None else None, "points": _train.canon(pts) if pts is not None else None,
        "target_calls": [{k: v for k, v in t.items() if k in ("generator", "caller")} for t in I.leaves.target_calls][:4],
        "assumed_passthrough": dict(I.assumed_passthrough), "tops": I.tops[:4],
    }


def check_pipelines(prog: Program, res: Result) -> None:
    n = 0
    for mtype in _train.MODEL_TYPES:
        for npz in (False, True):
            _feed(res, _train.run_dataset(prog, mtype, npz))
            n += 1
        _feed(res, _train.run_streaming(prog, mtype))
        n += 1
    res.count("C04-pipelines", n)
    # functional helper: apply_resizer keeps image and keypoints together
    I = Interp(prog)
    out = I.call_function(prog.func(f"{RS}:apply_resizer"), [Geo("IMG"), Geo("PTS"), _train.SCALE], {})
    ok = isinstance(out, Tup) and len(out.elts) == 2 and isinstance(out.elts[0], Geo) and isinstance(out.elts[1], Geo) and out.elts[0].mono == out.elts[1].mono and not out.elts[0].mono.is_one()
    res.ob("C04-reg", ok, f"{RS}:apply_resizer", f"apply_resizer(IMG<1>, PTS<1>, scale) -> {out!r}", f"apply_resizer returns {out!r}: image and keypoints are not scaled alike", "",
           sample=repr(out))


def _axis_of(e: ast.AST, img: str):
    """-2 / -1 when `e` is that side of `img`'s shape: img.shape[-2], img.shape[-2:][0], img.size(-2)."""
    def ci(x):
        if isinstance(x, ast.UnaryOp) and isinstance(x.op, ast.USub) and isinstance(x.operand, ast.Constant) and isinstance(x.operand.value, int):
            return -x.operand.value
        return x.value if isinstance(x, ast.Constant) and isinstance(x.value, int) and not isinstance(x.value, bool) else None
    if isinstance(e, ast.Call) and isinstance(e.func, ast.Attribute) and e.func.attr == "size" and norm(e.func.value) == img and len(e.args) == 1:
        return ci(e.args[0]) if ci(e.args[0]) in (-2, -1) else None
    if not isinstance(e, ast.Subscript):
        return None
    k = ci(e.slice)
    if norm(e.value) == f"{img}.shape":
        return k if k in (-2, -1) else None
    b = e.value
    if isinstance(b, ast.Subscript) and norm(b.value) == f"{img}.shape" and isinstance(b.slice, ast.Slice) and b.slice.upper is None and b.slice.step is None \
            and b.slice.lower is not None and ci(b.slice.lower) == -2 and k in (0, 1, -2, -1):
        return {0: -2, 1: -1, -2: -2, -1: -1}[k]
    return None


def _is_scaled_resize(v: ast.AST, img: str, sc: str) -> bool:
    """v is  <...>.resize(img, size=[int(H * sc), int(W * sc)])  with H, W the last two sides of img (in that order)."""
    if not (isinstance(v, ast.Call) and norm(v.func).split(".")[-1] == "resize"):
        return False
    a0, size = astq.call_arg(v, 0, "img"), astq.call_arg(v, 1, "size")
    if a0 is None or norm(a0) != img or not (isinstance(size, (ast.List, ast.Tuple)) and len(size.elts) == 2):
        return False
    for e, ax in zip(size.elts, (-2, -1)):
        if not (isinstance(e, ast.Call) and norm(e.func) == "int" and len(e.args) == 1 and isinstance(e.args[0], ast.BinOp) and isinstance(e.args[0].op, ast.Mult)):
            return False
        l, r = e.args[0].left, e.args[0].right
        if not ((norm(r) == sc and _axis_of(l, img) == ax) or (norm(l) == sc and _axis_of(r, img) == ax)):
            return False
    return True


def _scale_is_one(conds, sc: str):
    """True / False when the branch decisions say `sc == 1` / `sc != 1`; None when they say something else."""
    verdict = None
    for t, taken in conds:
        if not (isinstance(t, ast.Compare) and len(t.ops) == 1 and isinstance(t.ops[0], (ast.Eq, ast.NotEq))):
            return None
        a, b = t.left, t.comparators[0]
        if norm(a) != sc:
            a, b = b, a
        if norm(a) != sc or astq.const_value(b) != 1:
            return None
        is_one = taken if isinstance(t.ops[0], ast.Eq) else not taken
        if verdict is not None and verdict != is_one:
            return None
        verdict = is_one
    return verdict


def check_contract_premises(prog: Program, res: Result) -> None:
    R = "C04-leaf"
    fi = prog.func(f"{RS}:apply_sizematcher")
    res.touch(fi)
    # Symbolic reading of apply_sizematcher, independent of how it is spelled: expand named intermediates, turn if/else
    # joins into conditional expressions, and look at every consistent resolution (case) of the conditions.
    fn = fi.node
    rz = [c for c in walk_function(fn) if isinstance(c, ast.Call) and norm(c.func).split(".")[-1] == "resize"]
    res.ob(R, len(rz) == 1, fi.qualname, "one resize call", f"{len(rz)} resize calls", fi.where)
    rets = [n for n in walk_function(fn) if isinstance(n, ast.Return) and isinstance(n.value, ast.Tuple) and len(n.value.elts) == 2]
    ident = [r for r in rets if astq.const_value(r.value.elts[1]) == 1.0]
    scaled = [r for r in rets if r not in ident]
    res.ob(R, len(ident) == 1 and len(scaled) == 1, fi.qualname, "returns (image, ratio), and (image, 1.0) when nothing changes",
           f"returns {sorted(norm(r.value) for r in rets)}", fi.where)
    pads = [c for c in walk_function(fn) if isinstance(c, ast.Call) and norm(c.func).split(".")[-1] == "pad"]
    H, W = "max_height / img_height", "max_width / img_width"
    if len(rz) == 1 and len(scaled) == 1:
        size = astq.call_arg(rz[0], 1, "size")
        size = astq.fold_literal_index(astq.expand_phi(fn, size))       # (a, b)[1] of a named size pair is b
        ratio = astq.expand_phi(fn, scaled[0].value.elts[1])
        pad = astq.fold_literal_index(astq.expand_phi(fn, astq.call_arg(pads[0], 1, "pad"))) if len(pads) == 1 else None
        ok_shape = isinstance(size, (ast.Tuple, ast.List)) and len(size.elts) == 2
        res.ob(R, ok_shape, fi.qualname, "resize to a (height, width) pair", f"the resize size is `{short(size, 60) if size is not None else '?'}`", fi.where)
        if ok_shape:
            combo = ast.Tuple(elts=[size.elts[0], size.elts[1], ratio] + (list(pad.elts) if isinstance(pad, ast.Tuple) and len(pad.elts) == 4 else []), ctx=ast.Load())
            cs = astq.cases(combo)
            res.ob(R, 1 <= len(cs) <= 4, fi.qualname, "aspect-ratio decision resolved", f"{len(cs)} cases", fi.where)
            seen_r = set()
            for choice, c in cs:
                th, tw, r = c.elts[0], c.elts[1], c.elts[2]
                rt = norm(r)
                if isinstance(r, ast.Call) and norm(r.func) == "min" and {norm(a) for a in r.args} == {H, W}:
                    smaller_ok, rt_ok = True, True
                else:
                    rt_ok = rt in (H, W)
                    smaller_ok = None
                seen_r.add(rt)
                where = f"{fi.module.relpath}:{rz[0].lineno}"

                def _side(e, dim):
                    # int(round(dim * r))
                    if isinstance(e, ast.Call) and norm(e.func) == "int" and e.args and isinstance(e.args[0], ast.Call) and norm(e.args[0].func) == "round" and e.args[0].args:
                        return astq.same_product(e.args[0].args[0], dim, rt)
                    return False

                res.ob(R, rt_ok and _side(th, "img_height") and _side(tw, "img_width"), fi.qualname,
                       f"case {sorted(k for k, v in choice.items() if v) or 'else'}: both sides resized by the returned ratio",
                       f"when {choice or 'always'}: the image is resized to ({short(th, 50)}, {short(tw, 50)}) but the returned eff_scale is `{short(r, 40)}`: keypoints scaled "
                       "by eff_scale no longer match the image", where)
                # the smaller ratio is chosen: under `A > B` the value is B, otherwise A (also <, >=, <= and swapped operands)
                if smaller_ok is None and len(choice) == 1:
                    (t, val), = choice.items()
                    try:
                        te = astq.expand_phi(fn, ast.parse(t, mode="eval").body)
                    except SyntaxError:
                        te = None
                    smaller_ok = False
                    if isinstance(te, ast.Compare) and len(te.ops) == 1 and {norm(te.left), norm(te.comparators[0])} == {H, W}:
                        a, b = norm(te.left), norm(te.comparators[0])
                        if isinstance(te.ops[0], (ast.Gt, ast.GtE)):
                            small_if_true, small_if_false = b, a
                        elif isinstance(te.ops[0], (ast.Lt, ast.LtE)):
                            small_if_true, small_if_false = a, b
                        else:
                            small_if_true = small_if_false = None
                        smaller_ok = rt == (small_if_true if val else small_if_false)
                res.ob(R, bool(smaller_ok), fi.qualname, "the smaller ratio is used (image fits inside max height/width)",
                       f"when {choice}: the ratio `{rt}` is not the smaller of the two: the resized image exceeds the target and is cropped by the padding step", where)
                if len(c.elts) == 7:
                    l, rgt, tp, bt = c.elts[3:]
                    okp = astq.const_value(l) == 0 and astq.const_value(tp) == 0 and norm(rgt) == f"max_width - {norm(tw)}" and norm(bt) == f"max_height - {norm(th)}"
                    res.ob(R, okp, fi.qualname, "padding fills max - target at the right/bottom", f"the padding is ({short(l,10)}, {short(rgt,40)}, {short(tp,10)}, {short(bt,40)})", where)
            res.ob(R, seen_r <= {H, W, f"min({H}, {W})", f"min({W}, {H})"} and len(seen_r) >= 1, fi.qualname, "ratios = max/actual", f"ratios are {sorted(seen_r)}", fi.where)
    # the unchanged image is handed back only when BOTH sides already have the target size; one equal side (ratio 1) with the
    # other side smaller still needs the bottom/right padding, or samples of one dataset come out at different sizes
    prs = astq.path_returns(fn)
    n_ident = 0
    for conds, v in prs or []:
        if not (isinstance(v, ast.Tuple) and len(v.elts) == 2 and astq.const_value(v.elts[1]) == 1.0 and norm(v.elts[0]) == fi.params[0]):
            continue
        n_ident += 1
        eq = set()
        for t, taken in conds:
            parts = []
            if isinstance(t, ast.BoolOp) and isinstance(t.op, ast.Or) and not taken:
                parts = [(x, False) for x in t.values]     # not (a or b)  =  not a and not b
            elif isinstance(t, ast.BoolOp) and isinstance(t.op, ast.And) and taken:
                parts = [(x, True) for x in t.values]
            else:
                parts = [(t, taken)]
            # (h, w) == (max_h, max_w) compares side by side
            split = []
            for x, tk in parts:
                if isinstance(x, ast.Compare) and len(x.ops) == 1 and isinstance(x.ops[0], (ast.Eq, ast.NotEq)) and isinstance(x.left, (ast.Tuple, ast.List)) \
                        and isinstance(x.comparators[0], (ast.Tuple, ast.List)) and len(x.left.elts) == len(x.comparators[0].elts) and (isinstance(x.ops[0], ast.Eq) == tk):
                    split += [(ast.Compare(left=a_, ops=[ast.Eq()], comparators=[b_]), True) for a_, b_ in zip(x.left.elts, x.comparators[0].elts)]
                else:
                    split.append((x, tk))
            parts = split
            for x, tk in parts:
                if isinstance(x, ast.Compare) and len(x.ops) == 1 and isinstance(x.ops[0], (ast.Eq, ast.NotEq)) and (isinstance(x.ops[0], ast.Eq) == tk):
                    def _tgt(e_):
                        # `img_h if max_height is None else max_height`: the target, defaulted to the image's own size
                        if isinstance(e_, ast.IfExp) and isinstance(e_.test, ast.Compare) and len(e_.test.ops) == 1 and isinstance(e_.test.ops[0], (ast.Is, ast.IsNot)) \
                                and astq.const_value(e_.test.comparators[0]) is None and isinstance(e_.test.left, ast.Name):
                            dflt, given = (e_.body, e_.orelse) if isinstance(e_.test.ops[0], ast.Is) else (e_.orelse, e_.body)
                            if norm(given) == e_.test.left.id and ".shape" in norm(dflt):
                                return e_.test.left.id
                        return norm(e_)
                    sides = {_tgt(x.left), _tgt(x.comparators[0])}
                    for dim, prm in (("h", "max_height"), ("w", "max_width")):
                        if prm in sides and any(".shape" in s_ for s_ in sides - {prm}):
                            eq.add(dim)
                elif isinstance(x, ast.Compare) and len(x.ops) == 1 and isinstance(x.ops[0], ast.Is) and tk and astq.const_value(x.comparators[0]) is None:
                    for dim, prm in (("h", "max_height"), ("w", "max_width")):
                        if norm(x.left) == prm:
                            eq.add(dim)        # the target defaults to the image's own size
        res.ob(R, eq == {"h", "w"}, fi.qualname, "identity only when height AND width already match the target",
               f"apply_sizematcher returns the image unchanged on a path that only establishes {sorted(eq) or 'nothing'} of (height == max_height, width == max_width) "
               f"({'; '.join(('' if tk else 'not ') + short(t, 50) for t, tk in conds)}): a frame that needs padding only keeps its size", fi.where)
    res.ob(R, prs is None or n_ident >= 1, fi.qualname, "an identity path exists", "apply_sizematcher has no path that returns the image unchanged with ratio 1.0", fi.where)
    ri = prog.func(f"{RS}:resize_image")
    res.touch(ri)
    pr = astq.path_returns(ri.node)
    ok = bool(pr) and all(v is not None and _is_scaled_resize(v, ri.params[0], ri.params[1]) for _, v in pr)
    res.ob(R, ok, ri.qualname, "new size = (H*scale, W*scale)", f"resize_image returns `{short(pr[0][1], 90) if pr and pr[0][1] is not None else '?'}`, not the image resized to "
           "[int(H*scale), int(W*scale)]", ri.where)
    ar = prog.func(f"{RS}:apply_resizer")
    pa = astq.path_returns(ar.node)
    img, pts, sc = ar.params[:3]
    ok, why = bool(pa), "apply_resizer is not a loop-free function of (image, instances, scale)"
    for conds, v in pa or []:
        unit = _scale_is_one(conds, sc)
        if unit is None or not (isinstance(v, ast.Tuple) and len(v.elts) == 2):
            ok, why = False, f"apply_resizer branches on something other than `{sc} == 1` / returns no (image, instances) pair"
            break
        vi, vp = v.elts
        if unit:
            good = norm(vi) == img and norm(vp) == pts
            bad = f"with {sc} == 1 apply_resizer returns `{short(v, 80)}`, not its inputs"
        else:
            direct = _is_scaled_resize(vi, img, sc)
            via = isinstance(vi, ast.Call) and norm(vi.func).split(".")[-1] == "resize_image" and [norm(a) for a in (astq.call_arg(vi, 0, ri.params[0]), astq.call_arg(vi, 1, ri.params[1]))] == [img, sc]
            good = (direct or via) and astq.same_product(vp, pts, sc)
            bad = f"with {sc} != 1 apply_resizer returns `{short(v, 100)}`, not (image resized by {sc}, {pts} * {sc})"
        if not good:
            ok, why = False, bad
            break
    res.ob(R, ok, ar.qualname, "identity when scale == 1, else (resized image, instances * scale)", why, ar.where)
    ap = prog.func(f"{RS}:find_padding_for_stride")
    res.touch(ap)
    rts = [n for n in walk_function(ap.node) if isinstance(n, ast.Return) and isinstance(n.value, ast.Tuple) and len(n.value.elts) == 2]
    d = [astq.norm(astq.expand_at(ap.node, e, rts[0])).replace(" ", "") for e in rts[0].value.elts] if len(rts) == 1 else []
    pm = ap.pos_params

    def _pad_form(t, size):
        s_ = pm[2] if len(pm) > 2 else "max_stride"
        return t in (f"({s_}-{size}%{s_})%{s_}", f"-{size}%{s_}", f"(-{size})%{s_}", f"({s_}-({size}%{s_}))%{s_}")

    ok = len(d) == 2 and len(pm) >= 3 and _pad_form(d[0], pm[0]) and _pad_form(d[1], pm[1])
    res.ob(R, ok, ap.qualname, "pad = (s - size % s) % s per side", f"padding is computed as {d}", ap.where)
    aps = prog.func(f"{RS}:apply_pad_to_stride")
    # the pad widths of the F.pad call: (0, pad for the WIDTH axis, 0, pad for the HEIGHT axis), each the padding of its own
    # axis - through find_padding_for_stride(height, width, stride) or computed in place with the same formula
    pads = [c for c, q in prog.calls_in(aps) if q == "torch.nn.functional.pad"]
    ok = len(pads) == 1
    why = "no single F.pad call"
    if ok:
        tup = astq.deref(aps.node, astq.call_arg(pads[0], 1, "pad"))
        at = enclosing_stmt(pads[0])
        ok = isinstance(tup, ast.Tuple) and len(tup.elts) == 4

        def axis_of(e) -> str:
            """which image axis the pad expression belongs to: 'H', 'W' or a description of what else it is"""
            x = astq.expand_at(aps.node, e, at, unpack_calls=True)
            if isinstance(x, ast.Subscript) and isinstance(x.value, ast.Call) and prog.resolve_call(aps, x.value) == ap.qualname and astq.const_value(x.slice) in (0, 1):
                bb = {k_: astq.dims(norm(astq.expand_at(aps.node, v_, at))).replace(" ", "") for k_, v_ in astq.bind_args(ap, x.value).items()}
                if bb.get(pm[0]) in ("image.shape[-2]", "image.shape[-2:][0]") and bb.get(pm[1]) in ("image.shape[-1]", "image.shape[-2:][1]") and bb.get(pm[2]) == "max_stride":
                    return "HW"[astq.const_value(x.slice)]
                return f"find_padding_for_stride({bb})"
            t = astq.dims(norm(x)).replace(" ", "")
            for ax, names in (("H", ("image.shape[-2]", "image.shape[-2:][0]")), ("W", ("image.shape[-1]", "image.shape[-2:][1]"))):
                for nme in names:
                    if t in (f"(max_stride-{nme}%max_stride)%max_stride", f"-{nme}%max_stride", f"(-{nme})%max_stride", f"(max_stride-({nme}%max_stride))%max_stride"):
                        return ax
            return t[:60]

        if ok:
            got = (axis_of(tup.elts[1]), axis_of(tup.elts[3]))
            ok = got == ("W", "H")
            why = f"F.pad pads the last axis by the padding of {got[0]} and the second-to-last by that of {got[1]}"
    res.ob(R, ok, aps.qualname, "height/width taken from the last two axes in that order", f"apply_pad_to_stride mixes up height and width ({why})", aps.where)
    # every F.pad of the data package pads right/bottom only (also inside contracted functions)
    n_pad = 0
    for f2 in prog.all_functions():
        if not f2.module.name.startswith("sleap_nn.data"):
            continue
        for c, q in prog.calls_in(f2):
            if q == "torch.nn.functional.pad":
                n_pad += 1
                res.touch(f2)
                pad = astq.deref(f2.node, astq.call_arg(c, 1, "pad"))
                ok = isinstance(pad, ast.Tuple) and len(pad.elts) == 4 and astq.const_value(pad.elts[0]) == 0 and astq.const_value(pad.elts[2]) == 0
                res.ob("C04-pad", ok, f2.qualname, f"F.pad{norm(pad) if pad is not None else '?'} pads right/bottom only",
                       f"`{short(c, 60)}` pads on the left/top: image content moves while keypoints stay", f"{f2.module.relpath}:{c.lineno}")
    res.ob("C04-pad", n_pad >= 3, "sleap_nn.data", "F.pad sites of the data package found", f"only {n_pad} F.pad sites", "")
    res.floor(R, 9)


def check_size(prog: Program, res: Result) -> None:
    """Each crop is cut with the size the box was built with."""
    R = "C04-size"
    n = 0
    for fi in prog.all_functions():
        crops = [c for c, q in prog.calls_in(fi) if q == "kornia.geometry.transform.crop_and_resize"]
        for c in crops:
            boxes = astq.call_arg(c, 1, "boxes")
            size = astq.call_arg(c, 2, "size")
            bd = astq.deref(fi.node, boxes)
            if isinstance(boxes, ast.Subscript):  # sample["instance_bbox"]
                defs = [s for s in walk_function(fi.node) if isinstance(s, ast.Assign) and norm(s.targets[0]) == norm(boxes)]
                bd = astq.expand_at(fi.node, defs[0].value, defs[0]) if len(defs) == 1 else None
            elif bd is not None:
                bd = astq.expand_at(fi.node, bd, enclosing_stmt(c)) or bd
            mk = [x for x in ast.walk(bd) if isinstance(x, ast.Call) and norm(x.func).endswith("make_centered_bboxes")] if bd is not None else []
            if not mk:
                if fi.name == "crop_bboxes":
                    continue
                res.inconclusive(f"{fi.qualname}: cannot find the make_centered_bboxes call behind `{short(boxes, 30) if boxes is not None else '?'}`")
                continue
            n += 1
            res.touch(fi)
            h, w = (mk[0].args + [None, None, None])[1:3]
            ok = False
            if h is not None and w is not None and size is not None:
                hx, wx = astq.xnorm(fi.node, h), astq.xnorm(fi.node, w)
                sz = astq.expand(fi.node, size)
                if isinstance(sz, (ast.Tuple, ast.List)) and len(sz.elts) == 2:
                    ok = norm(sz.elts[0]) == hx and norm(sz.elts[1]) == wx
                if not ok:
                    ok = any(hx == f"{z}[0]" and wx == f"{z}[1]" for z in (norm(sz), norm(size)))
            res.ob(R, ok, fi.qualname, f"crop size {short(size, 30) if size is not None else '?'} == box size ({short(h, 20) if h is not None else '?'}, {short(w, 20) if w is not None else '?'})",
                   f"the crop is resampled to `{short(size, 30) if size is not None else '?'}` but its box was built {short(h, 20) if h is not None else '?'} x {short(w, 20) if w is not None else '?'}: "
                   "the crop is rescaled and the keypoints (shifted by the box corner only) no longer match", f"{fi.module.relpath}:{c.lineno}")
    # crop_bboxes derives the size from the boxes themselves
    cb = prog.func("sleap_nn.inference.peak_finding:crop_bboxes")
    cc = [c for c, q in prog.calls_in(cb) if q == "kornia.geometry.transform.crop_and_resize"]
    szx = norm(astq.flat_subs(astq.expand_at(cb.node, astq.call_arg(cc[0], 2, "size"), enclosing_stmt(cc[0])))).replace(" ", "") if len(cc) == 1 else ""
    d = {"box_size": szx}
    # corners are listed clockwise from the top-left: 0 TL, 1 TR, 2 BR, 3 BL.  The height is the |y| extent of a vertical
    # side, the width the |x| extent of a horizontal side, of the FIRST box, plus one (both ends inclusive).
    import re as _re
    m_ = _re.search(r"\(abs\(bboxes\[0,(\d),1\]-bboxes\[0,(\d),1\]\)\+1,abs\(bboxes\[0,(\d),0\]-bboxes\[0,(\d),0\]\)\+1\)", szx)
    ok = bool(m_) and {m_.group(1), m_.group(2)} in ({"0", "3"}, {"1", "2"}) and {m_.group(3), m_.group(4)} in ({"0", "1"}, {"2", "3"})
    res.ob(R, ok, cb.qualname, "crop_bboxes size = (box height + 1, box width + 1)", f"crop_bboxes derives its size as {d.get('box_size')}", cb.where)
    res.floor(R, 3)


def _kornia_intensity_classes() -> Dict[str, str]:
    """class name -> base, for every class defined under kornia/augmentation/_2d/intensity (parsed, not imported)."""
    out: Dict[str, str] = {}
    import sys

    for sp in [p for p in sys.path if p.endswith("site-packages")] + ["/venv/lib/python3.12/site-packages"]:
        d = os.path.join(sp, "kornia", "augmentation", "_2d", "intensity")
        if os.path.isdir(d):
            for fn in sorted(os.listdir(d)):
                if fn.endswith(".py"):
                    try:
                        tree = ast.parse(open(os.path.join(d, fn)).read())
                    except SyntaxError:
                        continue
                    for n in tree.body:
                        if isinstance(n, ast.ClassDef):
                            out[n.name] = ",".join(norm(b) for b in n.bases)
            break
    return out


def check_aug(prog: Program, res: Result) -> None:
    AU = "sleap_nn.data.augmentation"
    kint = _kornia_intensity_classes()
    res.extra["kornia_intensity_classes_found"] = len(kint)
    if not kint:
        res.inconclusive("kornia sources not found on disk: cannot classify the intensity stack")
    fi = prog.func(f"{AU}:apply_intensity_augmentation")
    res.touch(fi)
    apps = [c for c in astq.method_calls(fi.node, "append") if norm(c.func.value) == "aug_stack"]
    for c in apps:
        cls = c.args[0].func if c.args and isinstance(c.args[0], ast.Call) else None
        name = norm(cls).split(".")[-1] if cls is not None else "?"
        q = prog.resolve_call(fi, c.args[0]) if c.args and isinstance(c.args[0], ast.Call) else ""
        ok = False
        if q in prog.classes:
            ok = any("IntensityAugmentationBase2D" in b for b in prog.external_bases(prog.classes[q]) + prog.classes[q].bases)
        elif name in kint:
            ok = "IntensityAugmentationBase2D" in kint[name]
        res.ob("C04-int", ok, fi.qualname, f"{name} is an intensity augmentation", f"`{name}` on the intensity stack is not a kornia IntensityAugmentationBase2D: it can move pixels while "
               "callers treat the keypoints as unchanged", f"{fi.module.relpath}:{c.lineno}", sample={"class": name, "bases": kint.get(name)})
    res.floor("C04-int", 4)
    for fname in ("apply_intensity_augmentation", "apply_geometric_augmentation"):
        f2 = prog.func(f"{AU}:{fname}")
        res.touch(f2)
        seq = [c for c, q in prog.calls_in(f2) if q.endswith("AugmentationSequential")]
        ok = len(seq) == 1
        if ok:
            dk = [k.value for k in seq[0].keywords if k.arg == "data_keys"]
            ok = len(dk) == 1 and isinstance(dk[0], ast.List) and [astq.const_value(e) for e in dk[0].elts] == ["input", "keypoints"]
            ok = ok and any(isinstance(a, ast.Starred) and norm(a.value) == "aug_stack" for a in seq[0].args)
        res.ob("C04-geo", ok, f2.qualname, "AugmentationSequential(*aug_stack, data_keys=['input', 'keypoints'])",
               "the augmenter is not built over aug_stack with data_keys=['input','keypoints']: keypoints are not transformed with the image", f2.where)
        callsite = [s for s in walk_function(f2.node) if isinstance(s, ast.Assign) and isinstance(s.value, ast.Call) and norm(s.value.func) == "augmenter"]
        ok = len(callsite) == 1 and isinstance(callsite[0].targets[0], ast.Tuple) and len(callsite[0].targets[0].elts) == 2 and len(callsite[0].value.args) == 2
        rets = [n for n in walk_function(f2.node) if isinstance(n, ast.Return)]
        if ok:
            a_img, a_pts = [norm(e) for e in callsite[0].targets[0].elts]
            rv = rets[0].value.elts if len(rets) == 1 and isinstance(rets[0].value, ast.Tuple) else []
            ok = len(rv) == 2 and norm(rv[0]) == a_img and a_pts in astq.names_in(rv[1]) and norm(callsite[0].value.args[0]) == "image"
        res.ob("C04-geo", ok, f2.qualname, "returns the augmenter's image and the augmenter's keypoints",
               "the helper does not return (augmented image, augmented keypoints): e.g. the input keypoints are returned next to the transformed image", f2.where)
    res.floor("C04-geo", 4)


def check_stable(prog: Program, res: Result) -> None:
    """Registration has to hold on EVERY access of a sample: the per-access geometry (re-crop shift, augmentation)
    must not update in place the keypoints / images stored in the in-memory cache, otherwise the second access of an
    index shifts already shifted keypoints while the image is cropped afresh (alias engine E1, origin = self.cache)."""
    from . import c11
    R = "C04-stable"
    al = c11.make_alias(prog)
    for cname in c11.DATASETS:
        gi = prog.cls(f"{c11.CD}:{cname}").methods.get("__getitem__")
        if gi is None:
            raise AnalysisError(f"{cname}.__getitem__ vanished")
        res.touch(gi)
        sm = al.summary(gi)
        effs = [e for e in sm.effects if e.origin == ("cache",)]
        for e in effs:
            res.ob(R, False, gi.qualname, f"cache <- {e.stmt}",
                   f"`{e.stmt}`{' (through ' + e.via + ')' if e.via else ''} transforms a cached coordinate/image tensor in place: on the next access of this "
                   "index the transform is applied again to the already transformed keypoints, which are then off the (freshly cropped) image content",
                   f"{gi.module.relpath}:{e.line}", derivation={"sink": e.stmt, "via": e.via, "kind": e.kind})
        res.ob(R, not effs, gi.qualname, "per-access geometry works on fresh tensors", "see above", gi.where, sample={"sinks_checked": sm.store_sites})
    res.floor(R, 4)


def check(prog: Program, res: Result) -> None:
    # functions that compute centroids / crops / maps leave their input tensors untouched (shared with C11-pure)
    from . import c11 as _c11
    res.borrow(lambda p_, r_: _c11.check_pure(p_, r_, _c11.make_alias(p_)), "C04-pure", prog)
    check_pipelines(prog, res)
    check_contract_premises(prog, res)
    check_size(prog, res)
    check_aug(prog, res)
    check_stable(prog, res)
    res.floor("C04-reg", 40)
    res.floor("C04-pad", 2)
    res.floor("C04-corner", 3)
    from . import c02
    res.borrow(c02.check_conv, "C04-corner", prog)
    # the image served from an .npz chunk is the image that was written (same layout: the reader inverts the writer), so the
    # keypoints stored next to it still lie on it (shared with C18-npz)
    from . import c18 as _c18
    res.borrow(_c18.check_npz, "C04-npz", prog)
    res.assumptions += ["sub-pixel interpolation error, exact output sizes and the affine itself (kornia) are not decided"]


CDF = "sleap_nn/data/custom_datasets.py"
GCF = "sleap_nn/data/get_data_chunks.py"
SDF = "sleap_nn/data/streaming_datasets.py"
RSF = "sleap_nn/data/resizing.py"
ICF = "sleap_nn/data/instance_cropping.py"
AUF = "sleap_nn/data/augmentation.py"
VARIANTS = [
    Variant("stable-inplace-shift", CDF, "        center_instance = sample[\"instance\"] - point\n        centered_centroid = sample[\"centroid\"] - point\n\n        sample[\"instance\"] = center_instance  # (n_samples=1, n_nodes, 2)\n        sample[\"centroid\"] = centered_centroid  # (n_samples=1, 2)",
            "        sample[\"instance\"] -= point  # (n_samples=1, n_nodes, 2)\n        sample[\"centroid\"] -= point  # (n_samples=1, 2)", "C04-stable"),
    Variant("fill-forgets-eff", CDF, "            sample[\"instances\"] = sample[\"instances\"] * eff_scale\n\n            # resize image\n            sample[\"image\"], sample[\"instances\"] = apply_resizer(\n                sample[\"image\"],\n                sample[\"instances\"],\n                scale=self.scale,\n            )\n\n            # Pad the image (if needed) according max stride\n            sample[\"image\"] = apply_pad_to_stride(\n                sample[\"image\"], max_stride=self.max_stride\n            )\n\n            if self.np_chunks:\n                sample[\"image\"] = self.transform_to_pil(sample[\"image\"].squeeze(dim=0))\n                for k, v in sample.items():\n                    if k != \"image\" and isinstance(v, torch.Tensor):\n                        sample[k] = v.numpy()\n                f_name = f\"{self.np_chunks_path}/sample_{idx}.npz\"\n                np.savez_compressed(f_name, **sample)\n                self.cache[idx] = f_name\n\n            else:\n                self.cache[idx] = sample.copy()\n\n        for video in self.labels.videos:\n            video.close()\n\n    def _get_video_idx",
            "            # resize image\n            sample[\"image\"], sample[\"instances\"] = apply_resizer(\n                sample[\"image\"],\n                sample[\"instances\"],\n                scale=self.scale,\n            )\n\n            # Pad the image (if needed) according max stride\n            sample[\"image\"] = apply_pad_to_stride(\n                sample[\"image\"], max_stride=self.max_stride\n            )\n\n            if self.np_chunks:\n                sample[\"image\"] = self.transform_to_pil(sample[\"image\"].squeeze(dim=0))\n                for k, v in sample.items():\n                    if k != \"image\" and isinstance(v, torch.Tensor):\n                        sample[k] = v.numpy()\n                f_name = f\"{self.np_chunks_path}/sample_{idx}.npz\"\n                np.savez_compressed(f_name, **sample)\n                self.cache[idx] = f_name\n\n            else:\n                self.cache[idx] = sample.copy()\n\n        for video in self.labels.videos:\n            video.close()\n\n    def _get_video_idx", "C04-reg"),
    Variant("centroid-chunk-scales-instances-only", GCF, "    sample[\"image\"], sample[\"centroids\"] = apply_resizer(\n        sample[\"image\"], sample[\"centroids\"], scale=scale\n    )", "    sample[\"image\"], sample[\"instances\"] = apply_resizer(\n        sample[\"image\"], sample[\"instances\"], scale=scale\n    )", "C04-reg"),
    Variant("centered-chunk-no-instance-resize", GCF, "        res[\"instance_image\"], res[\"instance\"] = apply_resizer(\n            res[\"instance_image\"], res[\"instance\"], scale=scale\n        )", "        res[\"instance_image\"], _ = apply_resizer(\n            res[\"instance_image\"], res[\"instance\"], scale=scale\n        )", "C04-reg"),
    Variant("recrop-centroid-not-shifted", CDF, "        centered_centroid = sample[\"centroid\"] - point\n\n        sample[\"instance\"] = center_instance", "        centered_centroid = sample[\"centroid\"]\n\n        sample[\"instance\"] = center_instance", None),
    Variant("recrop-instance-not-shifted", CDF, "        center_instance = sample[\"instance\"] - point\n        centered_centroid = sample[\"centroid\"] - point\n\n        sample[\"instance\"] = center_instance", "        center_instance = sample[\"instance\"]\n        centered_centroid = sample[\"centroid\"] - point\n\n        sample[\"instance\"] = center_instance", "C04-reg"),
    Variant("streaming-recrop-uses-instance-origin", SDF, "        center_instance = ex[\"instance\"] - point", "        center_instance = ex[\"instance\"] - ex[\"instance_bbox\"][0][2]", "C04-corner"),
    Variant("resizer-image-only", RSF, "        image = resize_image(image, scale)\n        instances = instances * scale\n    return image, instances", "        image = resize_image(image, scale)\n    return image, instances", "C04-reg"),
    Variant("resize-aspect", RSF, "    new_size = [int(img_height * scale), int(img_width * scale)]", "    new_size = [int(img_height * scale), int(img_width)]", "C04-"),
    Variant("bp-sizematcher-ifexp", RSF, "        if hratio > wratio:\n            eff_scale_ratio = wratio\n            target_h = int(round(img_height * wratio))\n            target_w = int(round(img_width * wratio))\n        else:\n            eff_scale_ratio = hratio\n            target_w = int(round(img_width * hratio))\n            target_h = int(round(img_height * hratio))\n",
            "        eff_scale_ratio = wratio if hratio > wratio else hratio\n        target_h = int(round(img_height * eff_scale_ratio))\n        target_w = int(round(img_width * eff_scale_ratio))\n", None),
    Variant("bp-sizematcher-min", RSF, "        if hratio > wratio:\n            eff_scale_ratio = wratio\n            target_h = int(round(img_height * wratio))\n            target_w = int(round(img_width * wratio))\n        else:\n            eff_scale_ratio = hratio\n            target_w = int(round(img_width * hratio))\n            target_h = int(round(img_height * hratio))\n",
            "        eff_scale_ratio = min(hratio, wratio)\n        target_h = int(round(img_height * eff_scale_ratio))\n        target_w = int(round(img_width * eff_scale_ratio))\n", None),
    Variant("sizematcher-larger-ratio", RSF, "        if hratio > wratio:\n            eff_scale_ratio = wratio", "        if hratio < wratio:\n            eff_scale_ratio = wratio", "C04-leaf"),
    Variant("sizematcher-width-by-other-ratio", RSF, "            eff_scale_ratio = hratio\n            target_w = int(round(img_width * hratio))", "            eff_scale_ratio = hratio\n            target_w = int(round(img_width * wratio))", "C04-leaf"),
    Variant("sizematcher-wrong-ratio", RSF, "            eff_scale_ratio = wratio\n            target_h = int(round(img_height * wratio))", "            eff_scale_ratio = hratio\n            target_h = int(round(img_height * wratio))", "C04-leaf"),
    Variant("pad-top-left", RSF, "        image = F.pad(\n            image,\n            (0, pad_width, 0, pad_height),\n            mode=\"constant\",\n        ).to(torch.float32)\n\n        return image, eff_scale_ratio", "        image = F.pad(\n            image,\n            (pad_width, 0, pad_height, 0),\n            mode=\"constant\",\n        ).to(torch.float32)\n\n        return image, eff_scale_ratio", "C04-pad"),
    Variant("crop-size-mismatch", ICF, "    instance_image = crop_and_resize(\n        image,\n        boxes=instance_bbox,\n        size=box_size,\n    )\n\n    # Access top left point (x,y) of bounding box and subtract this offset from\n    # position of nodes.\n    point = instance_bbox[0][0]\n    center_instance = (instance - point).unsqueeze(0)",
            "    instance_image = crop_and_resize(\n        image,\n        boxes=instance_bbox,\n        size=(box_size[1], box_size[0]),\n    )\n\n    # Access top left point (x,y) of bounding box and subtract this offset from\n    # position of nodes.\n    point = instance_bbox[0][0]\n    center_instance = (instance - point).unsqueeze(0)", "C04-size"),
    Variant("aug-returns-input-points", AUF, "    return aug_image, aug_instances.reshape(*inst_shape)\n\n\nclass RandomUniformNoise", "    return aug_image, instances.reshape(*inst_shape)\n\n\nclass RandomUniformNoise", "C04-"),
    Variant("aug-no-keypoints-key", AUF, "        data_keys=[\"input\", \"keypoints\"],\n        keepdim=True,\n        same_on_batch=True,\n    )\n\n    inst_shape = instances.shape\n    # Before (full image): (n_samples, C, H, W), (n_samples, n_instances, n_nodes, 2)\n    # or\n    # Before (cropped image): (B=1, C, crop_H, crop_W), (n_samples, n_nodes, 2)\n    instances = instances.reshape(inst_shape[0], -1, 2)\n    # (n_samples, C, H, W), (n_samples, n_instances * n_nodes, 2) OR (n_samples, n_nodes, 2)\n\n    aug_image, aug_instances = augmenter(image, instances)\n\n    # After (full image): (n_samples, C, H, W), (n_samples, n_instances, n_nodes, 2)\n    # or\n    # After (cropped image): (n_samples, C, crop_H, crop_W), (n_samples, n_nodes, 2)\n    return aug_image, aug_instances.reshape(*inst_shape)\n\n\nclass RandomUniformNoise",
            "        data_keys=[\"input\", \"input\"],\n        keepdim=True,\n        same_on_batch=True,\n    )\n\n    inst_shape = instances.shape\n    instances = instances.reshape(inst_shape[0], -1, 2)\n\n    aug_image, aug_instances = augmenter(image, instances)\n\n    return aug_image, aug_instances.reshape(*inst_shape)\n\n\nclass RandomUniformNoise", "C04-geo"),
    Variant("geometric-in-intensity-stack", AUF, "            K.augmentation.RandomBrightness(\n                brightness=brightness,\n                p=brightness_p,\n                keepdim=True,\n                same_on_batch=True,\n            )\n        )\n\n    augmenter = AugmentationSequential(\n        *aug_stack,\n        data_keys=[\"input\", \"keypoints\"],\n        keepdim=True,\n        same_on_batch=True,\n    )\n\n    inst_shape = instances.shape\n    # Before (full image)",
            "            K.augmentation.RandomHorizontalFlip(\n                p=brightness_p,\n                keepdim=True,\n                same_on_batch=True,\n            )\n        )\n\n    augmenter = AugmentationSequential(\n        *aug_stack,\n        data_keys=[\"input\", \"keypoints\"],\n        keepdim=True,\n        same_on_batch=True,\n    )\n\n    inst_shape = instances.shape\n    # Before (full image)", "C04-int"),
    Variant("bp-scale-order", CDF, "            instances = instances * eff_scale\n\n            # resize image\n            image, instances = apply_resizer(", "            instances = eff_scale * instances\n\n            # resize image\n            image, instances = apply_resizer(", None),
]
