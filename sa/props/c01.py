"""C01 — confidence-map targets: no NaN/inf, values in [0,1], sigma*stride spread on the stride grid,
x<->width / y<->height, max-reduction over instances."""

from __future__ import annotations

import ast
from typing import Dict, List, Optional, Set, Tuple

from ..core import astq
from ..core.program import AnalysisError, FunctionInfo, Program, ancestors, enclosing_stmt, norm, short, walk_function
from ..engines import sign as S
from ..engines.nantaint import NanTaint
from ..report import Result
from ..runner import Variant

PROP = "C01"
EXPLANATION = (
    "(nan) flow-sensitive NaN taint with function summaries: with the keypoint argument tainted (missing keypoints are NaN) "
    "the value returned by make_confmaps, make_multi_confmaps, generate_confmaps, generate_multiconfmaps and stored by the two "
    "DataPipe generators is untainted - the scrub (nan_to_num with the default fill 0) sits after the exponential and before "
    "the max-reduction, and no division by a possibly-zero quantity follows it; (range) sign/interval evaluation gives "
    "exp(-(sq+sq)/(2*sigma^2)) in [0,1] for sigma>0, preserved by nan_to_num and by maximum with zeros; (sigma) at each of the "
    "5 call sites of make_confmaps/make_multi_confmaps the spread is <sigma>*<stride> with the SAME stride expression that "
    "built the grid vectors, and at each dataset/streaming/pipeline call site sigma and output_stride come from the same head "
    "config; (grid) make_grid_vectors builds xv from image_width and yv from image_height with start 0 and step output_stride, "
    "callers pass (height, width) in that order and unpack (xv, yv); x pairs with xv on the last axis and y with yv on the "
    "second-to-last; (max) the multi-instance accumulator starts from zeros and is updated by maximum only. Not decided: the "
    "exact value, 'largest at the nearest cell', output shape arithmetic."
)
TRUSTED = ["CPython ast", "networkx reachability", "torch.nan_to_num replaces NaN by 0.0 by default; torch.maximum propagates NaN; exp of a non-positive number is in (0,1]"]

CM = "sleap_nn.data.confidence_maps"
UT = "sleap_nn.data.utils"
POSITIVE = {
    f"{CM}:make_confmaps": {"sigma"},
    f"{CM}:make_multi_confmaps": {"sigma"},
    f"{CM}:generate_confmaps": {"sigma", "output_stride"},
    f"{CM}:generate_multiconfmaps": {"sigma", "output_stride"},
    f"{UT}:gaussian_pdf": {"sigma"},
}


def check_nan(prog: Program, res: Result) -> NanTaint:
    R = "C01-nan"
    nt = NanTaint(prog, POSITIVE)
    for name, params in (("make_confmaps", {"points_batch"}), ("make_multi_confmaps", {"points_batch"}),
                         ("generate_confmaps", {"instance"}), ("generate_multiconfmaps", {"instances"})):
        fi = prog.func(f"{CM}:{name}")
        res.touch(fi)
        t, why = nt.returns_tainted(fi, frozenset(params))
        res.ob(R, not t, fi.qualname, f"return value NaN-free with {sorted(params)} possibly NaN",
               f"a NaN keypoint can reach the returned confidence maps: {'; '.join(why[:2])} (missing keypoints must give all-zero channels, never NaN)",
               fi.where, derivation={"why": why}, sample={"tainted_params": sorted(params), "result": "clean"})
    for cname, key in (("MultiConfidenceMapGenerator", None), ("ConfidenceMapGenerator", None)):
        ci = prog.cls(f"{CM}:{cname}")
        it = ci.methods.get("__iter__")
        res.touch(it)
        states, sg, cfg = nt.run(it, frozenset({"example", "points", "instance"}))
        for n, T in states.items():
            a = cfg.nodes[n].ast
            if cfg.nodes[n].kind == "stmt" and isinstance(a, ast.Assign) and isinstance(a.targets[0], ast.Subscript) and "confidence_maps" in norm(a.targets[0].slice):
                T2 = frozenset(T | {"points", "instance"})
                t = nt.tainted(it, a.value, T2, sg)
                res.ob(R, not t, it.qualname, f"{norm(a.targets[0])} is NaN-free", f"`{short(a, 60)}` stores a value that may contain NaN", f"{it.module.relpath}:{a.lineno}")
    # the scrub's fill value
    mc = prog.func(f"{CM}:make_confmaps")
    scrubs = [c for c in walk_function(mc.node) if isinstance(c, ast.Call) and norm(c.func).split(".")[-1] == "nan_to_num"]
    for c in scrubs:
        nan_kw = [k.value for k in c.keywords if k.arg == "nan"]
        ok = not nan_kw or astq.const_value(nan_kw[0]) == 0
        res.ob(R, ok and len(c.args) <= 1, mc.qualname, "missing keypoints become 0", f"NaN is replaced by `{short(nan_kw[0], 20) if nan_kw else '?'}`: a missing keypoint no longer contributes nothing",
               f"{mc.module.relpath}:{c.lineno}")
    res.extra["nan_div_sources"] = nt.div_sources
    res.floor(R, 6)
    return nt


def _callee_sign(prog: Program, fi: FunctionInfo):
    def f(call: ast.Call) -> Optional[str]:
        q = prog.resolve_call(fi, call)
        if q == f"{CM}:make_confmaps":
            return sign_of_return(prog, prog.func(q), {"sigma": S.POS})
        return None
    return f


def sign_of_return(prog: Program, fi: FunctionInfo, env: Dict[str, str]) -> str:
    sg = S.Sign(fi.node, env, callee_sign=_callee_sign(prog, fi))
    out = None
    for n in walk_function(fi.node):
        if isinstance(n, ast.Return) and n.value is not None:
            out = S.join(out, sg.of(n.value))
    return out or S.TOP


def check_range(prog: Program, res: Result) -> None:
    R = "C01-range"
    for name in ("make_confmaps", "make_multi_confmaps"):
        fi = prog.func(f"{CM}:{name}")
        s = sign_of_return(prog, fi, {"sigma": S.POS})
        res.ob(R, s == S.UNIT, fi.qualname, "returned maps lie in [0,1] for sigma>0",
               f"the abstract range of the value returned by {name} is {s}, not [0,1] (exponent not provably non-positive, or a non-max reduction)",
               fi.where, sample={"range": s})
    res.floor(R, 2)


def _grid_call_of(prog: Program, fi: FunctionInfo, xv_name: str, at: Optional[ast.AST] = None) -> Optional[ast.Call]:
    if at is not None:
        # the definition that reaches the use, through named pairs (grid = make_grid_vectors(...); xv, yv = grid)
        rd = astq.reaching_def(fi.node, xv_name, at, unpack_calls=True)
        v = rd.value if rd is not None else None
        v = v.value if isinstance(v, ast.Subscript) else v
        if isinstance(v, ast.Call) and prog.resolve_call(fi, v) == f"{UT}:make_grid_vectors":
            return v
    for st in walk_function(fi.node):
        if isinstance(st, ast.Assign) and isinstance(st.targets[0], ast.Tuple) and xv_name in [norm(e) for e in st.targets[0].elts] \
                and isinstance(st.value, ast.Call) and prog.resolve_call(fi, st.value) == f"{UT}:make_grid_vectors":
            return st.value
    return None


def check_sigma(prog: Program, res: Result) -> None:
    R = "C01-sigma"
    mgv = prog.func(f"{UT}:make_grid_vectors")
    n_sites = 0
    for fi in prog.all_functions():
        for c, q in prog.calls_in(fi):
            if q not in (f"{CM}:make_confmaps", f"{CM}:make_multi_confmaps"):
                continue
            callee = prog.func(q)
            b = astq.bind_args(callee, c)
            sg = b.get("sigma")
            if fi.qualname == f"{CM}:make_multi_confmaps":
                ok = sg is not None and norm(sg) == "sigma" and norm(b.get("xv")) == "xv" and norm(b.get("yv")) == "yv"
                n_sites += 1
                res.touch(fi)
                res.ob(R, ok, fi.qualname, "inner call forwards sigma and the grid unchanged", f"make_confmaps is called with sigma={short(sg, 30) if sg is not None else '?'}", f"{fi.module.relpath}:{c.lineno}")
                continue
            n_sites += 1
            res.touch(fi)
            xv = b.get("xv")
            gc = _grid_call_of(prog, fi, norm(xv), enclosing_stmt(c)) if xv is not None else None
            stride = astq.bind_args(mgv, gc).get("output_stride") if gc is not None else None
            if isinstance(sg, ast.Name):      # a named spread: grid_sigma = sigma * output_stride
                rd_sg = astq.reaching_def(fi.node, sg.id, enclosing_stmt(c))
                sg = rd_sg.value if rd_sg is not None else sg
            ok = isinstance(sg, ast.BinOp) and isinstance(sg.op, ast.Mult) and stride is not None and norm(stride) in (norm(sg.left), norm(sg.right))
            other = None
            if ok:
                other = sg.right if norm(sg.left) == norm(stride) else sg.left
                ok = "sigma" in norm(other) and "stride" not in norm(other)
            res.ob(R, ok, fi.qualname, f"spread = sigma * stride of the grid ({short(sg, 40) if sg is not None else '?'})",
                   f"the Gaussian spread handed to {callee.name} is `{short(sg, 40) if sg is not None else '?'}` while the grid was built with stride "
                   f"`{short(stride, 30) if stride is not None else '?'}`: the bump is {('not ' if True else '')}sigma*stride wide", f"{fi.module.relpath}:{c.lineno}",
                   sample={"sigma_arg": norm(sg) if sg is not None else None, "grid_stride": norm(stride) if stride is not None else None})
            yv = b.get("yv")
            if gc is not None:
                # which element of the pair returned by make_grid_vectors each argument is (also through grid = f(); xv, yv = grid)
                st2 = enclosing_stmt(c)

                def _elem(a_):
                    rd_ = astq.reaching_def(fi.node, a_.id, st2, unpack_calls=True) if isinstance(a_, ast.Name) else None
                    v_ = rd_.value if rd_ is not None else None
                    return astq.const_value(v_.slice) if isinstance(v_, ast.Subscript) and v_.value is gc else None

                names = [_elem(xv), _elem(yv)]
                res.ob(R, names == [0, 1], fi.qualname, "grid unpacked as (xv, yv) and passed as (xv, yv)",
                       f"make_grid_vectors returns (xv, yv) but it is unpacked/passed as {names} -> ({norm(xv)}, {norm(yv)}): x and y are swapped", f"{fi.module.relpath}:{c.lineno}")
    res.ob(R, n_sites == 5, f"{CM}", "five producer call sites", f"{n_sites} call sites of make_confmaps/make_multi_confmaps (5 confirmed by hand)", "")
    # dataset-level call sites: sigma and output_stride from the same head config
    n2 = 0
    for fi in prog.all_functions():
        for c, q in prog.calls_in(fi):
            tgt = None
            if q in (f"{CM}:generate_confmaps", f"{CM}:generate_multiconfmaps"):
                tgt = prog.func(q)
                b = astq.bind_args(tgt, c)
            elif q in (f"{CM}:ConfidenceMapGenerator", f"{CM}:MultiConfidenceMapGenerator"):
                tgt = prog.cls(q).methods["__init__"]
                b = astq.bind_args(tgt, c, skip_self=True)
            else:
                continue
            n2 += 1
            res.touch(fi)
            sg, st = b.get("sigma"), b.get("output_stride")
            ok = sg is not None and st is not None and isinstance(sg, ast.Attribute) and isinstance(st, ast.Attribute) and sg.attr == "sigma" \
                and st.attr == "output_stride" and norm(sg.value) == norm(st.value) and "paf" not in norm(sg.value).lower()
            res.ob(R, ok, fi.qualname, f"sigma/output_stride from one confmap head config ({short(sg.value, 40) if isinstance(sg, ast.Attribute) else '?'})",
                   f"{tgt.name} receives sigma=`{short(sg, 40) if sg is not None else 'default'}` and output_stride=`{short(st, 40) if st is not None else 'default'}`: "
                   "not the sigma and stride of one and the same confidence-map head", f"{fi.module.relpath}:{c.lineno}")
            if q.endswith("generate_multiconfmaps"):
                ic = b.get("is_centroids")
                pts = b.get("instances")
                want = "centroid" in norm(pts).lower() if pts is not None else None
                res.ob(R, ic is not None and isinstance(ic, ast.Constant) and ic.value is want, fi.qualname, f"is_centroids={want} for {short(pts, 30) if pts is not None else '?'}",
                       f"generate_multiconfmaps is called on `{short(pts, 30) if pts is not None else '?'}` with is_centroids={short(ic, 10) if ic is not None else 'default'}", f"{fi.module.relpath}:{c.lineno}")
                ni = b.get("num_instances")
                res.ob(R, ni is not None and "num_instances" in norm(ni), fi.qualname, "num_instances is the sample's own count", f"num_instances=`{short(ni, 30) if ni is not None else '?'}`", f"{fi.module.relpath}:{c.lineno}")
    res.ob(R, n2 >= 12, f"{CM}", "dataset / streaming / pipeline call sites found", f"only {n2} call sites of generate_*confmaps / *Generator (12 confirmed by hand)", "")
    res.floor(R, 30)


def check_grid(prog: Program, res: Result) -> None:
    R = "C01-grid"
    fi = prog.func(f"{UT}:make_grid_vectors")
    res.touch(fi)
    rets = [n for n in walk_function(fi.node) if isinstance(n, ast.Return)]
    rv = astq.expand(fi.node, rets[0].value) if len(rets) == 1 and rets[0].value is not None else None
    elts = rv.elts if isinstance(rv, (ast.Tuple, ast.List)) and len(rv.elts) == 2 else [None, None]
    res.ob(R, elts[0] is not None, fi.qualname, "returns the pair (x grid, y grid)", "make_grid_vectors does not return a pair of grid vectors", fi.where)
    for (var, dim), c in zip((("xv", "image_width"), ("yv", "image_height")), elts):
        ok = isinstance(c, ast.Call) and norm(c.func) == "torch.arange"
        if ok:
            kw = {k.arg: norm(k.value) for k in c.keywords}
            a = [norm(x) for x in c.args]
            start = a[0] if len(a) >= 2 else kw.get("start", "0")
            end = a[1] if len(a) >= 2 else (a[0] if a else kw.get("end"))
            step = a[2] if len(a) >= 3 else kw.get("step", "1")
            ok = start == "0" and end == dim and step == "output_stride"
        res.ob(R, ok, fi.qualname, f"{var} = arange(0, {dim}, step=output_stride)", f"{var} is `{short(c, 60) if c is not None else '?'}`: the sampling grid is not 0, stride, 2*stride, ... < {dim}",
               fi.where, sample=short(c, 70) if c is not None else None)
    res.ob(R, fi.pos_params[:3] == ["image_height", "image_width", "output_stride"], fi.qualname, "signature (image_height, image_width, output_stride)", f"signature is {fi.pos_params}", fi.where)
    # callers pass a height-derived value first
    n = 0
    for f2 in prog.all_functions():
        for c, q in prog.calls_in(f2):
            if q != fi.qualname:
                continue
            n += 1
            res.touch(f2)
            b = astq.bind_args(fi, c)
            h, w = b.get("image_height"), b.get("image_width")
            def kind(e):
                e = astq.deref(f2.node, e)
                t = norm(e) if e is not None else ""
                if "shape[-2]" in t or "shape[2]" in t or "height" in t.lower():
                    return "h"
                if "shape[-1]" in t or "shape[3]" in t or "width" in t.lower():
                    return "w"
                return "?"
            kh, kw_ = kind(h), kind(w)
            # names unpacked from img_hw: `height, width = img_hw`
            for nm, e in (("h", h), ("w", w)):
                pass
            res.ob(R, kh == "h" and kw_ == "w", f2.qualname, f"make_grid_vectors(height={short(h, 25) if h is not None else '?'}, width={short(w, 25) if w is not None else '?'})",
                   f"make_grid_vectors is called with image_height=`{short(h, 30) if h is not None else '?'}` and image_width=`{short(w, 30) if w is not None else '?'}`: "
                   "height and width are swapped (x grid spans the image height)", f"{f2.module.relpath}:{c.lineno}")
            for st in walk_function(f2.node):
                if isinstance(st, ast.Assign) and isinstance(st.targets[0], ast.Tuple) and isinstance(st.value, ast.Name) and st.value.id == "img_hw":
                    names = [norm(e) for e in st.targets[0].elts]
                    res.ob(R, len(names) == 2 and "height" in names[0] and "width" in names[1], f2.qualname, "img_hw unpacked as (height, width)",
                           f"img_hw is unpacked as {names}", f"{f2.module.relpath}:{st.lineno}")
    res.ob(R, n >= 6, fi.qualname, "grid call sites found", f"only {n} callers of make_grid_vectors", fi.where)
    # make_confmaps: x with xv on the last axis, y with yv on the second-to-last
    mc = prog.func(f"{CM}:make_confmaps")
    res.touch(mc)
    rets_ = [r_ for r_ in walk_function(mc.node) if isinstance(r_, ast.Return) and r_.value is not None]
    full = astq.expand_at(mc.node, rets_[0].value, rets_[0]) if len(rets_) == 1 else None

    def grid_side(v):
        """(grid vector name, reshape target) of torch.reshape(G, shape) / G.reshape(shape) / G.view(shape)"""
        if isinstance(v, ast.Call) and norm(v.func) == "torch.reshape" and len(v.args) == 2 and isinstance(v.args[0], ast.Name):
            return v.args[0].id, norm(v.args[1])
        if isinstance(v, ast.Call) and isinstance(v.func, ast.Attribute) and v.func.attr in ("reshape", "view") and isinstance(v.func.value, ast.Name):
            sh = v.args[0] if len(v.args) == 1 and isinstance(v.args[0], (ast.Tuple, ast.List)) else ast.Tuple(elts=list(v.args), ctx=ast.Load())
            return v.func.value.id, norm(sh)
        return None

    def coord_of(v):
        """which coordinate of points_batch an expression reads (the constant last index of the first subscript of it)"""
        for x_ in ast.walk(v):
            if isinstance(x_, ast.Subscript) and "points_batch" in norm(x_.value):
                s_ = x_.slice
                last = s_.elts[-1] if isinstance(s_, ast.Tuple) else s_
                if isinstance(last, ast.Constant):
                    return last.value
        return None

    detail = []
    ok = full is not None
    subs = [n_ for n_ in ast.walk(full) if isinstance(n_, ast.BinOp) and isinstance(n_.op, ast.Sub)] if full is not None else []
    for n_ in subs:
        for g_, p_ in ((n_.left, n_.right), (n_.right, n_.left)):
            gs = grid_side(g_)
            pc = coord_of(p_)
            if gs is not None and gs[0] in ("xv", "yv") and pc is not None:
                detail.append((gs[0], gs[1], pc))
    ok = ok and sorted(detail) == [("xv", "(1, 1, 1, -1)", 0), ("yv", "(1, 1, -1, 1)", 1)]
    res.ob(R, ok, mc.qualname, "x (coordinate 0) pairs with xv on the last axis, y (coordinate 1) with yv on axis -2",
           f"grid/coordinate pairing is {detail}: x and y (or width and height axes) are swapped", mc.where, sample={"pairing": detail})
    res.floor(R, 12)


def check_max(prog: Program, res: Result) -> None:
    R = "C01-max"
    fi = prog.func(f"{CM}:make_multi_confmaps")
    res.touch(fi)
    rets = [n for n in walk_function(fi.node) if isinstance(n, ast.Return)]
    acc = norm(rets[0].value) if len(rets) == 1 and isinstance(rets[0].value, ast.Name) else None
    res.ob(R, acc is not None, fi.qualname, "returns the accumulator", "make_multi_confmaps does not return a single accumulator", fi.where)
    if acc is None:
        return
    defs = [s for s in astq.assignments_to(fi.node, acc)]
    init = [s for s in defs if not astq.enclosing_loops(s)]
    upd = [s for s in defs if astq.enclosing_loops(s)]
    ok = len(init) == 1 and isinstance(init[0], ast.Assign) and isinstance(init[0].value, ast.Call) and norm(init[0].value.func) == "torch.zeros"
    res.ob(R, ok, fi.qualname, "accumulator starts as zeros", f"the accumulator starts as `{short(init[0].value, 40) if init else '?'}`", fi.where)
    ok = len(upd) == 1 and isinstance(upd[0], ast.Assign) and isinstance(upd[0].value, ast.Call) and norm(upd[0].value.func) == "torch.maximum" \
        and acc in [norm(a) for a in upd[0].value.args] and len(upd[0].value.args) == 2
    res.ob(R, ok, fi.qualname, "accumulator updated by elementwise maximum only",
           f"the accumulator is updated by `{short(upd[0], 60) if upd else 'nothing'}`: overlapping animals no longer give the per-cell maximum (values may exceed 1)", fi.where,
           sample=short(upd[0], 70) if upd else None)
    if ok:
        other = [a for a in upd[0].value.args if norm(a) != acc][0]
        d = astq.deref(fi.node, other)
        okc = isinstance(d, ast.Call) and prog.resolve_call(fi, d) == f"{CM}:make_confmaps"
        res.ob(R, okc, fi.qualname, "each instance contributes make_confmaps of its own points", f"the per-instance map is `{short(d, 50) if d is not None else '?'}`", fi.where)
        lp = astq.enclosing_loops(upd[0])[0]
        le = astq.loop_elems(lp, fi.node) if isinstance(lp, ast.For) else None
        pts = astq.expand(fi.node, le.seq) if le is not None else None
        arg0 = astq.expand(fi.node, d.args[0], keep=[le.elem] if le and le.elem else []) if isinstance(d, ast.Call) and d.args else None
        whole = pts is not None and norm(astq.peel(pts, "reshape", "view", "flatten", "contiguous", "float", "to")) == "points_batch"
        okl = le is not None and whole and arg0 is not None and \
            (le.is_elem(arg0) or le.is_elem(arg0, pts) or (le.elem is not None and le.elem in astq.names_in(arg0)))
        res.ob(R, okl, fi.qualname, "loop visits every instance of the batch once", f"the loop iterates `{short(pts if pts is not None else lp.iter, 60)}`: not every instance of points_batch (a filtered / sliced selection drops labelled animals)", fi.where)
    # generate_multiconfmaps slices to num_instances
    g = prog.func(f"{CM}:generate_multiconfmaps")
    sl = [n for n in walk_function(g.node) if isinstance(n, ast.Subscript) and norm(n.value) == "instances"]
    ok = len(sl) == 2 and all(isinstance(n.slice, ast.Tuple) and len(n.slice.elts) >= 2 and norm(n.slice.elts[1]) == ":num_instances" and norm(n.slice.elts[0]) == ":" for n in sl)
    res.ob(R, ok, g.qualname, "only the first num_instances instances are drawn", "generate_multiconfmaps does not slice instances[:, :num_instances]", g.where)
    # ... and ALL of them: what reaches make_multi_confmaps is that slice and nothing else (no mask / index selection that
    # could drop an animal with some labelled nodes)
    mc = [c for c, q in prog.calls_in(g) if q == f"{CM}:make_multi_confmaps"]
    res.ob(R, len(mc) == 1, g.qualname, "one make_multi_confmaps call", f"{len(mc)} calls of make_multi_confmaps", g.where)
    if len(mc) == 1:
        from ..core.program import enclosing_stmt
        b_ = astq.bind_args(prog.func(f"{CM}:make_multi_confmaps"), mc[0])
        st_ = enclosing_stmt(mc[0])
        pe = astq.expand_at(g.node, b_.get("points_batch"), st_)
        # if/else joins: look at every definition that can reach the call
        alts = [pe]
        if isinstance(pe, ast.Name):
            alts = [astq.expand_at(g.node, d_.value, d_) for d_ in astq.assignments_to(g.node, pe.id) if isinstance(d_, ast.Assign)]
        def _plain(e):
            e = astq.peel(e, "unsqueeze", "float", "to", "contiguous")
            if not (isinstance(e, ast.Subscript) and norm(e.value) == "instances"):
                return False
            idx = e.slice.elts if isinstance(e.slice, ast.Tuple) else [e.slice]
            return all(isinstance(i_, ast.Slice) for i_ in idx) and len(idx) >= 2 and norm(idx[1]) == ":num_instances" and all(norm(i_) == ":" for k_, i_ in enumerate(idx) if k_ != 1)
        res.ob(R, bool(alts) and all(_plain(a_) for a_ in alts), g.qualname, "every one of those instances is drawn (no filtering before the maps are made)",
               f"the points handed to make_multi_confmaps are `{'` / `'.join(short(a_, 60) for a_ in alts)}`: instances are filtered or re-indexed before drawing, "
               "so an animal with some labelled nodes can lose its bumps", f"{g.module.relpath}:{mc[0].lineno}")
    # the sibling callers (the DataPipe generators) obey the same two conditions as the functional API: ALL the instances
    # they were given are drawn (no mask / index selection on the points), and the sampling grid is rebuilt from the image
    # of the CURRENT example on every iteration (a grid kept from an earlier example has the wrong size / offsets)
    def _selects(fn, e) -> Optional[str]:
        for sub in ast.walk(e):
            if not isinstance(sub, ast.Subscript):
                continue
            for ix in (sub.slice.elts if isinstance(sub.slice, ast.Tuple) else [sub.slice]):
                if isinstance(ix, (ast.UnaryOp, ast.Compare, ast.BoolOp)) and not isinstance(getattr(ix, "operand", None), ast.Constant):
                    return short(sub, 50)
                if isinstance(ix, ast.Name):
                    for d_ in astq.assignments_to(fn, ix.id):
                        v_ = getattr(d_, "value", None)
                        t_ = norm(v_) if v_ is not None else ""
                        if "isnan" in t_ and ".all(" in t_ and ".any(" not in t_:
                            continue  # drops only rows that are NaN throughout (padding): they draw nothing anyway
                        if v_ is not None and any(isinstance(x, ast.Compare) or (isinstance(x, ast.Call) and norm(x.func).split(".")[-1] in ("isnan", "isfinite", "any", "all", "nonzero", "where")) for x in ast.walk(v_)):
                            return short(sub, 50)
        return None

    n_sib = 0
    for f2 in prog.all_functions():
        if not f2.module.name.startswith("sleap_nn.data") or f2 is g:
            continue
        for c2, q2 in prog.calls_in(f2):
            if q2 not in (f"{CM}:make_multi_confmaps", f"{CM}:make_confmaps") or f2.qualname in (f"{CM}:make_multi_confmaps", f"{CM}:generate_confmaps"):
                continue
            callee = prog.func(q2)
            b2 = astq.bind_args(callee, c2)
            st2 = enclosing_stmt(c2)
            res.touch(f2)
            n_sib += 1
            pts = b2.get(callee.pos_params[0])
            alts = [pts]
            if isinstance(pts, ast.Name):
                alts = [d_.value for d_ in astq.assignments_to(f2.node, pts.id) if isinstance(d_, ast.Assign)] or [pts]
            bad = next((x for x in (_selects(f2.node, a_) for a_ in alts) if x), None)
            res.ob(R, bad is None, f2.qualname, f"{callee.name} receives all the points of the example", f"the points handed to {callee.name} are selected by `{bad}`: "
                   "instances are filtered before drawing, so an animal with some labelled nodes can lose its bumps", f"{f2.module.relpath}:{c2.lineno}")
            loops = astq.enclosing_loops(c2)
            if loops:
                for gv in ("xv", "yv"):
                    arg = b2.get(gv)
                    rd = astq.reaching_def(f2.node, arg.id, st2, unpack_calls=True) if isinstance(arg, ast.Name) else None
                    gcall = rd.value.value if rd is not None and isinstance(rd.value, ast.Subscript) else (rd.value if rd is not None else None)
                    fresh = rd is not None and astq.in_body_of(getattr(rd, "_orig", rd), loops[0], "body") and isinstance(gcall, ast.Call) and prog.resolve_call(f2, gcall) == f"{UT}:make_grid_vectors"
                    res.ob("C01-grid", fresh, f2.qualname, f"{gv} is rebuilt for every example", f"`{short(arg, 20) if arg is not None else gv}` is not (re)computed by make_grid_vectors "
                           f"in the iteration that uses it: a grid built for an earlier example is reused for images of another size", f"{f2.module.relpath}:{c2.lineno}")
    res.ob(R, n_sib >= 2, fi.qualname, "sibling callers found", f"only {n_sib} DataPipe callers of make_confmaps / make_multi_confmaps", fi.where)
    res.floor(R, 6)


def check_count(prog: Program, res: Result) -> None:
    """process_lf returns the keypoints as a NaN-padded tensor plus `num_instances`; every consumer takes the first
    `num_instances` rows as the labelled animals (generate_multiconfmaps, the DataPipe generators, the chunk writer's
    instance counter).  So `num_instances` must be the number of rows the tensor had BEFORE padding: a count over the same
    collection that was stacked (its shape along the instance axis, or len of the stacked list).  A count taken any other
    way (e.g. of the non-empty instances while all are stacked) cuts a labelled animal out of the targets.
    Decided by a small forward walk over the function body: lists, tensors stacked from a list (with the axis the rows are
    on), counts of a list."""
    for q in ("sleap_nn.data.providers:process_lf", "sleap_nn.data.providers:LabelsReaderDP.__iter__"):
        _check_count_in(prog, res, prog.func(q))
    res.floor("C01-count", 4)


def _check_count_in(prog: Program, res: Result, fi) -> None:
    R = "C01-count"
    res.touch(fi)
    fn = fi.node
    rets = [r for r in walk_function(fn) if (isinstance(r, ast.Return) or isinstance(r, ast.Yield)) and r.value is not None]
    rec = astq.record_fields(fn, rets[0].value) if len(rets) == 1 else None
    ok_shape = rec is not None and "num_instances" in rec and "instances" in rec
    res.ob(R, ok_shape, fi.qualname, f"{fi.name} hands out instances and num_instances", f"{fi.name} no longer hands out a record with `instances` and `num_instances`", fi.where)
    if not ok_shape:
        return
    state = {}   # name -> ("list", id) | ("rows", id, axis) | ("count", id)
    fresh = [0]

    def new_id():
        fresh[0] += 1
        return fresh[0]

    def val(e):
        """abstract value of an expression"""
        if isinstance(e, ast.Name):
            return state.get(e.id)
        if isinstance(e, (ast.List, ast.ListComp)) or (isinstance(e, ast.Call) and norm(e.func) == "list" and len(e.args) <= 1):
            return ("list", new_id())
        if isinstance(e, ast.Call):
            f = norm(e.func).split(".")[-1]
            recv = e.func.value if isinstance(e.func, ast.Attribute) and norm(e.func.value) not in ("np", "numpy", "torch") else None
            a0 = recv if recv is not None else (e.args[0] if e.args else None)
            v0 = val(a0) if a0 is not None else None
            if f == "stack" and v0 is not None and v0[0] == "list":
                ax_ = astq.call_arg(e, 1, "axis") or astq.call_arg(e, 1, "dim")
                ax = astq.const_value(ax_) if ax_ is not None else 0
                return ("rows", v0[1], ax) if ax == 0 else None
            if f in ("expand_dims", "unsqueeze") and v0 is not None and v0[0] == "rows":
                ax_ = (e.args[0] if recv is not None and e.args else astq.call_arg(e, 1, "axis")) or astq.call_arg(e, 1, "dim") or next((k.value for k in e.keywords if k.arg in ("axis", "dim")), None)
                ax = astq.const_value(ax_) if ax_ is not None else None
                return ("rows", v0[1], v0[2] + 1) if ax == 0 else None
            if f in ("from_numpy", "as_tensor", "tensor", "astype", "float", "to", "type", "clone", "copy", "contiguous", "array", "asarray") and v0 is not None and v0[0] == "rows":
                return v0
            if f in ("cat", "concat", "concatenate") and e.args and isinstance(e.args[0], (ast.List, ast.Tuple)) and e.args[0].elts:
                h = val(e.args[0].elts[0])
                ax_ = astq.call_arg(e, 1, "dim") or astq.call_arg(e, 1, "axis")
                if h is not None and h[0] == "rows" and ax_ is not None and astq.const_value(ax_) == h[2]:
                    return h       # padding appended after the labelled rows, on the row axis
                return None
            if f == "len" and e.args and isinstance(e.func, ast.Name):
                v = val(e.args[0])
                if v is not None and v[0] == "list":
                    return ("count", v[1])
                if v is not None and v[0] == "rows" and v[2] == 0:
                    return ("count", v[1])
            if f == "size" and recv is not None and v0 is not None and v0[0] == "rows" and len(e.args) == 1 and astq.const_value(e.args[0]) == v0[2]:
                return ("count", v0[1])
            return None
        if isinstance(e, ast.Subscript) and isinstance(e.value, ast.Attribute) and e.value.attr == "shape":
            v = val(e.value.value)
            if v is not None and v[0] == "rows" and astq.const_value(e.slice) == v[2]:
                return ("count", v[1])
            return None
        return None

    def shape_slice(e):
        """(rows value, first axis of the slice) for  T.shape[a:b]"""
        if isinstance(e, ast.Subscript) and isinstance(e.value, ast.Attribute) and e.value.attr == "shape" and isinstance(e.slice, ast.Slice):
            lo = astq.const_value(e.slice.lower) if e.slice.lower is not None else 0
            v = val(e.value.value)
            if v is not None and v[0] == "rows" and isinstance(lo, int):
                return v, lo
        if isinstance(e, ast.Attribute) and e.attr == "shape":
            v = val(e.value)
            if v is not None and v[0] == "rows":
                return v, 0
        return None

    def run(stmts):
        for st in stmts:
            if isinstance(st, ast.Assign) and len(st.targets) == 1:
                t = st.targets[0]
                if isinstance(t, ast.Name):
                    v = val(st.value)
                    if v is None:
                        state.pop(t.id, None)
                    else:
                        state[t.id] = v
                elif isinstance(t, (ast.Tuple, ast.List)):
                    ss = shape_slice(st.value)
                    for k, e in enumerate(t.elts):
                        if isinstance(e, ast.Name):
                            if ss is not None and ss[1] + k == ss[0][2]:
                                state[e.id] = ("count", ss[0][1])
                            else:
                                state.pop(e.id, None)
            elif isinstance(st, ast.AugAssign) and isinstance(st.target, ast.Name):
                state.pop(st.target.id, None)
            for fld in ("body", "orelse", "finalbody"):
                blk = getattr(st, fld, None)
                if isinstance(blk, list) and not isinstance(st, (ast.FunctionDef, ast.ClassDef)):
                    run(blk)

    run(fn.body)
    vi, vn = val(rec["instances"]), val(rec["num_instances"])
    ok = vi is not None and vi[0] == "rows" and vn is not None and vn[0] == "count" and vn[1] == vi[1]
    res.ob(R, ok, fi.qualname, "num_instances = number of rows of the instances tensor before padding",
           f"{fi.name} hands out num_instances = `{short(astq.expand(fn, rec['num_instances']), 60)}`, which is not the row count of the collection stacked into `instances`: consumers take "
           "the first num_instances rows as the labelled animals, so a labelled animal is cut from (or padding is drawn into) the targets", fi.where)


def check_target_grid_size(prog: Program, res: Result) -> None:
    """The targets are drawn on the grid of the image they are returned with: wherever a dataset calls
    generate_confmaps / generate_multiconfmaps, `img_hw` is the `.shape[-2:]` of that very image (after cropping, resizing
    and padding) - not a configured size, which differs from the padded image whenever the crop size is not a multiple of the
    maximum stride."""
    R = "C01-grid"
    n = 0
    gens = ("sleap_nn.data.confidence_maps:generate_confmaps", "sleap_nn.data.confidence_maps:generate_multiconfmaps")
    for fi in prog.all_functions():
        if not fi.module.name.startswith(("sleap_nn.data.custom_datasets", "sleap_nn.data.streaming_datasets")):
            continue
        for c, q in prog.calls_in(fi):
            if q not in gens:
                continue
            n += 1
            res.touch(fi)
            a = astq.bind_args(prog.func(q), c).get("img_hw")
            e = astq.expand_at(fi.node, a, enclosing_stmt(c)) if a is not None else None
            txt = norm(e) if e is not None else ""
            def _is_shape(x):
                """x.shape[...] of some tensor expression, or a pair / tuple(...) built from such"""
                if isinstance(x, ast.Subscript):
                    return _is_shape(x.value) if not (isinstance(x.value, ast.Attribute) and x.value.attr == "shape") else True
                if isinstance(x, ast.Attribute) and x.attr == "shape":
                    return True
                if isinstance(x, (ast.Tuple, ast.List)):
                    return bool(x.elts) and all(_is_shape(t_) for t_ in x.elts)
                if isinstance(x, ast.Call) and norm(x.func) in ("tuple", "list") and len(x.args) == 1:
                    return _is_shape(x.args[0])
                return False
            ok = e is not None and _is_shape(e)
            res.ob(R, ok, fi.qualname, f"{q.split(':')[1]}: img_hw is the shape of the returned image",
                   f"`{short(c, 50)}` draws its targets on a grid of size `{short(e, 40) if e is not None else '?'}`, which is not the shape of the image in the sample: the target grid "
                   "and the (padded) network input disagree", f"{fi.module.relpath}:{c.lineno}")
    res.ob(R, n >= 6, "sleap_nn.data", "dataset target calls found", f"only {n} dataset calls of the confidence-map generators found", "")


def check(prog: Program, res: Result) -> None:
    from . import _batch
    _batch.check_every_iteration_accumulates(prog, res, "C01-max", ["sleap_nn.data.confidence_maps:make_multi_confmaps"])
    # the cached sample a dataset hands out is never written through (a second read of the same index must give the same
    # targets): shared with C11-cache
    from . import c11 as _c11
    res.borrow(lambda p_, r_: _c11.check_cache(p_, r_, _c11.make_alias(p_)), "C01-cache", prog)
    check_nan(prog, res)
    check_range(prog, res)
    check_sigma(prog, res)
    check_grid(prog, res)
    check_max(prog, res)
    check_count(prog, res)
    check_target_grid_size(prog, res)
    from . import _reshape
    _reshape.check_merge_split_order(prog, res, "C01-reshape", ["sleap_nn.data."])
    res.assumptions += ["sigma > 0 and output_stride > 0", "the exact Gaussian value, 'largest at the nearest cell' and the output shape arithmetic are not decided"]


F = "sleap_nn/data/confidence_maps.py"
U = "sleap_nn/data/utils.py"
VARIANTS = [
    Variant("nan-scrub-removed", F, "    # Replace NaNs with 0.\n    cm = torch.nan_to_num(cm)\n", "", "C01-nan"),
    Variant("nan-scrub-before-exp", F, "    cm = torch.exp(-((xv_reshaped - x) ** 2 + (yv_reshaped - y) ** 2) / (2 * sigma**2))\n\n    # Replace NaNs with 0.\n    cm = torch.nan_to_num(cm)\n",
            "    x = torch.nan_to_num(x)\n    cm = torch.exp(-((xv_reshaped - x) ** 2 + (yv_reshaped - y) ** 2) / (2 * sigma**2))\n    cm = cm / cm.amax(dim=(2, 3), keepdim=True)\n", "C01-nan"),
    Variant("nan-fill-one", F, "    cm = torch.nan_to_num(cm)\n", "    cm = torch.nan_to_num(cm, nan=1.0)\n", "C01-nan"),
    Variant("range-sign", F, "    cm = torch.exp(-((xv_reshaped - x) ** 2 + (yv_reshaped - y) ** 2) / (2 * sigma**2))", "    cm = torch.exp(-((xv_reshaped - x) ** 2 - (yv_reshaped - y) ** 2) / (2 * sigma**2))", "C01-range"),
    Variant("bp-max-loop-range", F, "    for p in points:\n        cm_instance = make_confmaps(p.unsqueeze(dim=0), xv, yv, sigma)",
            "    for idx in range(points.shape[0]):\n        cm_instance = make_confmaps(points[idx : idx + 1], xv, yv, sigma)", None),
    Variant("max-loop-skips-first", F, "    for p in points:\n        cm_instance = make_confmaps(p.unsqueeze(dim=0), xv, yv, sigma)",
            "    for idx in range(points.shape[0]):\n        cm_instance = make_confmaps(points[0:1], xv, yv, sigma)", "C01-max"),
    Variant("max-to-sum", F, "        cms = torch.maximum(cms, cm_instance)", "        cms = cms + cm_instance", "C01-max"),
    Variant("sigma-no-stride", F, "        yv,\n        sigma * output_stride,\n    )  # (n_samples, n_nodes, height/ output_stride, width/ output_stride)\n\n    return confidence_maps\n\n\ndef generate_multiconfmaps",
            "        yv,\n        sigma,\n    )  # (n_samples, n_nodes, height/ output_stride, width/ output_stride)\n\n    return confidence_maps\n\n\ndef generate_multiconfmaps", "C01-sigma"),
    Variant("sigma-from-paf-head", "sleap_nn/data/custom_datasets.py", "            sigma=self.confmap_head_config.sigma,\n            output_stride=self.confmap_head_config.output_stride,\n            is_centroids=False,",
            "            sigma=self.pafs_head_config.sigma,\n            output_stride=self.confmap_head_config.output_stride,\n            is_centroids=False,", "C01-sigma"),
    Variant("grid-hw-swapped-call", F, "    height, width = img_hw\n\n    xv, yv = make_grid_vectors(height, width, output_stride)\n\n    confidence_maps = make_confmaps(",
            "    height, width = img_hw\n\n    xv, yv = make_grid_vectors(width, height, output_stride)\n\n    confidence_maps = make_confmaps(", "C01-grid"),
    Variant("grid-start-half", U, "    xv = torch.arange(0, image_width, step=output_stride, dtype=torch.float32)", "    xv = torch.arange(output_stride // 2, image_width, step=output_stride, dtype=torch.float32)", "C01-grid"),
    Variant("grid-xy-swapped", F, "    x = torch.reshape(points_batch[:, :, 0], (samples, n_nodes, 1, 1))\n    y = torch.reshape(points_batch[:, :, 1], (samples, n_nodes, 1, 1))",
            "    x = torch.reshape(points_batch[:, :, 1], (samples, n_nodes, 1, 1))\n    y = torch.reshape(points_batch[:, :, 0], (samples, n_nodes, 1, 1))", "C01-grid"),
    Variant("centroids-flag", "sleap_nn/data/streaming_datasets.py", "            output_stride=self.confmap_head.output_stride,\n            is_centroids=True,", "            output_stride=self.confmap_head.output_stride,\n            is_centroids=False,", "C01-sigma"),
    Variant("bp-commute", F, "        sigma * output_stride,\n    )  # (n_samples, n_nodes, height/ output_stride, width/ output_stride)\n\n    return confidence_maps\n\n\ndef generate_multiconfmaps",
            "        output_stride * sigma,\n    )  # (n_samples, n_nodes, height/ output_stride, width/ output_stride)\n\n    return confidence_maps\n\n\ndef generate_multiconfmaps", None),
    Variant("bp-method-nan-to-num", F, "    cm = torch.nan_to_num(cm)\n", "    cm = cm.nan_to_num()\n", None),
]
