"""C17 — every tree skeleton gets a complete, parent-before-child edge order.

Decided: the order consumed by grouping IS the output of toposort_edges on the scorer's own
edge list (inter-procedural def-use), and toposort_edges derives it from a root-first
traversal of a directed graph holding every edge (library facts of networkx, cited)."""

from __future__ import annotations

import ast
from typing import Dict, List, Optional

from ..core import astq
from ..core.program import enclosing_stmt, AnalysisError, FunctionInfo, Program, norm, short, walk_function
from ..report import Result
from ..runner import Variant

PROP = "C17"
EXPLANATION = (
    "(topo) toposort_edges builds `edges` from ALL given edge types as (src, dst), a networkx.DiGraph of exactly those "
    "edges, takes the root as next(networkx.topological_sort(dg)) and orders edges with a root-first traversal "
    "(bfs_edges/dfs_edges/edge_bfs/edge_dfs from that root), mapping each back with edges.index in traversal order. "
    "Library facts used: in a rooted directed tree the first node of a topological order has in-degree 0 and is the "
    "root; a BFS/DFS edge traversal from the root yields every edge of the tree exactly once and an edge only after "
    "the edge into its source. (use) PAFScorer.sorted_edge_inds is assigned only from toposort_edges(self.edge_types); "
    "edge_types/edge_inds derive from the skeleton's own edges and part names; the value is bound, through "
    "group_instances -> group_instances_batch -> group_instances_sample, to the parameter whose iteration order "
    "fills the `connections` dict that assign_connections_to_instances iterates (dict insertion order). A hand-rolled "
    "traversal is reported as inconclusive (exit 2), not as a violation."
)
TRUSTED = [
    "CPython ast; dicts preserve insertion order (language guarantee)",
    "networkx: topological_sort yields an in-degree-0 node first; bfs_edges/dfs_edges from the root of a rooted tree yield each edge once, parent edge first",
]
PG = "sleap_nn.inference.paf_grouping"
TRAVERSALS = {"networkx.bfs_edges", "networkx.dfs_edges", "networkx.edge_bfs", "networkx.edge_dfs"}


def _index_of_part(e: ast.AST):
    """x when `e` is the position of node name x in self.part_names: self.part_names.index(x), or a lookup in
    {name: i for i, name in enumerate(self.part_names)} (node names of a skeleton are unique)."""
    if isinstance(e, ast.Call) and isinstance(e.func, ast.Attribute) and e.func.attr == "index" and norm(e.func.value) == "self.part_names" and len(e.args) == 1:
        return norm(e.args[0])
    if isinstance(e, ast.Subscript) and isinstance(e.value, ast.DictComp) and len(e.value.generators) == 1:
        c, g = e.value, e.value.generators[0]
        if not g.ifs and isinstance(g.iter, ast.Call) and norm(g.iter.func) == "enumerate" and len(g.iter.args) == 1 and norm(g.iter.args[0]) == "self.part_names" \
                and isinstance(g.target, ast.Tuple) and len(g.target.elts) == 2 and norm(c.key) == norm(g.target.elts[1]) and norm(c.value) == norm(g.target.elts[0]):
            return norm(e.slice)
    return None


def _single_def(fi: FunctionInfo, name: str) -> Optional[ast.AST]:
    defs = [st for st in astq.assignments_to(fi.node, name) if isinstance(st, ast.Assign)]
    return defs[0].value if len(defs) == 1 and len(astq.assignments_to(fi.node, name)) == 1 else None


def astq_stmt(n):
    return enclosing_stmt(n)


def check_topo(prog: Program, res: Result, fi=None, R: str = "C17-topo", direct: Optional[str] = None, result: Optional[ast.AST] = None) -> None:
    """`direct`/`result`: the traversal sits (after helper absorption) in another function, reads the edge list `direct`
    (e.g. self.edge_inds) as it is, and its result is the expression `result` instead of the returned value."""
    if fi is None:
        fi = prog.func(f"{PG}:toposort_edges")
    res.touch(fi)

    class _R:  # uniform access to "the result expression"
        value = result
    rets = [n for n in walk_function(fi.node) if isinstance(n, ast.Return) and n.value is not None] if result is None else [_R]
    if len(rets) != 1:
        res.inconclusive(f"{fi.qualname}: {len(rets)} returns")
        return
    param = fi.params[0] if direct is None else direct
    calls = {id(c): q for c, q in prog.calls_in(fi)}
    trav = [c for c, q in prog.calls_in(fi) if q in TRAVERSALS]
    if not trav:
        res.inconclusive(f"{fi.qualname}: no networkx edge traversal found (hand-rolled ordering is not modelled)")
        return
    res.ob(R, len(trav) == 1, fi.qualname, "one traversal call", f"{len(trav)} traversal calls", fi.where)
    t = trav[0]
    g_arg, root_arg = (t.args + [None, None])[:2]
    for k in t.keywords:
        if k.arg in ("source",):
            root_arg = k.value
        if k.arg in ("reverse", "orientation", "depth_limit", "sort_neighbors"):
            res.ob(R, False, fi.qualname, f"plain traversal: {short(t, 60)}", f"traversal is called with `{k.arg}=`: the root-first order is not guaranteed",
                   f"{fi.module.relpath}:{t.lineno}")
    # the graph
    gdef = astq.expand_at(fi.node, g_arg, enclosing_stmt(t), depth=1) if g_arg is not None else None
    if isinstance(gdef, ast.Name):
        gdef = _single_def(fi, gdef.id)
    is_dg = isinstance(gdef, ast.Call) and norm(gdef.func).split(".")[-1] == "DiGraph" and (prog.resolve_expr_name(fi.module, gdef.func) or "").startswith("networkx")
    res.ob(R, is_dg, fi.qualname, "graph is a networkx.DiGraph", f"the traversal graph is built by `{short(gdef, 50) if gdef is not None else '?'}` (not a directed graph: "
           "edge direction, hence parent-before-child, is lost)", fi.where)
    edges_name = None
    if is_dg and gdef.args and isinstance(gdef.args[0], ast.Name):
        edges_name = gdef.args[0].id
    if is_dg and gdef.args and direct is not None and norm(gdef.args[0]) == direct:
        edges_name = direct
    res.ob(R, edges_name is not None and len(gdef.args) == 1 and not gdef.keywords if is_dg else False, fi.qualname,
           "graph holds exactly the edge list", "the DiGraph is not built from the complete edge list", fi.where)
    if edges_name and direct is None:
        builds = astq.list_builds(fi.node, edges_name)
        ok = len(builds) == 1
        if ok:
            b = builds[0]
            g0 = b.gens[0] if b.gens else None
            le0 = astq.loop_elems(g0, fi.node) if g0 is not None else None
            elt0 = b.elt
            if isinstance(elt0, ast.Name) and isinstance(b.site, ast.Call):      # edge = (src, dst); edges.append(edge)
                elt0 = astq.expand_at(fi.node, elt0, enclosing_stmt(b.site), keep=sorted(astq.target_names(g0.target)) if g0 is not None else [])
            ok = len(b.gens) == 1 and not b.conds and le0 is not None and norm(le0.seq) == param and le0.elem is not None and isinstance(elt0, ast.Tuple) and len(elt0.elts) == 2 \
                and "src" in norm(elt0.elts[0]) and "dst" in norm(elt0.elts[1]) and all(le0.elem in astq.names_in(e) for e in elt0.elts)
        res.ob(R, ok, fi.qualname, "edges = [(src, dst) for every given edge type]",
               f"the edge list `{edges_name}` is not every edge as (source, destination)", fi.where,
               sample=short(builds[0].site, 90) if builds else None)
    # the root: next(topological_sort(same graph))
    rdef = astq.expand(fi.node, root_arg, keep=[norm(g_arg)] if g_arg is not None else []) if root_arg is not None else None
    ok_root = isinstance(rdef, ast.Call) and norm(rdef.func) == "next" and rdef.args and isinstance(rdef.args[0], ast.Call) \
        and norm(rdef.args[0].func).split(".")[-1] == "topological_sort" and rdef.args[0].args and norm(rdef.args[0].args[0]) == (norm(g_arg) if g_arg is not None else "")
    res.ob(R, ok_root, fi.qualname, "root = next(networkx.topological_sort(dg))",
           f"the traversal starts at `{short(rdef, 60) if rdef is not None else '?'}`, not at the first node of a topological order of the same graph "
           "(edges above that node would never be visited)", fi.where)
    # the mapping back: one result element per traversed edge, in traversal order, = position of that edge in the edge list
    rv = rets[0].value
    inner = rv
    while isinstance(inner, ast.Call) and norm(inner.func) in ("tuple", "list") and inner.args:
        inner = inner.args[0]
    sorted_name = None
    for s_ in walk_function(fi.node):
        if isinstance(s_, ast.Assign) and s_.value is t and isinstance(s_.targets[0], ast.Name):
            sorted_name = s_.targets[0].id
    build = None
    if isinstance(inner, (ast.ListComp, ast.GeneratorExp)):
        build = astq.ListBuild("<result>", inner.elt, list(inner.generators), [i_ for g_ in inner.generators for i_ in g_.ifs], inner)
    elif isinstance(inner, ast.Name):
        d = _single_def(fi, inner.id)
        dd = d
        while isinstance(dd, ast.Call) and norm(dd.func) in ("tuple", "list") and dd.args:
            dd = dd.args[0]
        if isinstance(dd, (ast.ListComp, ast.GeneratorExp)):
            build = astq.ListBuild(inner.id, dd.elt, list(dd.generators), [i_ for g_ in dd.generators for i_ in g_.ifs], dd)
        else:
            bs = astq.list_builds(fi.node, inner.id)
            build = bs[0] if len(bs) == 1 else None

    def _is_index_of(e: ast.AST, var: str) -> bool:
        if isinstance(e, ast.Call) and norm(e.func) == f"{edges_name}.index" and len(e.args) == 1 and norm(e.args[0]) == var:
            return True
        if isinstance(e, ast.Subscript) and isinstance(e.value, ast.Name) and norm(e.slice) == var:
            m = e.value.id  # a position map of the edge list: {edge: first index}
            for st_ in walk_function(fi.node):
                if isinstance(st_, ast.Assign) and norm(st_.targets[0]) == m and isinstance(st_.value, ast.DictComp):
                    g_ = st_.value.generators[0]
                    le_ = astq.loop_elems(g_, fi.node)
                    if le_ is not None and norm(le_.seq) == edges_name and le_.index and le_.elem and norm(st_.value.key) == le_.elem and norm(st_.value.value) == le_.index and not g_.ifs:
                        return True
            for c_ in astq.method_calls(fi.node, "setdefault"):
                if norm(c_.func.value) == m and len(c_.args) == 2:
                    lp_ = (astq.enclosing_loops(c_) or [None])[0]
                    le_ = astq.loop_elems(lp_, fi.node) if isinstance(lp_, ast.For) else None
                    if le_ is not None and norm(le_.seq) == edges_name and norm(c_.args[0]) == le_.elem and norm(c_.args[1]) == le_.index:
                        return True
                    # ... or the map is filled in the very loop that builds the edge list: the i-th iteration appends E and files E -> i
                    if le_ is not None and le_.index is not None and norm(c_.args[1]) == le_.index and isinstance(lp_, ast.For):
                        apps_ = [a_ for a_ in astq.method_calls(lp_, "append") if norm(a_.func.value) == edges_name and a_.args]
                        if len(apps_) == 1 and enclosing_stmt(apps_[0]) in lp_.body and enclosing_stmt(c_) in lp_.body and norm(apps_[0].args[0]) == norm(c_.args[0]) \
                                and not any(isinstance(x_, (ast.Continue, ast.Break)) for x_ in ast.walk(lp_)):
                            return True
        return False

    ok_map = build is not None and len(build.gens) == 1 and not build.conds
    if ok_map:
        g0 = build.gens[0]
        ok_map = (norm(g0.iter) == sorted_name or g0.iter is t or (isinstance(g0.iter, ast.Call) and norm(g0.iter) == norm(t))) and _is_index_of(build.elt, norm(g0.target))
    res.ob(R, ok_map, fi.qualname, "result = edges.index(e) for e in traversal order",
           f"the result `{short(rv, 80)}` does not map every traversed edge back to its position in `{edges_name}` in traversal order", fi.where)
    wrap = norm(rv) if not isinstance(rv, ast.Name) else norm(_single_def(fi, rv.id) or rv)
    res.ob(R, not any(w in wrap for w in ("reversed(", "sorted(", "[::-1]", "set(")), fi.qualname, "order not altered after the traversal",
           "the traversal order is reversed/sorted/de-duplicated before it is returned", fi.where)
    if direct is None:
        res.floor(R, 7)


def _attr_build(post, attr: str):
    """How self.<attr> (a list) is built in __attrs_post_init__: comprehension assigned directly, or a local list filled
    in a loop and assigned afterwards."""
    sts = [s_ for s_ in walk_function(post.node) if isinstance(s_, ast.Assign) and norm(s_.targets[0]) == f"self.{attr}"]
    if len(sts) != 1:
        return None
    v = sts[0].value
    if isinstance(v, ast.ListComp):
        return astq.ListBuild(attr, v.elt, list(v.generators), [i_ for g_ in v.generators for i_ in g_.ifs], v)
    if isinstance(v, ast.Name):
        bs = astq.list_builds(post.node, v.id)
        return bs[0] if len(bs) == 1 else None
    if isinstance(v, ast.List) and not v.elts:
        # self.<attr> = [] filled in place by self.<attr>.append(...)
        bs = astq.list_builds(post.node, f"self.{attr}")
        return bs[0] if len(bs) == 1 else None
    return None


def check_use(prog: Program, res: Result, rule: str = "C17-use") -> None:
    R = rule
    ci = prog.cls(f"{PG}:PAFScorer")
    post = ci.methods.get("__attrs_post_init__")
    if post is None:
        raise AnalysisError("PAFScorer.__attrs_post_init__ vanished")
    res.touch(post)
    # 1. single writer of sorted_edge_inds
    writers = []
    for fi in prog.all_functions():
        for n in walk_function(fi.node):
            if isinstance(n, ast.Attribute) and n.attr == "sorted_edge_inds" and isinstance(n.ctx, ast.Store):
                writers.append((fi, n))
    res.ob(R, len(writers) == 1 and writers[0][0] is post, post.qualname, "sorted_edge_inds written once, in __attrs_post_init__",
           f"sorted_edge_inds is assigned at {len(writers)} sites: {[w[0].qualname for w in writers]}", post.where)
    for fi, n in writers:
        st = n._parent
        ok = isinstance(st, ast.Assign) and isinstance(st.value, ast.Call) and prog.resolve_call(fi, st.value) == f"{PG}:toposort_edges" \
            and len(st.value.args) == 1 and astq.self_alias(fi.node, st.value.args[0]) == "self.edge_types"
        if not ok and isinstance(st, ast.Assign) and any(q in TRAVERSALS for _, q in prog.calls_in(fi)):
            # the ordering is computed in place (an absorbed helper) from self.edge_inds: same obligations as C17-topo
            before = len(res.findings)
            check_topo(prog, res, fi=fi, R=R, direct="self.edge_inds", result=st.value)
            ok = len(res.findings) == before
        res.ob(R, ok, fi.qualname, "self.sorted_edge_inds = toposort_edges(self.edge_types)",
               f"sorted_edge_inds is assigned `{short(st.value, 60)}`: not the topological order of the scorer's own edge types",
               f"{fi.module.relpath}:{n.lineno}", sample=short(st, 80))
    bi, bt = _attr_build(post, "edge_inds"), _attr_build(post, "edge_types")
    # edge_inds: one (index(src), index(dst)) per skeleton edge, in the order of self.edges
    ok = bi is not None and len(bi.gens) == 1 and not bi.conds and norm(bi.gens[0].iter) == "self.edges"
    pair = None
    if ok:
        tg = bi.gens[0].target
        elt = astq.expand_at(post.node, bi.elt, bi.site if isinstance(bi.site, ast.stmt) else astq_stmt(bi.site), keep=sorted(astq.target_names(tg)))
        # the two ends of the iterated edge: (src, dst) unpacked, or e[0] / e[1]
        ends = [norm(x) for x in tg.elts] if isinstance(tg, ast.Tuple) and len(tg.elts) == 2 else ([f"{tg.id}[0]", f"{tg.id}[1]"] if isinstance(tg, ast.Name) else None)
        ok = isinstance(elt, ast.Tuple) and len(elt.elts) == 2 and ends is not None and _index_of_part(elt.elts[0]) == ends[0] and _index_of_part(elt.elts[1]) == ends[1]
        pair = elt if ok else None
    res.ob(R, ok, post.qualname, "edge_inds = (part_names.index(src), part_names.index(dst)) for every edge",
           "edge_inds is not the (source index, destination index) of every skeleton edge", post.where)
    # edge_types: EdgeType(src index, dst index) per edge, in step with edge_inds
    ok = bt is not None and len(bt.gens) == 1 and not bt.conds and isinstance(bt.elt, ast.Call) and norm(bt.elt.func).split(".")[-1] == "EdgeType" and len(bt.elt.args) == 2
    if ok:
        g0 = bt.gens[0]
        if norm(g0.iter) == "self.edge_inds":
            tgt = [norm(e) for e in g0.target.elts] if isinstance(g0.target, ast.Tuple) else []
            args = [norm(a) for a in bt.elt.args]
            ok2 = tgt == args and len(tgt) == 2
        else:
            # built in the same pass as edge_inds: same loop, arguments expand to the pair appended to edge_inds
            same_loop = bi is not None and bi.gens and g0 is bi.gens[0]
            tg = g0.target
            site = bt.site if isinstance(bt.site, ast.stmt) else astq_stmt(bt.site)
            args = [norm(astq.expand_at(post.node, a, site, keep=sorted(astq.target_names(tg)))) for a in bt.elt.args]
            ok2 = bool(same_loop) and pair is not None and args == [norm(pair.elts[0]), norm(pair.elts[1])]
        res.ob(R, ok2, post.qualname, "EdgeType(src, dst) keeps source/destination order",
               f"EdgeType is built as EdgeType({', '.join(args)}): not (source index, destination index) of the same edge", post.where)
    res.ob(R, ok, post.qualname, "edge_types = EdgeType(src, dst) for every (src, dst) in self.edge_inds", "edge_types is not one EdgeType per skeleton edge", post.where)
    # 2. hand-over chain
    chain = [
        (ci.methods.get("group_instances"), f"{PG}:group_instances_batch",
         {"sorted_edge_inds": "self.sorted_edge_inds", "edge_types": "self.edge_types", "n_nodes": "self.n_nodes",
          "min_instance_peaks": "self.min_instance_peaks", "min_line_scores": "self.min_line_scores"}),
        (prog.func(f"{PG}:group_instances_batch"), f"{PG}:group_instances_sample",
         {"sorted_edge_inds": "sorted_edge_inds", "edge_types": "edge_types", "n_nodes": "n_nodes",
          "min_instance_peaks": "min_instance_peaks", "min_line_scores": "min_line_scores"}),
    ]
    for caller, callee_q, want in chain:
        if caller is None:
            raise AnalysisError("PAFScorer.group_instances vanished")
        res.touch(caller)
        callee = prog.func(callee_q)
        calls = [c for c, q in prog.calls_in(caller) if q == callee_q]
        res.ob(R, len(calls) == 1, caller.qualname, f"one call of {callee.name}", f"{len(calls)} calls of {callee.name}", caller.where)
        for c in calls:
            bound = astq.bind_args(callee, c)
            for p, expr in want.items():
                got = bound.get(p)
                if got is not None and norm(got) != expr:   # a named intermediate: the value that reaches the call
                    got = astq.expand_at(caller.node, got, enclosing_stmt(c)) or got
                res.ob(R, got is not None and norm(got) == expr and not (isinstance(bound.get(p), ast.Name) and expr == norm(bound.get(p)) and astq.assignments_to(caller.node, expr)),
                       caller.qualname, f"{callee.name}({p}={expr})",
                       f"{callee.name} receives `{short(got, 40) if got is not None else 'nothing'}` for its parameter `{p}` (expected `{expr}`)",
                       f"{caller.module.relpath}:{c.lineno}")
    # 3. the order fills the connections dict
    gs = prog.func(f"{PG}:group_instances_sample")
    res.touch(gs)
    ac_calls = [c for c, q in prog.calls_in(gs) if q == f"{PG}:assign_connections_to_instances"]
    res.ob(R, len(ac_calls) == 1, gs.qualname, "one call of assign_connections_to_instances", f"{len(ac_calls)} calls", gs.where)
    if ac_calls:
        arg0 = astq.call_arg(ac_calls[0], 0, "connections")
        dname = arg0.id if isinstance(arg0, ast.Name) else None
        stores = [st for st in walk_function(gs.node) if isinstance(st, ast.Assign) and isinstance(st.targets[0], ast.Subscript)
                  and isinstance(st.targets[0].value, ast.Name) and st.targets[0].value.id == dname]
        inits = [st for st in astq.assignments_to(gs.node, dname)] if dname else []
        res.ob(R, len(inits) == 1 and norm(inits[0].value) in ("{}", "dict()"), gs.qualname, "connections starts as an empty dict",
               "connections is not initialised as an empty dict exactly once", gs.where)
        res.ob(R, len(stores) == 1, gs.qualname, "one store into connections", f"{len(stores)} stores into connections", gs.where)
        for st in stores:
            loops = astq.enclosing_loops(st)
            ok = len(loops) == 1 and isinstance(loops[0], ast.For) and norm(loops[0].iter) == "sorted_edge_inds" and not astq.assignments_to(gs.node, "sorted_edge_inds")
            res.ob(R, ok, gs.qualname, "connections filled by `for edge_ind in sorted_edge_inds`",
                   f"connections is filled by a loop over `{short(loops[0].iter, 40) if loops else 'no loop'}`: its insertion order is not the topological edge order",
                   f"{gs.module.relpath}:{st.lineno}", sample=short(loops[0].iter, 40) if loops else None)
            if ok:
                lv = norm(loops[0].target)
                key = st.targets[0].slice
                kd = _single_def(gs, key.id) if isinstance(key, ast.Name) else key
                # the key may be assigned inside the loop (single def in function)
                res.ob(R, kd is not None and norm(kd) == f"edge_types[{lv}]", gs.qualname, f"key is edge_types[{lv}]",
                       f"the connections key is `{short(kd, 40) if kd is not None else '?'}`, not the edge type of the current edge index", f"{gs.module.relpath}:{st.lineno}")
                masks = [n for n in ast.walk(loops[0]) if isinstance(n, ast.Compare) and isinstance(n.ops[0], ast.Eq) and lv in (norm(n.left), norm(n.comparators[0]))]
                res.ob(R, len(masks) == 1 and "match_edge_inds_sample" in norm(masks[0]), gs.qualname, "matches selected by match_edge_inds_sample == edge_ind",
                       "the matches of an edge are not selected by comparing match_edge_inds_sample with the current edge index", f"{gs.module.relpath}:{st.lineno}")
    ac = prog.func(f"{PG}:assign_connections_to_instances")
    res.touch(ac)
    outer = sorted([n for n in walk_function(ac.node) if isinstance(n, ast.For) and not astq.enclosing_loops(n)
                    and any(isinstance(x, ast.Assign) and isinstance(x.targets[0], ast.Subscript) for x in ast.walk(n))],
                   key=lambda n: n.lineno)
    ok = bool(outer) and norm(outer[0].iter) == "connections.items()"
    res.ob(R, ok, ac.qualname, "assembly iterates connections.items() in insertion order",
           f"assembly iterates `{short(outer[0].iter, 40) if outer else '?'}`", ac.where)
    # predict passes through group_instances
    pr = ci.methods.get("predict")
    if pr is not None:
        res.touch(pr)
        gi = [c for c, q in prog.calls_in(pr) if q == f"{PG}:PAFScorer.group_instances"]
        res.ob(R, len(gi) == 1, pr.qualname, "predict groups through self.group_instances", f"{len(gi)} calls of self.group_instances in predict", pr.where)
    res.floor(R, 20)


def check(prog: Program, res: Result) -> None:
    check_topo(prog, res)
    check_use(prog, res)
    # the order handed to group_instances_batch reaches every sample unchanged (not narrowed by earlier samples)
    from . import _batch
    _batch.check_per_sample_lists(prog, res, "C17-use", ["sleap_nn.inference.paf_grouping:group_instances_batch"])
    res.assumptions.append("the exhaustive enumeration of trees and edge listings is execution and is not done")


F = "sleap_nn/inference/paf_grouping.py"
VARIANTS = [
    Variant("undirected", F, "    dg = nx.DiGraph(edges)\n", "    dg = nx.Graph(edges)\n", "C17-topo"),
    Variant("root-first-listed", F, "    root_ind = next(nx.topological_sort(dg))\n", "    root_ind = edges[0][0]\n", "C17-topo"),
    Variant("reversed", F, "    sorted_edge_inds = tuple([edges.index(edge) for edge in sorted_edges])", "    sorted_edge_inds = tuple(reversed([edges.index(edge) for edge in sorted_edges]))", "C17-topo"),
    Variant("swapped-edge", F, "        (edge_type.src_node_ind, edge_type.dst_node_ind) for edge_type in edge_types\n    ]\n    dg",
            "        (edge_type.dst_node_ind, edge_type.src_node_ind) for edge_type in edge_types\n    ]\n    dg", "C17-topo"),
    Variant("partial-graph", F, "    dg = nx.DiGraph(edges)\n", "    dg = nx.DiGraph(edges[1:])\n", "C17-topo"),
    Variant("use-listing-order", F, "        self.sorted_edge_inds = toposort_edges(self.edge_types)", "        self.sorted_edge_inds = tuple(range(self.n_edges))", "C17-use"),
    Variant("use-iter-edge-types", F, "    for edge_ind in sorted_edge_inds:\n        in_edge", "    for edge_ind in range(len(edge_types)):\n        in_edge", "C17-use"),
    Variant("use-args-swapped", F, "            self.n_nodes,\n            self.sorted_edge_inds,\n            self.edge_types,\n            self.min_instance_peaks,",
            "            self.n_nodes,\n            self.edge_types,\n            self.sorted_edge_inds,\n            self.min_instance_peaks,", "C17-use"),
    Variant("use-sorted-overwritten", F, "    # Group connection data by edge in sorted order.", "    sorted_edge_inds = sorted(sorted_edge_inds)\n    # Group connection data by edge in sorted order.", "C17-use"),
    Variant("bp-dfs", F, "    sorted_edges = nx.bfs_edges(dg, root_ind)", "    sorted_edges = nx.dfs_edges(dg, root_ind)", None),
    Variant("bp-keyword-call", F, "            self.min_instance_peaks,\n            min_line_scores=self.min_line_scores,", "            min_instance_peaks=self.min_instance_peaks,\n            min_line_scores=self.min_line_scores,", None),
]
