"""Per-property metadata for MANIFEST.json (the deciding code is in sa/props/cNN.py)."""

# id -> dict(text=..., note=..., technique=..., engine=..., ref=...)   (claimed)
# id -> dict(na="reason")                                              (not claimed)
REGISTRY = {
    "C13": dict(
        text="Static proof obligations of a schedule-free argument: the check decides, on the CFGs of the two reader "
        "threads and of the consumer loop, the premises (exactly one end-of-stream put cutting every normal and "
        "exceptional exit, exactly one frame put per completed iteration of an increasing range, single producer / "
        "single consumer ownership of a bounded queue.Queue, marker tested before use, flag-terminated stream loop, "
        "partial batch flushed, join on exit). Holding for all interleavings, capacities and fault positions then "
        "follows from the FIFO contract of queue.Queue; no schedule is enumerated, which is why a path/ownership "
        "analysis is the right level for a property quantified over schedules and crash points.",
        note="Trusted: CPython ast, networkx reachability, the CFG builder (sa/core/cfg.py), queue.Queue being a "
        "blocking thread-safe FIFO. Not decided: a consumer that dies mid-stream leaves the producer blocked "
        "(outside the statement).",
        technique="CFG must-pass-through / exactly-once path rules + who-may-call ownership",
        engine="E3 flow + E7 who-may-call",
        ref="DESIGN.md §4 C13",
    ),
}

ALL = ["C%02d" % i for i in range(1, 21)]
