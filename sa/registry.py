"""Per-property metadata for MANIFEST.json (the deciding code is in sa/props/cNN.py)."""

# id -> dict(text=..., note=..., technique=..., engine=..., ref=...)   (claimed)
# id -> dict(na="reason")                                              (not claimed)
REGISTRY = {
    "C13": dict(
        text="Static proof obligations of a schedule-free argument: the check decides, on the CFGs of the two reader "
        "threads and of the consumer loop, the premises (exactly one end-of-stream put cutting every normal and "
        "exceptional exit, exactly one frame put per completed iteration of an increasing range, single producer / "
        "single consumer ownership of a bounded queue.Queue, marker tested before use, flag-terminated stream loop, "
        "partial batch flushed, join on exit). Holding for all interleavings, capacities and fault positions then "
        "follows from the FIFO contract of queue.Queue; no schedule is enumerated, which is why a path/ownership "
        "analysis is the right level for a property quantified over schedules and crash points.",
        note="Trusted: CPython ast, networkx reachability, the CFG builder (sa/core/cfg.py), queue.Queue being a "
        "blocking thread-safe FIFO. Not decided: a consumer that dies mid-stream leaves the producer blocked "
        "(outside the statement).",
        technique="CFG must-pass-through / exactly-once path rules + who-may-call ownership",
        engine="E3 flow + E7 who-may-call",
        ref="DESIGN.md §4 C13",
    ),
    "C19": dict(
        text="Typestate analysis (UNMASKED/MASKED) of the trainer's configuration object over the lifecycle "
        "ModelTrainer.__init__ ; train with self-callees inlined: every persistence sink (the five OmegaConf.save "
        "sites, OmegaConf.to_container for the experiment tracker, the checkpoint written inside trainer.fit) is "
        "reached only in state MASKED. Because this is a dominance fact over the CFG it holds at every crash point "
        "between two file writes and for every configuration (tracking on/off, framework, structured or plain). "
        "Also decided: the stashed key flows only into wandb.login; the final training_config.yaml save cuts every "
        "exit of train() after fit; chunk deletion sits in that finally under its flag and framework; no config write "
        "precedes the initial save; every self.config path read/written by ModelTrainer and TrainingModel resolves in "
        "the attrs schema tree (a write of an undeclared key raises on builder-made configs).",
        note="Trusted: ast, networkx, the enumerated serialisation sinks, Lightning calling on_save_checkpoint only "
        "inside fit. Not decided: that training completes without error in general, checkpoint creation by "
        "Lightning, equality of the saved YAML with the supplied configuration, files written by wandb itself.",
        technique="CFG typestate dataflow + must-reach + schema path conformance",
        engine="E3 typestate/flow + E5 schema",
        ref="DESIGN.md §4 C19",
    ),
    "C20": dict(
        text="Schema-directed wiring analysis of the builders in sleap_nn/train.py against the attrs config schema read "
        "from the AST: train() forwards each of its 55 parameters by name to exactly one builder; the construction tree "
        "each builder returns is extracted and compared with the documented parameter->config-path table (no argument "
        "dropped, modified, cross-wired or passed to an undeclared field; nested objects have the declared type; the "
        "validation loader never shuffles; augmentation built iff use_augmentations_train); the per-name branches of "
        "get_aug_config commute pairwise and leave their own fields enabled given the loop-entry values; presets and "
        "dict keys select the attribute/class of the same name; every *_p field has validate_proportion whose raise "
        "condition is exactly the complement of [0,1]; the scale/model_type/optimizer/devices/min_lr/pre_trained "
        "validators raise; HeadConfig/BackboneConfig are wrapped by a oneof whose __init__ wrapper raises when more "
        "than one attribute is set. These are statements over all argument combinations because they are facts about "
        "the wiring, not about sampled calls.",
        note="Trusted: ast; attrs runs validators in __init__; the parameter->field table frozen in sa/props/c20.py as "
        "the documented interface. Not decided: YAML save/load round trip and idempotence of verify_training_cfg "
        "(OmegaConf runtime semantics), defaults of options the builders do not expose beyond their being left to "
        "the schema.",
        technique="schema-directed wiring / construction-tree comparison + branch-commutativity + validator structure",
        engine="E5 schema",
        ref="DESIGN.md §4 C20",
    ),
}

ALL = ["C%02d" % i for i in range(1, 21)]
