"""Per-property metadata for MANIFEST.json (the deciding code is in sa/props/cNN.py)."""

# id -> dict(text=..., note=..., technique=..., engine=..., ref=...)   (claimed)
# id -> dict(na="reason")                                              (not claimed)
REGISTRY = {
    "C13": dict(
        text="Static proof obligations of a schedule-free argument: the check decides, on the CFGs of the two reader "
        "threads and of the consumer loop, the premises (exactly one end-of-stream put cutting every normal and "
        "exceptional exit, exactly one frame put per completed iteration of an increasing range, single producer / "
        "single consumer ownership of a bounded queue.Queue, marker tested before use, flag-terminated stream loop, "
        "partial batch flushed, join on exit). Holding for all interleavings, capacities and fault positions then "
        "follows from the FIFO contract of queue.Queue; no schedule is enumerated, which is why a path/ownership "
        "analysis is the right level for a property quantified over schedules and crash points.",
        note="Trusted: CPython ast, networkx reachability, the CFG builder (sa/core/cfg.py), queue.Queue being a "
        "blocking thread-safe FIFO. Not decided: a consumer that dies mid-stream leaves the producer blocked "
        "(outside the statement).",
        technique="CFG must-pass-through / exactly-once path rules + who-may-call ownership",
        engine="E3 flow + E7 who-may-call",
        ref="DESIGN.md §4 C13",
    ),
    "C01": dict(
        text="Decided for every keypoint array / NaN pattern / size / stride because they are facts of data flow and of the "
        "expression's algebraic shape: flow-sensitive NaN taint (with function summaries) proves that with NaN keypoints "
        "nothing NaN leaves make_confmaps, make_multi_confmaps, generate_*confmaps or the DataPipe generators (scrub after "
        "the exp, before the max, fill 0); sign/interval evaluation proves values in [0,1] for sigma>0; at all 5 producer "
        "call sites the spread is sigma * the very stride that built the grid, at all 12 dataset/streaming/pipeline call "
        "sites sigma and output_stride come from one confmap head config; the grid is arange(0, size, stride) with "
        "x<->width/last axis and y<->height/axis -2 at the definition and every call site; the multi-instance reduction "
        "is a running maximum from zeros over every instance.",
        note="Trusted: ast, networkx, nan_to_num/maximum/exp facts. Assumes sigma>0, stride>0. Not decided: the exact value "
        "exp(-d^2/2(sigma*stride)^2), 'largest at the nearest cell', the output shape arithmetic.",
        technique="NaN taint dataflow + sign/interval abstract evaluation + call-site unit/axis agreement rules",
        engine="E4a taint + E4c sign + E7 structural",
        ref="DESIGN.md §4 C01",
    ),
    "C02": dict(
        text="Abstract interpretation of the repo's own inference code over coordinate-frame values (units-of-measure monomials "
        "over symbolic scales named by config path / allocation site, plus pending crop origins) for the six entry points "
        "(single x2 providers; top-down both models x2; centroid-only; GT-centroid + centered-instance): every coordinate "
        "reaching PredictedInstance.from_numpy and the raw peak/centroid outputs has monomial 1 and no pending origin; each "
        "network receives eff_scale x its own training scale for both providers; crops are cut with boxes in the image's "
        "frame; padding is right/bottom only; the box corner subtracted and re-added is corner 0 (listed first as "
        "(x-w/2, y-h/2)). Because the factors cancel symbolically this holds for every image size, max height/width, both "
        "input scales, strides, crop and batch size - which is what the property quantifies over and no test samples.",
        note="Trusted: ast; the leaf transfer table/contracts (resize factor, F.pad, crop_and_resize, size matching returns "
        "(image*e, e), peak finders return grid coordinates, queue payload); a network's grid is input/its own head stride. "
        "Not decided: half-stride accuracy, NaN/0 for invisible keypoints, pixel equality of the two providers.",
        technique="abstract interpretation with a units-of-measure (coordinate frame) domain over an explicit heap",
        engine="E2 geom",
        ref="DESIGN.md §2.2 E2, §4 C02",
    ),
    "C03": dict(
        text="The same coordinate-frame abstract interpretation for BottomUpPredictor x both providers: grouped keypoints "
        "emitted with monomial 1; the PAF tensor is sampled at peaks / scorer.pafs_stride which must equal the grid of the "
        "PAF head (ties scorer stride, both head strides and the input scale to the bottom-up config); premises of the "
        "scorer contract checked structurally (division by pafs_stride before rounding, (x,y)->(row,col), clipping to the "
        "extent, per-sample selection, from_config binding, coordinates copied unchanged); PAFs made channel-last; "
        "edge order toposorted.",
        note="Trusted as C02. Not decided: that grouping returns exactly the labelled animals (numerical line integral), "
        "channel numbering 2e+c (pinned by tests).",
        technique="abstract interpretation with a units-of-measure domain + structural premises of the grouping contract",
        engine="E2 geom + E7 structural",
        ref="DESIGN.md §4 C03",
    ),
    "C04": dict(
        text="Coordinate-frame abstract interpretation (the C02 engine) of the training-data code: the four Dataset classes "
        "(cache fill + __getitem__, in-memory and .npz), the four chunk functions + streaming __getitem__ and the functional "
        "helpers are interpreted, and at every target generator, crop, augmenter call and in the returned sample the image "
        "and the keypoints/centroids carry the same monomial (eff_scale x scale x augmentation transform) and the same set "
        "of crop origins - for every image size, max height/width, scale, crop size and augmentation draw, because the "
        "factors are symbolic. Premises of the leaf contracts are checked structurally: size matching returns the ratio it "
        "resized with, resize_image scales both sides alike, every F.pad of the data package pads right/bottom only, crops are "
        "resampled to the size their box was built with, the corner subtracted is corner 0, the intensity stack holds only "
        "kornia intensity classes (parsed from the kornia sources), both augmenters return the augmenter's own keypoints.",
        note="Trusted: ast, the leaf transfer table, kornia applying one sampled transform to all data_keys. Not decided: "
        "sub-pixel interpolation error, exact output sizes, the affine itself. Observation outside the properties: the "
        "streaming centered-instance re-crop is centred on an unscaled centroid when scale != 1 (DESIGN.md D12).",
        technique="abstract interpretation with a units-of-measure domain + structural premises of the leaf contracts",
        engine="E2 geom + E7 structural",
        ref="DESIGN.md §4 C04",
    ),
    "C05": dict(
        text="NaN taint with missing endpoints tainted and the division by the edge norm as a NaN source (0/0 of a "
        "zero-length edge, with a positive control that the source is seen): the per-instance field is scrubbed before it is "
        "added and nothing NaN is returned; the accumulator is zeros updated by += once per instance; the weight is "
        "gaussian_pdf in [0,1] of a non-negative squared distance with the projection clamped to the segment and a "
        "denominator bounded away from 0; direction = (destination - source)/norm with sources/destinations = columns 0/1 "
        "of edge_inds, field = weight x unit vector laid out (edges, 2, H, W) and flattened edge-major; every "
        "dataset/streaming/pipeline call site passes flatten_channels=True, the skeleton's edge_inds and the PAF head's "
        "own sigma/stride.",
        note="Trusted: ast, networkx, clamp/exp facts. Not decided: unit length numerically, monotonicity of the weight with "
        "distance, the in-image filter, channel numbering against the reader (pinned by tests).",
        technique="NaN taint dataflow + sign/interval evaluation + structural direction/layout rules",
        engine="E4a taint + E4c sign + E7 structural",
        ref="DESIGN.md §4 C05",
    ),
    "C06": dict(
        text="Structural decision of the detector's defining facts for all maps: the selection mask is the conjunction of two "
        "STRICT comparisons of the undilated map with its dilation and with the threshold; the dilation kernel is the 3x3 "
        "literal with centre 0 and eight non-zero neighbours, applied per (sample, channel) map; the subscript columns "
        "produced by where() of the permuted mask are consumed consistently with that permutation (value read at the very "
        "cell, points = (width-axis column, height-axis column), sample/channel = columns of axes 0/1); the per-peak crop "
        "index sample*channels+channel agrees with the (samples*channels) flattening; every return path of find_local_peaks "
        "keeps the rough detector's values/sample/channel vectors and refined = rough + (dx, dy) on the centred patch grid.",
        note="Trusted: ast, kornia dilation = max over the kernel support, torch.where subscript order. Not decided: "
        "completeness/soundness against a brute-force scan on arbitrary maps, plateaus, the half-patch bound (false for "
        "negative-valued maps).",
        technique="comparison-strictness / kernel-literal / index-permutation agreement rules + def-use",
        engine="E7 structural",
        ref="DESIGN.md §4 C06",
    ),
    "C07": dict(
        text="Backward def-use slices of the x and y columns of the reported global peak show that both come from ONE "
        "index-producing reduction over the flattened H*W extent of each map, decomposed by % W and // W with W the last "
        "dimension, and that the reported value is that reduction's maximum - two independent per-axis arg-max chains (the "
        "original defect) are reported; coordinates->NaN and value->0 use one mask `value < threshold` computed before "
        "the stores, both dominating the return; in find_global_peaks one index set selects the boxed peaks, the cropped "
        "maps (flattened identically) and the rows receiving offsets; refinement works on a clone with (dx, dy) on the "
        "centred grid.",
        note="Trusted: ast, networkx, torch.max returning one consistent maximal element. Not decided: refinement bounded by "
        "half a patch, symmetric bumps unmoved, refinement moving toward the true centre (numerical).",
        technique="backward def-use slicing of reductions + CFG dominance + index-set agreement",
        engine="E7 structural + E3 flow",
        ref="DESIGN.md §4 C07",
    ),
    "C08": dict(
        text="Necessary structural conditions of 'grouping terminates with a partition', decided for every input because "
        "they are facts about data flow, not values: inter-procedural taint shows which infinite cost constants can "
        "reach scipy linear_sum_assignment (the one reaching site on this tree is a recorded known finding); the "
        "min_line_scores / per-edge / per-node masks are applied to every array of their parallel group before use; "
        "EdgeConnection receives (src, dst, score); connections are inserted in the topological edge order; the "
        "min_instance_peaks filter drops whole instances by peak count; make_predicted_instances writes peak "
        "(node, k) of the assignment table to row=instance, column=node.",
        note="Trusted: ast; scipy raising on infeasible cost matrices. Not decided: optimality of the assignment (scipy), "
        "connected-component and score-sum invariants, min_instance_peaks semantics for float thresholds.",
        technique="inter-procedural inf taint + parallel-array consistency + def-use of the edge order",
        engine="E4b taint + E7 structural",
        ref="DESIGN.md §4 C08",
    ),
    "C09": dict(
        text="Necessary structural conditions of the tracker contract over all histories: id allocation is max+1 (0 when "
        "empty) and, on every CFG path of add_new_tracks, the id is stored on the instance and registered exactly once "
        "before the next allocation; current_tracks only grows and only there; emptiness of matcher output is tested by "
        "length, never by any()/all() over index values; no call passes an element where a List[T] parameter is "
        "iterated; track() emits each tracked instance at most once, skipping only instances without a track id, from "
        "this call's instances; every self.candidate.<m>() call fits the signature in both candidate classes; "
        "inter-procedural taint of infinite costs into linear_sum_assignment through the matching-method registry "
        "(the hungarian path is a recorded known finding).",
        note="Trusted: ast, networkx, scipy raising on infeasible matrices. Not decided: behaviour over histories beyond "
        "these necessary conditions (which track is chosen, stale-track reductions over empty lists).",
        technique="CFG exactly-once path rules + who-may-call + index-truthiness lint + arity/interface agreement + inf taint",
        engine="E3 flow + E7 structural + E4b taint + E6 siblings",
        ref="DESIGN.md §4 C09",
    ),
    "C10": dict(
        text="Only the structural clause is claimed: a newcomer's identity is fresh and association scores are addressed "
        "by identity - id allocation max+1 registered in the same iteration, current_tracks never shrinks (ids are exactly "
        "0..n-1), the score matrix has one column per registered id filled at scores[i][track_id] from that track's "
        "features, cost = -scores, the matched column index is stored as the matched row's track id. Identity "
        "continuity across frames depends on numerical scores and on the matcher and is NOT decided.",
        note="Trusted: ast, networkx. This is a partial claim: continuity over histories is outside static reach.",
        technique="def-use / index-agreement rules on the score matrix + allocation path rules",
        engine="E7 structural + E3 flow",
        ref="DESIGN.md §4 C10",
    ),
    "C11": dict(
        text="Flow-sensitive origin/alias + in-place-effect analysis (CFG dataflow, bottom-up function summaries to a fixed "
        "point) of the 62 functions of the functional data / peak / grouping / evaluation / tracking-helper API and "
        "everything they call: no in-place sink (indexed store, op=, *_() method, out=, container mutator) is reachable "
        "by a value whose origin is a parameter, through any chain of views, packing, iteration or callees - a statement "
        "over all inputs and call sequences because it is an effect fact. In the four Dataset.__getitem__ the cached "
        "sample is copied before use and no value with origin `cache` reaches a sink; _fill_cache stores copies keyed by "
        "list position; __getitem__/__len__ of all eight dataset classes write no self state; __len__ is the length of "
        "the index list built under the is_empty filter.",
        note="Trusted: ast, networkx, the view/copy classification table of torch/numpy operations (unknown methods on "
        "tracked values are treated as aliases), A-sio (Instance.numpy() returns a copy). Out of scope by the property's "
        "own wording: attribute stores on label objects (user-instance filtering). Not decided: bit-identity through "
        "the .npz path.",
        technique="alias/effect dataflow with function summaries + self-state dataflow + structural length rules",
        engine="E1 alias/effects",
        ref="DESIGN.md §4 C11",
    ),
    "C15": dict(
        text="Decided: the OKS value depends on the missing-prediction mask through a +inf store that dominates the "
        "exponential and on the missing-ground-truth mask through a zero store between exponential and sum, normalised by "
        "the visible count (CFG dominance + def-use); a sign/interval abstract evaluation shows the exponent non-positive "
        "and the similarity in [0,1] under stddev>0, scale>=0; the evaluation/tracking helpers mutate no argument (alias "
        "engine); in match_instances every appended pair is preceded on its path by a pop of the matched ground truth, "
        "predictions are a permutation visited once, false negatives are the remaining pool; greedy_matching removes all "
        "edges of the chosen row or column, iterating backwards.",
        note="Trusted: ast, networkx, numpy facts (exp(-inf)=0, argsort is a permutation, list.pop). Not decided: OKS=1 "
        "for identical poses, monotonicity, translation invariance, reorder invariance (numerical).",
        technique="CFG dominance + def-use slices + sign/interval abstract evaluation + alias/effects",
        engine="E3 flow + E4c sign + E1 alias",
        ref="DESIGN.md §4 C15",
    ),
    "C12": dict(
        text="Index-bookkeeping clauses decided on the CFG/AST for every batch composition: the per-frame lists feeding the "
        "batch dict are appended exactly once per completed iteration after the end-of-stream test, from the frame's "
        "own key, and reset per batch; the per-sample loops split ALL sibling arrays of find_local_peaks with the one "
        "mask `sample_inds == b`; the top-k cut is torch.topk over the peak values (largest, k=max_instances) whose "
        "indices select the peaks; the bottom-up max_instances cut slices a list sorted by score descending; each crop "
        "record takes its frame/video index, size and eff_scale from the same zip tuple as its image, in a fresh dict, "
        "appended once unless the sample is all-NaN.",
        note="Trusted: ast, networkx, torch.topk semantics. Not decided: numerical independence of a sample from its "
        "batch-mates (depends on the network and on batched kernels).",
        technique="append-pairing path rules + parallel-array mask agreement + def-use of zip tuples",
        engine="E7 structural + E3 flow",
        ref="DESIGN.md §4 C12",
    ),
    "C14": dict(
        text="Decided: evaluation-mode statelessness - for every forward() under sleap_nn/architectures and the six "
        "inference modules a must-written-set dataflow (self-callees summarised) shows that no attribute written during "
        "the call is read before that write on any path, and no container attribute is mutated in place (one exemption "
        "with reason: MaxPool2dWithSamePadding.padding); decoder bookkeeping - each block appended to decoder_stack "
        "records the stride it was built with in the same iteration, and the running stride halves afterwards; "
        "selection - Decoder.forward emits one output per block plus current_strides, backbones return that dict, "
        "Model.forward picks outputs[strides.index(head.output_stride)] for the head/layer pair built in the same "
        "order; channels - confmap heads have len(part_names) (centroid 1) and the PAF head 2*len(edges) channels "
        "through a 1x1 stride-1 same-padded conv, and the bottom-up decoder's output keys are the head class names.",
        note="Trusted: ast, networkx, Conv2d(1x1, stride 1, 'same') preserving spatial size. Not decided: the "
        "configuration grid -> spatial shape arithmetic (no sound shape domain for nn.Module constructors in reach), "
        "determinism of the torch kernels themselves.",
        technique="must-written-set dataflow (read-before-write on self) + append pairing + def-use selection rules",
        engine="E1 effects (self-state) + E7 structural",
        ref="DESIGN.md §4 C14",
    ),
    "C17": dict(
        text="The order consumed by grouping is shown, by inter-procedural def-use, to be the output of toposort_edges on "
        "the scorer's own edge list (single writer of sorted_edge_inds, positional hand-over through group_instances -> "
        "_batch -> _sample bound to parameter names, connections dict filled by a loop over that parameter, assembly "
        "iterating the dict in insertion order), and toposort_edges is shown to be a root-first networkx traversal of a "
        "DiGraph holding every (src, dst) edge, rooted at next(topological_sort), mapped back by edges.index in traversal "
        "order. With the cited networkx facts this gives complete, parent-before-child order for every tree and listing.",
        note="Trusted: ast, dict insertion order, networkx topological_sort/bfs_edges/dfs_edges semantics. A hand-rolled "
        "traversal is exit 2 (inconclusive). The exhaustive enumeration of trees is execution and is not done.",
        technique="inter-procedural def-use + library-fact pattern of the traversal",
        engine="E7 structural",
        ref="DESIGN.md §4 C17",
    ),
    "C18": dict(
        text="For each model type the E2 interpretation of the in-memory dataset, the .npz branch and chunk function + streaming "
        "__getitem__ yields an abstract sample signature (frames of image and keypoints, and for each target-generator call "
        "the generator, the frames it is fed and the sources of sigma/stride); the three signatures must coincide. The "
        "np_chunks writer/reader branches are checked to be inverse and keyed alike; get_bin_files and the two "
        "_create_data_loaders_* methods are checked to pair each model type with its own chunk function / streaming class / "
        "Dataset class and to hand them the scale, crop size, stride, head configs, labels and chunk directory of that model "
        "type and split; each of the eight legacy DataPipe blocks is interpreted on an abstract example and must have the "
        "frame effect of its functional counterpart.",
        note="Trusted: ast, leaf transfer table, storage contract (np.savez/np.load, litdata return what was stored). Not "
        "decided: pixel equality up to 8-bit quantisation; centered-instance crop centring at scale != 1 (excluded by the "
        "property).",
        technique="abstract interpretation (units domain) + sibling-signature comparison + structural wiring tables",
        engine="E2 geom + E6 siblings",
        ref="DESIGN.md §4 C18",
    ),
    "C19": dict(
        text="Typestate analysis (UNMASKED/MASKED) of the trainer's configuration object over the lifecycle "
        "ModelTrainer.__init__ ; train with self-callees inlined: every persistence sink (the five OmegaConf.save "
        "sites, OmegaConf.to_container for the experiment tracker, the checkpoint written inside trainer.fit) is "
        "reached only in state MASKED. Because this is a dominance fact over the CFG it holds at every crash point "
        "between two file writes and for every configuration (tracking on/off, framework, structured or plain). "
        "Also decided: the stashed key flows only into wandb.login; the final training_config.yaml save cuts every "
        "exit of train() after fit; chunk deletion sits in that finally under its flag and framework; no config write "
        "precedes the initial save; every self.config path read/written by ModelTrainer and TrainingModel resolves in "
        "the attrs schema tree (a write of an undeclared key raises on builder-made configs).",
        note="Trusted: ast, networkx, the enumerated serialisation sinks, Lightning calling on_save_checkpoint only "
        "inside fit. Not decided: that training completes without error in general, checkpoint creation by "
        "Lightning, equality of the saved YAML with the supplied configuration, files written by wandb itself.",
        technique="CFG typestate dataflow + must-reach + schema path conformance",
        engine="E3 typestate/flow + E5 schema",
        ref="DESIGN.md §4 C19",
    ),
    "C20": dict(
        text="Schema-directed wiring analysis of the builders in sleap_nn/train.py against the attrs config schema read "
        "from the AST: train() forwards each of its 55 parameters by name to exactly one builder; the construction tree "
        "each builder returns is extracted and compared with the documented parameter->config-path table (no argument "
        "dropped, modified, cross-wired or passed to an undeclared field; nested objects have the declared type; the "
        "validation loader never shuffles; augmentation built iff use_augmentations_train); the per-name branches of "
        "get_aug_config commute pairwise and leave their own fields enabled given the loop-entry values; presets and "
        "dict keys select the attribute/class of the same name; every *_p field has validate_proportion whose raise "
        "condition is exactly the complement of [0,1]; the scale/model_type/optimizer/devices/min_lr/pre_trained "
        "validators raise; HeadConfig/BackboneConfig are wrapped by a oneof whose __init__ wrapper raises when more "
        "than one attribute is set. These are statements over all argument combinations because they are facts about "
        "the wiring, not about sampled calls.",
        note="Trusted: ast; attrs runs validators in __init__; the parameter->field table frozen in sa/props/c20.py as "
        "the documented interface. Not decided: YAML save/load round trip and idempotence of verify_training_cfg "
        "(OmegaConf runtime semantics), defaults of options the builders do not expose beyond their being left to "
        "the schema.",
        technique="schema-directed wiring / construction-tree comparison + branch-commutativity + validator structure",
        engine="E5 schema",
        ref="DESIGN.md §4 C20",
    ),
    "C16": dict(na="every clause (perfect scores for perfect predictions, ratios in [0,1], monotonicity in thresholds, recall under deletion) is a "
                   "statement about floating-point results of cumsum/searchsorted/percentile over arbitrary label sets; no clause is visible in the shape of "
                   "the code, so static analysis cannot decide it (DESIGN.md section 6)"),
}

ALL = ["C%02d" % i for i in range(1, 21)]
